#!/usr/bin/env python3
"""names of the functions the behaviour-preserving refactorings under selftest/neutral touch (from meta.txt and the hunk headers)"""
import glob, re, os, sys
names = set()
for d in sorted(glob.glob('/verif/selftest/neutral/*')):
    m = os.path.join(d, 'meta.txt')
    if os.path.exists(m):
        for l in open(m, errors='replace'):
            if l.lower().startswith('function'):
                names.update(re.findall(r'[A-Za-z_][A-Za-z0-9_]{3,}', l.split(':', 1)[1]))
    p = os.path.join(d, 'patch.diff')
    for l in open(p, errors='replace'):
        if l.startswith('@@'):
            names.update(re.findall(r'([A-Za-z_][A-Za-z0-9_]{3,})\s*\(', l.split('@@')[-1]))
        elif l.startswith(('+', '-')) and re.match(r'^[+-](static\s+)?[A-Za-z_][A-Za-z0-9_ \*]*\s+\**([A-Za-z_][A-Za-z0-9_]+)\s*\(', l):
            names.add(re.match(r'^[+-](static\s+)?[A-Za-z_][A-Za-z0-9_ \*]*\s+\**([A-Za-z_][A-Za-z0-9_]+)\s*\(', l).group(2))
stop = {'static', 'struct', 'const', 'size_t', 'void', 'bool', 'uint64_t', 'int64_t', 'Function', 'functions', 'through', 'with', 'into', 'helper', 'macros', 'Macros'}
print(', '.join(sorted(n for n in names if n not in stop and not n.islower() or n in ('assign','swap','copy','destruct','dealloc','show_to','start_in','stop_in','hash_data','memswap','range_stack','slice_stack','println_with','scanln_with','exception_throw','exception_catch'))))
