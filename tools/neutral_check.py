#!/usr/bin/env python3
"""tools/neutral_check.py <dir with r*/patch.diff> [--keep NAME]: apply each behaviour-preserving refactoring to a scratch copy of
/repo and run all checks; anything but exit 0 everywhere is a false alarm (exit 1) or a fragility (exit 2)."""
import json, os, shutil, subprocess, sys, tempfile, glob
from concurrent.futures import ThreadPoolExecutor
VERIF, REPO = '/verif', '/repo'
src = os.path.abspath(sys.argv[1])
props = [json.loads(l)['id'] for l in open(os.path.join(VERIF, 'properties.jsonl'))]
if os.environ.get('CV_ONLY_PROPS'):
    props = [p for p in props if p in os.environ['CV_ONLY_PROPS'].split(',')]
cases = sorted(glob.glob(os.path.join(src, '*', 'patch.diff')))

def run(pf):
    d = tempfile.mkdtemp(prefix='cvneu_')
    try:
        for item in ('src', 'include', 'tests', 'Makefile'):
            s = os.path.join(REPO, item)
            (shutil.copytree if os.path.isdir(s) else shutil.copy)(s, os.path.join(d, item))
        p = subprocess.run(['patch', '-p1', '--no-backup-if-mismatch', '-i', pf], cwd=d, capture_output=True, text=True)
        if p.returncode != 0:
            return pf, 'PATCH-FAIL', []
        env = dict(os.environ, CV_REPO=d, CV_EVIDENCE_DIR=os.path.join(d, '_ev'))
        bad = []
        for pid in props:
            r = subprocess.run([os.path.join(VERIF, 'check'), pid, '--tier', 'quick'], capture_output=True, text=True, env=env, cwd=VERIF)
            if r.returncode != 0:
                lines = [l for l in r.stdout.splitlines() if l.startswith('REFUTED') or l.startswith('ANALYSIS-BROKEN')]
                bad.append((pid, r.returncode, lines[:3]))
        return pf, 'OK' if not bad else 'ALARM', bad
    finally:
        shutil.rmtree(d, ignore_errors=True)

with ThreadPoolExecutor(max_workers=15) as ex:
    res = list(ex.map(run, cases))
nbad = 0
for pf, st, bad in res:
    name = os.path.basename(os.path.dirname(pf))
    print('%-6s %s' % (st, name))
    for pid, rc, lines in bad:
        nbad += 1
        for l in lines:
            print('      %s rc=%d %s' % (pid, rc, l[:260]))
print('%d refactorings, %d (check, refactoring) pairs not silent' % (len(res), nbad))
