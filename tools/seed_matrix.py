#!/usr/bin/env python3
"""tools/seed_matrix.py : run every check against every kept seeded change (on scratch copies of /repo,
never /repo itself) and write seeded/matrix.json + seeded/MATRIX.md; updates detected_by in each meta.json."""
import json, os, shutil, subprocess, sys, tempfile, glob
from concurrent.futures import ThreadPoolExecutor
VERIF = '/verif'
REPO = '/repo'
props = [json.loads(l)['id'] for l in open(os.path.join(VERIF, 'properties.jsonl'))]
seeds = sorted(os.path.basename(d) for d in glob.glob(os.path.join(VERIF, 'seeded', 'C*-*')))
only = [a for a in sys.argv[1:] if not a.startswith('--')]
if only:
    seeds = [s for s in seeds if s in only or s.split('-')[0] in only]
own_only = '--own' in sys.argv

def run_seed(sid):
    d = tempfile.mkdtemp(prefix='cvseed_')
    try:
        for item in ('src', 'include', 'tests', 'Makefile'):
            s = os.path.join(REPO, item)
            (shutil.copytree if os.path.isdir(s) else shutil.copy)(s, os.path.join(d, item))
        p = subprocess.run(['patch', '-p1', '--no-backup-if-mismatch', '-i', os.path.join(VERIF, 'seeded', sid, 'patch.diff')], cwd=d, capture_output=True, text=True)
        if p.returncode != 0:
            return sid, {'_error': 'patch does not apply: ' + p.stdout[-200:]}
        res = {}
        env = dict(os.environ, CV_REPO=d, CV_EVIDENCE_DIR=os.path.join(d, '_ev'))
        todo = [sid.split('-')[0]] if own_only else props
        for pid in todo:
            r = subprocess.run([os.path.join(VERIF, 'check'), pid, '--tier', 'quick'], capture_output=True, text=True, env=env, cwd=VERIF)
            ref = [l.split(' at ')[0].replace('REFUTED ', '') for l in r.stdout.splitlines() if l.startswith('REFUTED')]
            if r.returncode != 0:
                res[pid] = {'rc': r.returncode, 'refuted': ref[:4]}
        return sid, res
    finally:
        shutil.rmtree(d, ignore_errors=True)

with ThreadPoolExecutor(max_workers=6) as ex:
    out = dict(ex.map(run_seed, seeds))
mpath = os.path.join(VERIF, 'seeded', 'matrix.json')
old = json.load(open(mpath)) if os.path.exists(mpath) and (only or own_only) else {}
old.update(out)
json.dump(old, open(mpath, 'w'), indent=1, sort_keys=True)
lines = ['| seeded change | breaks | detected by (check: first refuted rule) |', '|---|---|---|']
for sid in sorted(old):
    r = old[sid]
    det = '; '.join('%s: %s' % (p, (v['refuted'] or ['exit %d' % v['rc']])[0]) for p, v in sorted(r.items()) if p != '_error' and v['rc'] == 1)
    other = [p for p, v in r.items() if p != '_error' and v['rc'] == 2]
    if other:
        det += ' (analysis-broken: %s)' % ','.join(sorted(other))
    lines.append('| %s | %s | %s |' % (sid, sid.split('-')[0], det or ('**not detected**' if '_error' not in r else r['_error'])))
    mp = os.path.join(VERIF, 'seeded', sid, 'meta.json')
    if os.path.exists(mp):
        m = json.load(open(mp))
        m['detected_by'] = {p: v['refuted'] for p, v in r.items() if p != '_error' and v['rc'] == 1}
        json.dump(m, open(mp, 'w'), indent=1)
open(os.path.join(VERIF, 'seeded', 'MATRIX.md'), 'w').write('\n'.join(lines) + '\n')
own_miss = [s for s in sorted(old) if s.split('-')[0] not in old[s] or old[s][s.split('-')[0]]['rc'] != 1]
print('%d seeds; not detected by their own property\'s check: %s' % (len(old), own_miss))
