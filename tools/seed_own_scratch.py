#!/usr/bin/env python3
"""tools/seed_own_scratch.py [ids...]: every kept seed is applied to a scratch copy of /repo (never to /repo itself) and the check of
its own property is run on the copy (CV_REPO); prints the seeds whose own check does not report a violation.  Parallel."""
import json, os, shutil, subprocess, sys, tempfile, glob
from concurrent.futures import ThreadPoolExecutor
VERIF, REPO = '/verif', '/repo'
ids = [a for a in sys.argv[1:] if not a.startswith('-')]
seeds = sorted(d for d in glob.glob(os.path.join(VERIF, 'seeded', 'C*')) if os.path.isdir(d) and (not ids or os.path.basename(d) in ids))


def run(d):
    name = os.path.basename(d)
    prop = name.split('-')[0]
    t = tempfile.mkdtemp(prefix='cvseed_')
    try:
        for item in ('src', 'include', 'tests', 'Makefile'):
            s = os.path.join(REPO, item)
            (shutil.copytree if os.path.isdir(s) else shutil.copy)(s, os.path.join(t, item))
        p = subprocess.run(['patch', '-p1', '-s', '--no-backup-if-mismatch', '-i', os.path.join(d, 'patch.diff')], cwd=t, capture_output=True, text=True)
        if p.returncode != 0:
            return name, 'PATCH-FAIL', ''
        env = dict(os.environ, CV_REPO=t, CV_SELFTEST='1', CV_EVIDENCE_DIR=os.path.join(t, '_ev'))
        r = subprocess.run([os.path.join(VERIF, 'check'), prop, '--tier', 'quick'], capture_output=True, text=True, env=env, cwd=VERIF)
        viol = [l for l in r.stdout.splitlines() if l.startswith('REFUTED')]
        first = (viol or [l for l in r.stdout.splitlines() if l.startswith('ANALYSIS-BROKEN')] or [''])[0]
        return name, ('DETECTED' if r.returncode == 1 and viol else ('BROKEN' if r.returncode == 2 else 'MISSED')), first[:200]
    finally:
        shutil.rmtree(t, ignore_errors=True)


with ThreadPoolExecutor(max_workers=10) as ex:
    res = list(ex.map(run, seeds))
bad = [(n, s, f) for n, s, f in res if s != 'DETECTED']
for n, s, f in bad:
    print('%-10s %-10s %s' % (n, s, f))
print('%d seeds, %d not reported as a violation by their own property\'s check' % (len(res), len(bad)))
