#!/usr/bin/env python3
"""tools/design_table.py — prints the table of DESIGN.md §10.2 (rules × obligations per property) from evidence/*.json as they are now."""
import json, os
HERE = os.path.dirname(os.path.dirname(os.path.abspath(__file__)))
print('| prop | tier | rules × obligations | functions |')
print('|---|---|---|---|')
for i in range(1, 21):
    pid = 'C%02d' % i
    d = json.load(open(os.path.join(HERE, 'evidence', pid + '.json')))
    ri = d['coverage'].get('rule_instances') or {}
    nf = len(d['coverage'].get('functions_analysed') or [])
    print('| %s | %s | %s | %s |' % (pid, d.get('tier'), ', '.join('%s %s' % (k.split('.', 1)[1], v) for k, v in sorted(ri.items())), nf))
