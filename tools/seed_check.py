#!/usr/bin/env python3
"""tools/seed_check.py <patch.diff> [PROP ...] : apply a seeded change to /repo, run the checks, undo it."""
import subprocess, sys, os, shutil, tempfile, glob
patch = sys.argv[1]
props = sys.argv[2:] or [os.path.basename(f)[6:9].upper() for f in sorted(glob.glob('/verif/cv/rules_c*.py'))]
def sh(cmd):
    return subprocess.run(cmd, shell=True, capture_output=True, text=True)
assert sh('git -C /repo status --porcelain --untracked-files=no').stdout.strip() == '', 'repo dirty'
bak = tempfile.mkdtemp(prefix='cvev_')
for f in glob.glob('/verif/evidence/*.json'): shutil.copy(f, bak)
a = sh('git -C /repo apply %s' % patch)
if a.returncode:
    print('PATCH DOES NOT APPLY', a.stderr); sys.exit(2)
try:
    for p in props:
        r = sh('cd /verif && ./check %s --tier quick' % p)
        ref = [l for l in r.stdout.splitlines() if l.startswith('REFUTED') or l.startswith('ANALYSIS-BROKEN')]
        print('%s rc=%d %s' % (p, r.returncode, (' | '.join(x[:150] for x in ref[:3])) if ref else ''))
finally:
    sh('git -C /repo checkout -- .')
    for f in glob.glob(bak + '/*.json'): shutil.copy(f, '/verif/evidence/')
    shutil.rmtree(bak, ignore_errors=True)
    shutil.rmtree('/verif/evidence/replay', ignore_errors=True)
