#!/usr/bin/env python3
"""run every claimed check (quick, or --thorough) and summarise"""
import json, subprocess, sys, time
tier = 'thorough' if '--thorough' in sys.argv else 'quick'
man = json.load(open('/verif/MANIFEST.json'))
bad = 0
for c in man['checks']:
    t = time.time()
    r = subprocess.run(c['quick_cmd'] if tier == 'quick' else c['thorough_cmd'], shell=True, capture_output=True, text=True, cwd='/verif')
    last = r.stdout.strip().splitlines()[-1] if r.stdout.strip() else ''
    flag = 'OK ' if r.returncode == 0 and 'VIOLATION' not in r.stdout else 'BAD'
    if flag == 'BAD':
        bad += 1
    print('%s rc=%d %5.1fs %s' % (flag, r.returncode, time.time() - t, last[:150]))
print('%d checks, %d bad' % (len(man['checks']), bad))
sys.exit(1 if bad else 0)
