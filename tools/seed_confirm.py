#!/usr/bin/env python3
"""tools/seed_confirm.py <worktree> <change dir> : confirm a seeded change in its scratch worktree:
(a) applied: make check passes, demo fails; (b) reverted: demo passes. Leaves the worktree reverted."""
import subprocess, sys, os, re
ANSI = re.compile(r'\x1b\[[0-9;]*m')
wt, ch = sys.argv[1], sys.argv[2]
def sh(cmd, **kw):
    return subprocess.run(cmd, shell=True, capture_output=True, text=True, errors='replace', **kw)
def demo():
    b = sh('gcc -std=gnu99 -I %s/include %s/demo.c %s/libCello.a -lpthread -lm -o %s/demo.bin' % (wt, ch, wt, ch))
    if b.returncode: return 'build-fail ' + b.stderr[-300:]
    try:
        r = sh('%s/demo.bin' % ch, timeout=300, cwd=ch)
    except subprocess.TimeoutExpired:
        return 'timeout'
    return 'rc=%d %s' % (r.returncode, (r.stdout + r.stderr).strip().splitlines()[-1][:120] if (r.stdout + r.stderr).strip() else '')
sh('git -C %s checkout -- .' % wt)
a = sh('git -C %s apply %s/patch.diff' % (wt, ch))
if a.returncode:
    print('PATCH DOES NOT APPLY', a.stderr); sys.exit(1)
t = sh('make -C %s check' % wt)
suite = 'Failed    0 |' in ANSI.sub('', t.stdout) and t.returncode == 0
d1 = demo()
sh('git -C %s checkout -- .' % wt)
sh('touch %s/src/*.c; make -C %s' % (wt, wt))
d0 = demo()
print('suite-with-change: %s | demo with change: %s | demo without: %s' % ('PASS' if suite else 'FAIL', d1, d0))
ok = suite and not d1.startswith('rc=0') and d0.startswith('rc=0')
print('CONFIRMED' if ok else 'NOT CONFIRMED')
sys.exit(0 if ok else 1)
