#!/usr/bin/env python3
"""Regenerates MANIFEST.json from tools/manifest_src.py (claimed checks) and
properties.jsonl (everything else goes to not_applicable with its reason)."""
import json, os, sys
HERE = os.path.dirname(os.path.dirname(os.path.abspath(__file__)))
sys.path.insert(0, os.path.join(HERE, 'tools'))
import manifest_src as M

props = [json.loads(l)['id'] for l in open(os.path.join(HERE, 'properties.jsonl'))]
checks = []
for pid in props:
    c = M.CHECKS.get(pid)
    if not c:
        continue
    checks.append({
        'property_id': pid,
        'quick_cmd': './check %s --tier quick' % pid,
        'thorough_cmd': './check %s --tier thorough' % pid,
        'evidence_file': 'evidence/%s.json' % pid,
        'replay_cmd_template': './check %s --replay {path}' % pid,
        'engine': 'cv',
        'level_claimed': {'category': 'other', 'text': c['text'], 'design_ref': 'DESIGN.md section 5, ' + pid},
        'level_note': c['note'],
        'technique': c['technique'],
    })
na = [{'property_id': p, 'reason': M.NOT_APPLICABLE.get(p, 'static check not built yet in this tree; no claim is made')}
      for p in props if p not in M.CHECKS]
man = {
    'version': 1,
    'setup_cmd': 'python3 -c "import json,sys; sys.path.insert(0,\'.\'); import cv.front, cv.model" && clang --version >/dev/null',
    'hooks': {'guard': 'CELLO_VERIF', 'enable': 'none: the analysis needs no source hooks; all modelling lives in /verif',
              'baseline_off_cmd': 'make -C /repo check', 'source_commits': [], 'add_only': True},
    'engines': [{'name': 'cv', 'path': 'cv/', 'serves_properties': sorted(M.CHECKS),
                 'kind_free_text': 'repository-specific static analyser: clang JSON AST -> IR -> CFG; dominance / cut queries, bounded path '
                                   'enumeration, type-class slot tables, code-derived summaries; an exact-C integer evaluator (cv/cint.py) that '
                                   'interprets the IR of library functions on small abstract instances (absmodel, seqmodel, tablemodel, gcmodel, '
                                   'printmodel, evals) against the stated meaning; a shape analysis for the red-black tree (rbshape)'}],
    'checks': checks,
    'notes': M.NOTES,
    'not_applicable': na,
}
json.dump(man, open(os.path.join(HERE, 'MANIFEST.json'), 'w'), indent=1)
print('MANIFEST.json: %d checks, %d not_applicable' % (len(checks), len(na)))
