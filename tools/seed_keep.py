#!/usr/bin/env python3
"""tools/seed_keep.py <PROP> <n> <worktree change dir> '<needs>' : store a confirmed seeded change under /verif/seeded/"""
import sys, os, shutil, json, subprocess
prop, n, ch, needs = sys.argv[1:5]
sid = '%s-%s' % (prop, n)
d = '/verif/seeded/' + sid
os.makedirs(d, exist_ok=True)
for f in ('patch.diff', 'demo.c'):
    shutil.copy(os.path.join(ch, f), d)
meta_txt = open(os.path.join(ch, 'meta.txt')).read() if os.path.exists(os.path.join(ch, 'meta.txt')) else ''
json.dump({'id': sid, 'property': prop, 'needs_to_manifest': needs,
           'author_notes': meta_txt,
           'confirmed_by': 'tools/seed_confirm.py in a scratch worktree: with the change `make check` passes and demo.c fails; without it demo.c passes',
           'checks_run': 'tools/seed_check.py %s/patch.diff (apply to /repo, run ./check <PROP> --tier quick, git checkout -- .)' % d,
           'detected_by': None}, open(os.path.join(d, 'meta.json'), 'w'), indent=1)
print('kept', d)
