NOTES = ('Static analysis only. Every check re-parses /repo\'s current working tree (compile flags from `make -n -B`), '
         'decides a set of structural obligations that are necessary conditions of the property, and reports a concrete '
         'construct (file:line, function, path) on refutation. Exit 2 = analysis broken (never a pass). '
         'See DESIGN.md for the decided / not-decided split per property.')

ASSUME = ('clang 14 front end; the Linux branches of the preprocessor conditionals (what the build compiles); '
          'the C library primitives behave as documented; the analysis engine in /verif/cv')

CHECKS = {
 'C07': {
  'text': 'Typestate analysis over code-derived summaries: macro skeleton of try/catch/throw (witness unit), per-path '
          'summaries of the five exception_* operations over the abstract record, and exhaustive comparison of the '
          'summary-driven abstract machine with block-structured semantics on all program trees up to the bound. '
          'Decides the protocol itself, not the C library\'s setjmp/longjmp.',
  'note': ASSUME + '; programs do not leave a try body by return/break (documented contract)',
  'technique': 'typestate / effect summaries per CFG path + bounded exhaustive abstract protocol check',
 },
}

CHECKS['C12'] = {
  'text': 'Decides three structural necessary conditions on every path of the checked build: no mutation of self-reachable '
          'state before any contract-error raise point in the container/String operations and their helpers (NOPRE over the CFG '
          'with a pointer-origin analysis), the documented exception kind per operation (sibling table, no-hit exit of rem), and '
          'dominance of the NULL/magic/class/member/allocation-class tests in the dispatcher and dealloc. Does not decide absence '
          'of memory errors in general.',
  'note': ASSUME + '; default configuration only (CELLO_NDEBUG removes the checks by design)',
  'technique': 'CFG reachability (mutation-before-raise), pointer-origin/effect summaries, guard dominance cuts, sibling tables',
}

CHECKS['C20'] = {
  'text': 'Decides the closed-handle typestate structurally: every stdio call on the handle field in the File/Process slot '
          'functions is dominated by the closed test that raises IOError; close clears the handle on every normal exit; '
          'destructor/open/with pair with close; each stream operation delegates to the matching stdio call on the object\'s '
          'own handle with error translation. Does not decide data round-trip (stdio behaviour).',
  'note': ASSUME,
  'technique': 'guard-dominance cuts on the CFG, must-pass-through, sibling/delegation tables over type-class slots, macro witness',
}

CHECKS['C16'] = {
  'text': 'Decides structural necessary conditions of the String value semantics: allocation-class refusal dominates every '
          'realloc/free of the buffer; requested sizes cover the bytes then written (polynomial identity over strlen terms); '
          'search results are NULL-tested before use; rem moves exactly the tail; len/cmp/hash/c_str/mem delegate to the C '
          'library on the object\'s own buffer. Does not decide contents after arbitrary histories.',
  'note': ASSUME,
  'technique': 'guard dominance, symbolic extent comparison (polynomial normal form), accessor inlining, delegation table',
}

CHECKS['C19'] = {
  'text': 'Decides where objects come into being and where memory is released: every header_init call and macro expansion '
          'stamps the true (type, allocation class); header/object pointer arithmetic agrees across header, header_init, '
          'alloc_by, dealloc and type_of; iter_type/key_type/val_type report the stamped field; allocation-class refusals '
          'dominate every free/realloc of String and Tuple buffers and the free in dealloc. Thorough tier repeats the layout '
          'rules under the other header configurations.',
  'note': ASSUME + '; user code does not forge object headers',
  'technique': 'call-site table over resolved header_init calls, macro witnesses, symbolic layout comparison, guard dominance',
}

CHECKS['C06'] = {
  'text': 'Interprocedural must-pass analysis: from every deletion entry point, through the constant-specialised switch in '
          'del_by and the validated type-class dispatch into the collector, every normal exit must pass '
          'dealloc(destruct(p)) exactly once; plus ordering (destruct before dealloc at every release site), pairing in the '
          'sweep (append once / finalise every pending entry), and creation/teardown pairing in main, worker threads and '
          'the collector destructor. Four exit classes that skip finalisation are genuine defects recorded as known findings.',
  'note': ASSUME + '; does not account individual malloc/free blocks',
  'technique': 'interprocedural path enumeration with equality tracking and constant specialisation; must-pass cuts; dispatch validation',
}

CHECKS['C05'] = {
  'text': 'Decides ownership pairing on every CFG path of every removal/teardown routine of Array, List, Table and Tree: '
          'destruct exactly once per owned part before its storage is overwritten or freed, count adjusted once, teardown '
          'traversals cover the full element set, byte-wise relocation only where the source is released without destruct, '
          'assignment clears first and copies deeply. Does not decide the run-time ledger of live elements.',
  'note': ASSUME,
  'technique': 'per-path event counting/ordering (COUNT/ORDER), traversal coverage by loop-shape analysis, pointer-origin analysis',
}

CHECKS['C01'] = {
  'text': 'Decides the structural necessary conditions of safe collection: mark-phase order and coverage, inclusive stack scan '
          'in both directions (loop headers evaluated for symbolic bounds), trace-on-first-mark, Mark-instance-or-every-word '
          'tracing with a field-checked skip list, recursing marking callbacks, full-coverage container Mark instances, sweep '
          'guard / mark-before-sweep / marks cleared, root flags, candidate range, stack bottom. Native-stack recursion of the '
          'marker is a recorded known finding. Does not decide what the compiler keeps in scanned words.',
  'note': ASSUME + '; conservative scanning sees every live pointer the compiler keeps in registers/stack (not decidable here)',
  'technique': 'must-pass/dominance cuts, partial evaluation of loop headers, call-graph cycle detection, slot-addressed coverage rules',
}

CHECKS['C17'] = {
  'text': 'Decides agreement and pairing structure of the registry: role-normalised probe fragments (home slot, stop, advance, hit, '
          'displacement, stored hash, back-shift) agree across insert/lookup/remove/marker and with Table\'s probe-distance function; '
          'entries move as a whole on displacement, back-shift and rehash; counts paired with insert/remove; flags and bounds recorded; '
          'shrink and threshold update after removals; sweep compaction re-examines the slot. Does not decide the probe-distance '
          'invariant for all address patterns.',
  'note': ASSUME,
  'technique': 'sibling agreement over extracted canonical fragments, natural-loop analysis, header partial evaluation, must-pass cuts',
}

CHECKS['C02'] = {
  'text': 'Decides structural necessary conditions of the finite-map behaviour: sibling agreement of the probe fragments across '
          'get/mem/rem/insert, a replace-on-equal test that cannot miss an equal resident, KeyError/false on every miss exit, no '
          'modulo by a zero slot count, count/slot bookkeeping pairing, wrap-aware whole-record back-shift, symbolic agreement of '
          'every record-layout offset, scratch-record lifetime. Does not decide the robin-hood ordering invariant over all key sets.',
  'note': ASSUME,
  'technique': 'sibling agreement over extracted probe fragments, polynomial layout comparison, guard dominance, header partial evaluation',
}

CHECKS['C09'] = {
  'text': 'Decides the three-way discipline of every Cmp.cmp slot function (literals, C three-way comparisons of (self, obj) in '
          'order, or cast-free sign expressions over the two numeric values that evaluate to sign(a-b) on operands far apart), the '
          'truth sets of the six derived predicates over the sign of cmp, sibling agreement of the container comparison decision '
          'tables, and the guards of the byte-wise default. Does not decide value-level laws of strcmp/memcmp or NaN.',
  'note': ASSUME,
  'technique': 'sign-domain evaluation of extracted return expressions, narrowing-conversion detection, sibling decision-table agreement',
}

CHECKS['C08'] = {
  'text': 'Decides the wiring of dispatch: each cache entry tests, fills and returns one distinct slot with the scan for its own '
          'class; lookups keep no state besides idempotent memoisation in the queried record; the scan starts at the first declared '
          'instance, stops at the NULL triple and matches by pointer then exact name; static and run-time type records agree with '
          'the accessors on every index (per configuration in the thorough tier); ClassError/ValueError guards dominate; no member '
          'of an unchecked instance table is called. Does not decide memory-model behaviour of the benign races.',
  'note': ASSUME,
  'technique': 'table agreement over expanded macro entries, who-may-write effect analysis, layout comparison, guard dominance',
}

CHECKS['C14'] = {
  'text': 'Decides the table structure of the format scanner: terminator letters = disjoint union of the letters the branches format; '
          'each branch fetches with the accessor of its kind and passes the value unchanged with the copied specification; position '
          'accounting and FormatError on negative counts; argument-count test dominates the fetch; scratch and String-sink bounds; File '
          'sink = vfprintf; show functions use constant formats. Does not decide character-for-character equality with printf.',
  'note': ASSUME,
  'technique': 'table agreement (writer letters vs handled letters), guard dominance, symbolic bound comparison, call-site argument rules',
}
CHECKS['C15'] = {
  'text': 'Decides writer/reader agreement structurally: the String escape tables of show and look are inverse maps; every iteration '
          'path of the reader appends exactly one character; Int/Float use the same specification both ways; scan appends %n, passes its '
          'counter and advances the position once per conversion; per-specification decisions read only the copied specification. '
          'Does not decide numeric round-trip within precision.',
  'note': ASSUME,
  'technique': 'table inversion check between two switch statements, per-iteration path counting, call-site agreement',
}

CHECKS['C04'] = {
  'text': 'Decides the sequence contract structurally: the index arithmetic of get/set/pop_at/push_at is evaluated by the analyser over '
          'small lengths and a wide key range (negative-from-end once, everything else refused before access); memmove extents equal the '
          'tail (polynomial identity) and are ordered correctly around the count update; growth precedes slot writes and realloc sizes '
          'cover items plus sentinel; List link/unlink cases are mirror images and the element count changes by exactly the nodes linked minus unlinked on every path (interprocedural); sort only exchanges; rem stops at the first hit.',
  'note': ASSUME + '; push_at insertion positions are taken per container as implemented today (they differ between Array and List/Tuple)',
  'technique': 'partial evaluation of index arithmetic over the CFG, polynomial extent comparison, mirror-closure of per-path store sets',
}
CHECKS['C11'] = {
  'text': 'Decides structural necessary conditions of iteration: empty-container guards before every count-1 access, Array cursor '
          'stepping evaluated over concrete geometries, mirror-image backward cursors (List, Tree), views driving the underlying iterable '
          'only through direction-matching cursor functions, zip-shortest, foreach expansion, len vs emptiness tests, List link pairing. '
          'The Slice stop bound is a recorded known finding. Range/Slice arithmetic is value-level and not decided.',
  'note': ASSUME,
  'technique': 'guard evaluation under dominance, partial evaluation of cursor and range arithmetic with exact C integer conversions, position abstraction of iterables, mirror-image sibling comparison, who-may-call rules, interprocedural effect pairing',
}

CHECKS['C03'] = {
  'text': 'Decides the ordered-map structure of Tree without the balancing proof: descent operand order and direction convention '
          'agree across get/mem/set/rem (branch conditions evaluated for c in {-1,0,1}); rotations and cursors are mirror images; every '
          'child-link store is paired with the parent-link update; tag-bit accessors preserve the other half of the word; absent keys '
          'raise; count/alloc/free pairing; node layout and predecessor copy extents; colour transfers read before recolouring. The '
          'red-black colour/black-height invariants (height bound) are NOT decided.',
  'note': ASSUME,
  'technique': 'shape analysis (abstract interpretation with summary nodes and focus; inductive loop-invariant check), sign-guided CFG walk, mirror-image comparison, must-pass pairing, polynomial layout comparison',
}

CHECKS['C10'] = {
  'text': 'Decides structural necessary conditions of value-hashing and copying: no hash function derives anything from an address; '
          'hash_data reads unsigned bytes with full coverage; container hashes XOR every element (key and value) once over a full '
          'traversal from seed 0; default copy/assign/swap are guarded and cover all size bytes; memswap touches every byte exactly '
          'once in each operand (loop headers evaluated for sizes 0..40) and exchanges; the List count (read by hash, copy, assign) tracks the links (followed by eq). Does not decide per-value agreement of hash with eq.',
  'note': ASSUME,
  'technique': 'effect rule on pointer-to-integer conversions with positive example, sibling form extraction, loop-header partial evaluation',
}

CHECKS['C13'] = {
  'text': 'Decides the structural side of thread isolation: the only run-time-written shared storage is a frozen reasoned list (none '
          'in collector/exception/allocator code); a thread binds its key before creating its own collector and exception record, which '
          'are found through current(Thread); join reaches pthread_join on every path with a handle; lock/unlock/trylock/with map onto the '
          'pthread calls on the object\'s own mutex. Does not decide schedules or memory visibility.',
  'note': ASSUME + '; pthread primitives behave as specified',
  'technique': 'who-may-write rule over file-scope/static storage, dominance ordering, must-pass cuts, slot tables',
}
CHECKS['C18'] = {
  'text': 'Decides configuration independence structurally: every CELLO_*_CHECK-only region (from the preprocessor directives) is a '
          'pure test; cache-conditional code lives only in the dispatcher and agrees with the scan; collector-only regions only '
          'register/create/tear down; every layout-agreement rule and the compile-time witnesses hold under each configuration\'s '
          'header (quick: 2 parsed configurations + 8 compile witnesses; thorough: all 8 parsed). Does not decide optimisation levels.',
  'note': ASSUME + '; only the Linux preprocessor branches are parsed',
  'technique': 'preprocessor-region classification over the parsed program, multi-configuration re-evaluation of layout rules, compile-fail witnesses',
}

NOT_APPLICABLE = {}
