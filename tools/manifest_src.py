NOTES = ('Static analysis only. Every check re-parses /repo\'s current working tree (compile flags from `make -n -B`), '
         'decides a set of structural obligations that are necessary conditions of the property, and reports a concrete '
         'construct (file:line, function, path) on refutation. Exit 2 = analysis broken (never a pass). '
         'See DESIGN.md for the decided / not-decided split per property.')

ASSUME = ('clang 14 front end; the Linux branches of the preprocessor conditionals (what the build compiles); '
          'the C library primitives behave as documented; the analysis engine in /verif/cv')

CHECKS = {
 'C07': {
  'text': 'Typestate analysis over code-derived summaries: macro skeleton of try/catch/throw (witness unit), per-path '
          'summaries of the five exception_* operations over the abstract record, and exhaustive comparison of the '
          'summary-driven abstract machine with block-structured semantics on all program trees up to the bound. '
          'Decides the protocol itself, not the C library\'s setjmp/longjmp.',
  'note': ASSUME + '; programs do not leave a try body by return/break (documented contract)',
  'technique': 'typestate / effect summaries per CFG path + bounded exhaustive abstract protocol check',
 },
}

NOT_APPLICABLE = {}
