NOTES = ('Static analysis only. Every check re-parses /repo\'s current working tree (compile flags from `make -n -B`), '
         'decides a set of structural obligations that are necessary conditions of the property, and reports a concrete '
         'construct (file:line, function, path) on refutation. Exit 2 = analysis broken (never a pass). '
         'See DESIGN.md for the decided / not-decided split per property.')

ASSUME = ('clang 14 front end; the Linux branches of the preprocessor conditionals (what the build compiles); '
          'the C library primitives behave as documented; the analysis engine in /verif/cv')

CHECKS = {
 'C07': {
  'text': 'Typestate analysis over code-derived summaries: macro skeleton of try/catch/throw (witness unit), per-path '
          'summaries of the five exception_* operations over the abstract record, and exhaustive comparison of the '
          'summary-driven abstract machine with block-structured semantics on all program trees up to the bound. '
          'Decides the protocol itself, not the C library\'s setjmp/longjmp.',
  'note': ASSUME + '; programs do not leave a try body by return/break (documented contract)',
  'technique': 'typestate / effect summaries per CFG path + bounded exhaustive abstract protocol check',
 },
}

CHECKS['C12'] = {
  'text': 'Decides three structural necessary conditions on every path of the checked build: no mutation of self-reachable '
          'state before any contract-error raise point in the container/String operations and their helpers (NOPRE over the CFG '
          'with a pointer-origin analysis), the documented exception kind per operation (sibling table, no-hit exit of rem), and '
          'dominance of the NULL/magic/class/member/allocation-class tests in the dispatcher and dealloc. Does not decide absence '
          'of memory errors in general.',
  'note': ASSUME + '; default configuration only (CELLO_NDEBUG removes the checks by design)',
  'technique': 'CFG reachability (mutation-before-raise), pointer-origin/effect summaries, guard dominance cuts, sibling tables',
}

CHECKS['C20'] = {
  'text': 'Decides the closed-handle typestate structurally: every stdio call on the handle field in the File/Process slot '
          'functions is dominated by the closed test that raises IOError; close clears the handle on every normal exit; '
          'destructor/open/with pair with close; each stream operation delegates to the matching stdio call on the object\'s '
          'own handle with error translation. Does not decide data round-trip (stdio behaviour).',
  'note': ASSUME,
  'technique': 'guard-dominance cuts on the CFG, must-pass-through, sibling/delegation tables over type-class slots, macro witness',
}

CHECKS['C16'] = {
  'text': 'Decides structural necessary conditions of the String value semantics: allocation-class refusal dominates every '
          'realloc/free of the buffer; requested sizes cover the bytes then written (polynomial identity over strlen terms); '
          'search results are NULL-tested before use; rem moves exactly the tail; len/cmp/hash/c_str/mem delegate to the C '
          'library on the object\'s own buffer. Does not decide contents after arbitrary histories.',
  'note': ASSUME,
  'technique': 'guard dominance, symbolic extent comparison (polynomial normal form), accessor inlining, delegation table',
}

CHECKS['C19'] = {
  'text': 'Decides where objects come into being and where memory is released: every header_init call and macro expansion '
          'stamps the true (type, allocation class); header/object pointer arithmetic agrees across header, header_init, '
          'alloc_by, dealloc and type_of; iter_type/key_type/val_type report the stamped field; allocation-class refusals '
          'dominate every free/realloc of String and Tuple buffers and the free in dealloc. Thorough tier repeats the layout '
          'rules under the other header configurations.',
  'note': ASSUME + '; user code does not forge object headers',
  'technique': 'call-site table over resolved header_init calls, macro witnesses, symbolic layout comparison, guard dominance',
}

CHECKS['C06'] = {
  'text': 'Interprocedural must-pass analysis: from every deletion entry point, through the constant-specialised switch in '
          'del_by and the validated type-class dispatch into the collector, every normal exit must pass '
          'dealloc(destruct(p)) exactly once; plus ordering (destruct before dealloc at every release site), pairing in the '
          'sweep (append once / finalise every pending entry), and creation/teardown pairing in main, worker threads and '
          'the collector destructor. Four exit classes that skip finalisation are genuine defects recorded as known findings.',
  'note': ASSUME + '; does not account individual malloc/free blocks',
  'technique': 'interprocedural path enumeration with equality tracking and constant specialisation; must-pass cuts; dispatch validation',
}

CHECKS['C05'] = {
  'text': 'Decides ownership pairing on every CFG path of every removal/teardown routine of Array, List, Table and Tree: '
          'destruct exactly once per owned part before its storage is overwritten or freed, count adjusted once, teardown '
          'traversals cover the full element set, byte-wise relocation only where the source is released without destruct, '
          'assignment clears first and copies deeply. Does not decide the run-time ledger of live elements.',
  'note': ASSUME,
  'technique': 'per-path event counting/ordering (COUNT/ORDER), traversal coverage by loop-shape analysis, pointer-origin analysis',
}

CHECKS['C01'] = {
  'text': 'Decides the structural necessary conditions of safe collection: mark-phase order and coverage, inclusive stack scan '
          'in both directions (loop headers evaluated for symbolic bounds), trace-on-first-mark, Mark-instance-or-every-word '
          'tracing with a field-checked skip list, recursing marking callbacks, full-coverage container Mark instances, sweep '
          'guard / mark-before-sweep / marks cleared, root flags, candidate range, stack bottom. Native-stack recursion of the '
          'marker is a recorded known finding. Does not decide what the compiler keeps in scanned words.',
  'note': ASSUME + '; conservative scanning sees every live pointer the compiler keeps in registers/stack (not decidable here)',
  'technique': 'must-pass/dominance cuts, partial evaluation of loop headers, call-graph cycle detection, slot-addressed coverage rules',
}

CHECKS['C17'] = {
  'text': 'Decides agreement and pairing structure of the registry: role-normalised probe fragments (home slot, stop, advance, hit, '
          'displacement, stored hash, back-shift) agree across insert/lookup/remove/marker and with Table\'s probe-distance function; '
          'entries move as a whole on displacement, back-shift and rehash; counts paired with insert/remove; flags and bounds recorded; '
          'shrink and threshold update after removals; sweep compaction re-examines the slot. Does not decide the probe-distance '
          'invariant for all address patterns.',
  'note': ASSUME,
  'technique': 'sibling agreement over extracted canonical fragments, natural-loop analysis, header partial evaluation, must-pass cuts',
}

CHECKS['C02'] = {
  'text': 'Decides structural necessary conditions of the finite-map behaviour: sibling agreement of the probe fragments across '
          'get/mem/rem/insert, a replace-on-equal test that cannot miss an equal resident, KeyError/false on every miss exit, no '
          'modulo by a zero slot count, count/slot bookkeeping pairing, wrap-aware whole-record back-shift, symbolic agreement of '
          'every record-layout offset, scratch-record lifetime. Does not decide the robin-hood ordering invariant over all key sets.',
  'note': ASSUME,
  'technique': 'sibling agreement over extracted probe fragments, polynomial layout comparison, guard dominance, header partial evaluation',
}

CHECKS['C09'] = {
  'text': 'Decides the three-way discipline of every Cmp.cmp slot function (literals, C three-way comparisons of (self, obj) in '
          'order, or cast-free sign expressions over the two numeric values that evaluate to sign(a-b) on operands far apart), the '
          'truth sets of the six derived predicates over the sign of cmp, sibling agreement of the container comparison decision '
          'tables, and the guards of the byte-wise default. Does not decide value-level laws of strcmp/memcmp or NaN.',
  'note': ASSUME,
  'technique': 'sign-domain evaluation of extracted return expressions, narrowing-conversion detection, sibling decision-table agreement',
}

CHECKS['C08'] = {
  'text': 'Decides the wiring of dispatch: each cache entry tests, fills and returns one distinct slot with the scan for its own '
          'class; lookups keep no state besides idempotent memoisation in the queried record; the scan starts at the first declared '
          'instance, stops at the NULL triple and matches by pointer then exact name; static and run-time type records agree with '
          'the accessors on every index (per configuration in the thorough tier); ClassError/ValueError guards dominate; no member '
          'of an unchecked instance table is called. Does not decide memory-model behaviour of the benign races.',
  'note': ASSUME,
  'technique': 'table agreement over expanded macro entries, who-may-write effect analysis, layout comparison, guard dominance',
}

CHECKS['C14'] = {
  'text': 'Decides the table structure of the format scanner: terminator letters = disjoint union of the letters the branches format; '
          'each branch fetches with the accessor of its kind and passes the value unchanged with the copied specification; position '
          'accounting and FormatError on negative counts; argument-count test dominates the fetch; scratch and String-sink bounds; File '
          'sink = vfprintf; show functions use constant formats. Does not decide character-for-character equality with printf.',
  'note': ASSUME,
  'technique': 'table agreement (writer letters vs handled letters), guard dominance, symbolic bound comparison, call-site argument rules',
}
CHECKS['C15'] = {
  'text': 'Decides writer/reader agreement structurally: the String escape tables of show and look are inverse maps; every iteration '
          'path of the reader appends exactly one character; Int/Float use the same specification both ways; scan appends %n, passes its '
          'counter and advances the position once per conversion; per-specification decisions read only the copied specification. '
          'Does not decide numeric round-trip within precision.',
  'note': ASSUME,
  'technique': 'table inversion check between two switch statements, per-iteration path counting, call-site agreement',
}

CHECKS['C04'] = {
  'text': 'Decides the sequence contract structurally: the index arithmetic of get/set/pop_at/push_at is evaluated by the analyser over '
          'small lengths and a wide key range (negative-from-end once, everything else refused before access); memmove extents equal the '
          'tail (polynomial identity) and are ordered correctly around the count update; growth precedes slot writes and realloc sizes '
          'cover items plus sentinel; List link/unlink cases are mirror images and the element count changes by exactly the nodes linked minus unlinked on every path (interprocedural); sort only exchanges; rem stops at the first hit.',
  'note': ASSUME + '; push_at insertion positions are taken per container as implemented today (they differ between Array and List/Tuple)',
  'technique': 'partial evaluation of index arithmetic over the CFG, polynomial extent comparison, mirror-closure of per-path store sets',
}
CHECKS['C11'] = {
  'text': 'Decides structural necessary conditions of iteration: empty-container guards before every count-1 access, Array cursor '
          'stepping evaluated over concrete geometries, mirror-image backward cursors (List, Tree), views driving the underlying iterable '
          'only through direction-matching cursor functions, zip-shortest, foreach expansion, len vs emptiness tests, List link pairing. '
          'The Slice stop bound is a recorded known finding. Range/Slice arithmetic is value-level and not decided.',
  'note': ASSUME,
  'technique': 'guard evaluation under dominance, partial evaluation of cursor and range arithmetic with exact C integer conversions, position abstraction of iterables, mirror-image sibling comparison, who-may-call rules, interprocedural effect pairing',
}

CHECKS['C03'] = {
  'text': 'Decides the ordered-map structure of Tree without the balancing proof: descent operand order and direction convention '
          'agree across get/mem/set/rem (branch conditions evaluated for c in {-1,0,1}); rotations and cursors are mirror images; every '
          'child-link store is paired with the parent-link update; tag-bit accessors preserve the other half of the word; absent keys '
          'raise; count/alloc/free pairing; node layout and predecessor copy extents; colour transfers read before recolouring. The '
          'red-black colour/black-height invariants (height bound) are NOT decided.',
  'note': ASSUME,
  'technique': 'shape analysis (abstract interpretation with summary nodes and focus; inductive loop-invariant check), sign-guided CFG walk, mirror-image comparison, must-pass pairing, polynomial layout comparison',
}

CHECKS['C10'] = {
  'text': 'Decides structural necessary conditions of value-hashing and copying: no hash function derives anything from an address; '
          'hash_data reads unsigned bytes with full coverage; container hashes XOR every element (key and value) once over a full '
          'traversal from seed 0; default copy/assign/swap are guarded and cover all size bytes; memswap touches every byte exactly '
          'once in each operand (loop headers evaluated for sizes 0..40) and exchanges; the List count (read by hash, copy, assign) tracks the links (followed by eq). Does not decide per-value agreement of hash with eq.',
  'note': ASSUME,
  'technique': 'effect rule on pointer-to-integer conversions with positive example, sibling form extraction, loop-header partial evaluation',
}

CHECKS['C13'] = {
  'text': 'Decides the structural side of thread isolation: the only run-time-written shared storage is a frozen reasoned list (none '
          'in collector/exception/allocator code); a thread binds its key before creating its own collector and exception record, which '
          'are found through current(Thread); join reaches pthread_join on every path with a handle; lock/unlock/trylock/with map onto the '
          'pthread calls on the object\'s own mutex. Does not decide schedules or memory visibility.',
  'note': ASSUME + '; pthread primitives behave as specified',
  'technique': 'who-may-write rule over file-scope/static storage, dominance ordering, must-pass cuts, slot tables',
}
CHECKS['C18'] = {
  'text': 'Decides configuration independence structurally: every CELLO_*_CHECK-only region (from the preprocessor directives) is a '
          'pure test; cache-conditional code lives only in the dispatcher and agrees with the scan; collector-only regions only '
          'register/create/tear down; every layout-agreement rule and the compile-time witnesses hold under each configuration\'s '
          'header (quick: 2 parsed configurations + 8 compile witnesses; thorough: all 8 parsed). Does not decide optimisation levels.',
  'note': ASSUME + '; only the Linux preprocessor branches are parsed',
  'technique': 'preprocessor-region classification over the parsed program, multi-configuration re-evaluation of layout rules, compile-fail witnesses',
}

NOT_APPLICABLE = {}


# ---- texts revised at the end of the fifth build phase (DESIGN.md §10.8 / §10.9): what is decided now and by which method -------------
EVAL = ('bounded evaluation: the functions\' IR is interpreted (cv/cint.py, exact C integer semantics; nothing is compiled or run) on small '
        'instances laid out by the type\'s own accessors and compared with the stated meaning; verdicts hold for the evaluated family only')


def _set(pid, text, technique, note=None):
    CHECKS[pid]['text'] = text
    CHECKS[pid]['technique'] = technique
    if note:
        CHECKS[pid]['note'] = note


_set('C01',
     'Necessary conditions of safe collection. Must-pass / dominance: mark phase order (roots, spilled registers, stack scan in both directions, '
     'then sweep), stack bottom, marks cleared. Evaluated: marking callbacks classified (tracing / lookup-only / unguarded) for registered and '
     'unregistered pointers, every container Mark instance hands every element (key and value) to the callback once — also in the middle of '
     'List operations wherever outside code can run —, the registry lookup the marker uses (gcmodel), probe distance, root flag travelling '
     'with its entry. Who-may rule: a raw (unregistered) part that can hold references needs a Mark instance on its owner. Native-stack '
     'recursion of the marker is a recorded known finding. Not decided: what the compiler keeps in scanned words; object graphs beyond the '
     'evaluated instances.',
     'must-pass / dominance cuts over the CFG; ' + EVAL + '; call-graph cycle detection; who-may-allocate-raw rule')
_set('C02',
     'Table evaluated as a finite map (cv/tablemodel.py): on a 5-slot table, 30 patterns of colliding and wrapping home slots plus the empty and '
     'the slot-less table, the library\'s own set / get / mem / rem / rehash are interpreted against a dict — bindings read back through the '
     'accessors, count, destruct events, every bound key found and unbound refused after every step; record layout (hash word, key, value, '
     'scratch records) located by the accessors; grow-before-full and resize evaluated; assign clears, retypes and re-inserts. Remaining '
     'fragment rules: probe agreement of the sibling lookups, modulo guard. Not decided: tables larger than the evaluated ones.',
     EVAL + '; sibling agreement over probe fragments; guard dominance')
_set('C03',
     'Tree as an ordered map that stays balanced. Shape analysis (cv/rbshape.py): the loop invariants of Tree_Set_Fix and Tree_Rem_Fix are '
     'inductive and every return leaves a valid red-black tree (links paired, no red-red, equal black heights) for materialised nodes plus '
     'summary subtrees of symbolic black height; Tree_Set / Tree_Rem establish and use those contracts. Evaluated on every tree shape of up to 4 '
     'nodes: cursor order (in-order and reverse), get / mem hits and misses, node layout and node recovery from a key cursor, tag-bit accessors, '
     'assign rebuilds, count raised only after the refusable calls. The key order itself is the key type\'s cmp: the scalar cmp discipline is '
     'checked here too. Not decided: trees beyond the abstraction\'s bound for the concrete evaluations; user-defined cmp.',
     'shape analysis (abstract interpretation with summary nodes, focus, inductive loop-invariant check); ' + EVAL + '; must-pass pairing')
_set('C04',
     'Array and List operations evaluated (cv/seqmodel.py): push, pop, push_at, pop_at, rem, mem, get, set, resize, concat (and Array assign) on '
     'sizes 0..3, with and without spare capacity, every index from before the start to past the end, present / absent / duplicated arguments; the '
     'container read back through its own accessors equals the abstract sequence, elements that leave are destructed once and their storage '
     'released once, every address touched lies inside the reservation, a new slot is cleared and stamped before it is assigned. Tuple: '
     'terminator kept, realloc sizes cover items plus sentinel. Index arithmetic evaluated over a wide key range; sort only exchanges. Not '
     'decided: sizes beyond the evaluated ones.',
     EVAL + '; partial evaluation of index arithmetic; polynomial extent comparison')
_set('C05',
     'Ownership pairing. Evaluated: teardown (Clear / Del) of Array, List, Table, Tree destructs every element once before its storage is freed '
     'and frees the storage once; every Array / List operation keeps exactly the elements of the abstract sequence (none dropped, duplicated or '
     'byte-copied from another container); Tree rotations and fix-ups keep every node (shape analysis shared with C03); the predecessor copy in '
     'Tree_Rem moves whole payloads. Per-path counting: removal routines destruct each owned part once before overwrite / free and adjust the '
     'count once; assignment clears first; Box replaces its pointee through del. Not decided: the live-element ledger over arbitrary histories.',
     EVAL + '; per-path event counting and ordering; shape analysis')
_set('C06',
     'Every deletion entry point (del, del_root, del_raw) reaches dealloc(destruct(p)) exactly once: interprocedural must-pass analysis through '
     'the constant-specialised switch of del_by and the validated dispatch into the collector; the registry removal itself is evaluated on small '
     'registries (cv/gcmodel.py) for a registered pointer, an unregistered one, a registry without slots, an unregistered pointer on the sweep\'s '
     'pending list; del routes evaluated for a running and a stopped collector; sweep appends each reclaimed entry once and finalises every '
     'pending entry; creation / teardown pairing in main, worker threads and the collector destructor. Four ways a deletion returns without '
     'finalising are genuine defects recorded as known findings (keyed by scenario).',
     'interprocedural path enumeration with equality tracking and constant specialisation; ' + EVAL + '; must-pass cuts')
_set('C07',
     'Typestate analysis over code-derived summaries: macro skeleton of try / catch / throw (witness unit compiled against the current header), '
     'per-path summaries of the five exception_* operations over the abstract record (depth, active, object, buffers, further fields as carried '
     'state, locals loaded from the depth followed), and exhaustive comparison of the summary-driven machine with block-structured semantics on '
     'all program trees up to the bound — including throws whose message formatting itself raises FormatError. A catch filter matches by eq: eq = '
     '(cmp == 0) and Type_Cmp evaluated on pairs of type names. Decides the protocol, not the C library\'s setjmp / longjmp.',
     'typestate / effect summaries per CFG path + bounded exhaustive abstract protocol check; ' + EVAL)
_set('C08',
     'Dispatch returns what the type declares. Evaluated: Type_Instance with an empty, a full and a partly filled method cache gives the scan\'s '
     'answer for every class (static locals read as any value, so a remember-the-last-lookup shortcut is refuted); Type_Method_At_Offset, Type_Of, '
     'Type_New lay records out as the accessors read them (per configuration in the thorough tier). Rules: the cache is read by the dispatcher '
     'alone; lookups write nothing but idempotent memoisation; ClassError / ValueError guards dominate; no member of an unchecked instance table is '
     'called. Not decided: memory-model behaviour of the benign races.',
     EVAL + '; who-may-write / who-may-read effect rules; guard dominance')
_set('C09',
     'Every Cmp.cmp slot function follows the three-way discipline (literals, C comparisons of (self, obj) in order, or sign expressions that '
     'evaluate to sign(a-b) on operands far apart, no narrowing); the six predicates have the right truth sets over the sign of cmp; the five '
     'container comparisons evaluated on small instances against the lexicographic order; the byte-wise default evaluated on real bytes (memcmp '
     'order, any magnitude); Type_Cmp evaluated on pairs of names. Not decided: value-level laws of strcmp / memcmp, NaN.',
     'sign-domain evaluation of return expressions, narrowing detection; ' + EVAL)
_set('C10',
     'No hash derives anything from an address; hash_data reads only inside the value and hashes equal bytes equally at aligned and odd addresses '
     '(evaluated); container hashes combine every element (key and value) once (evaluated); default copy / assign / swap are guarded and cover all '
     'size bytes; memswap exchanges every byte once; assign onto a non-empty Array / Table / Tree yields the source (evaluated, element sizes that '
     'change included); a Tree removal moves whole payloads; eq is value equality (scalar cmp discipline, container cmp). Not decided: per-value '
     'agreement of hash with eq beyond these conditions.',
     'effect rule on pointer-to-integer conversions with positive example; ' + EVAL)
_set('C11',
     'The four cursor functions of Array, List, Tuple, Table, Tree evaluated on every small instance: forward walk = the elements in order then '
     'Terminal, backward = the reverse; Range arithmetic and Slice clamping / ends evaluated on parameter grids with exact C conversions; Zip '
     'evaluated over 0..3 inputs of lengths 0..3; get on a Slice keeps the position of a walk in progress; views drive the underlying iterable only '
     'through direction-matching cursor functions; foreach expansion; cursor loops end at Terminal. Two known findings: Tuple cursors are found by '
     'identity. Not decided: lengths and parameters beyond the grids; Filter / Map with arbitrary callables beyond the structural rules.',
     EVAL + '; partial evaluation with exact C integer conversions; who-may-call rules')
_set('C12',
     'Checked build: no mutation of self-reachable state before any contract-error raise point in the container / String operations and their '
     'helpers (CFG reachability with pointer-origin analysis); the documented exception kind per operation; refused List / Array operations '
     'evaluated (documented exception, container unchanged, nothing built); missing keys refused at every size including a slot-less Table; the '
     'dispatcher\'s NULL / magic / class / member tests evaluated; allocation-class refusals precede any change. Not decided: absence of memory '
     'errors in general; user-defined types.',
     'CFG reachability (mutation-before-raise), pointer-origin / effect summaries; ' + EVAL + '; guard dominance')
_set('C13',
     'Structural side of thread isolation: the only run-time-written shared storage is a frozen reasoned list; a thread binds its key before '
     'creating its own collector and exception record, whose constructors store themselves in the calling thread\'s table on every path; '
     'Thread_Current evaluated (key created or not × wrapper bound or not × main wrapper existing or not); join reaches pthread_join on every path '
     'with a handle; lock / unlock / trylock / with map onto the pthread calls on the object\'s own mutex, which the constructor alone initialises; '
     'trylock result evaluated. Does not decide schedules or memory visibility.',
     'who-may-write / who-may-call rules over shared storage and primitives; must-pass cuts; ' + EVAL)
_set('C14',
     'print_to_with evaluated on a list of formats (every conversion letter, flags, widths, %%, too few arguments) with a sink that records '
     'position, specification and argument; show_to evaluated; every Show.show threads the position and returns the position after its last write '
     '(containers on small instances: each element shown once, in order); formats are literals, never data; String sink bounds; File sink = '
     'vfprintf; a FormatError raised while formatting the message of a throw is what the handlers see. Not decided: character-for-character '
     'equality with printf (the C library\'s own behaviour).',
     EVAL + '; data-flow rule on format arguments; symbolic bound comparison')
_set('C15',
     'String show / look round trip evaluated at character level on 180 strings (every character below 128 in several neighbourhoods): look reads '
     'back what show wrote and consumes exactly those characters; scan_from_with evaluated (position accounting, %% consumes one character, the '
     'temporary has the width the specification stores, floating reads use double exactly with l); Int / Float written and read with the same '
     'specification; text from an object never reaches a formatting routine as the format. Not decided: numeric round trip within the printed '
     'precision.',
     EVAL + '; data-flow rule on format arguments; call-site agreement')
_set('C17',
     'The registry evaluated as a finite set (cv/gcmodel.py): on 5-slot registries with colliding and wrapping home slots the library\'s own '
     'insertion, lookup, removal and marking keep exactly the registered pointers, each once with its root flag and mark and home+1 as stored '
     'hash, every one findable from its home slot; removal decrements and finalises once; GC_Set / resize helpers / rehash evaluated (counts, '
     'growth before insertion, every occupied slot re-inserted with its own flag); no 64-bit slot number is narrowed; sweep compaction re-examines '
     'the slot. Not decided: registries larger than the evaluated ones; removals interleaved with a sweep beyond the pending-list protocol.',
     EVAL + '; narrowing-conversion rule with positive witness; must-pass cuts')
_set('C18',
     'Configuration independence, structurally: every CELLO_*_CHECK-only region is a pure test; allocation-class tests refuse only stack / static '
     'objects (dealloc also container elements), evaluated per class; cache-conditional code lives only in the dispatcher and agrees with the scan; '
     'collector-only regions only register / create / tear down; with the collector nothing reachable through containers or raw parts is reclaimed '
     'and nothing is finalised twice; layout rules and compile-time witnesses hold under each configuration\'s header (quick: 2 parsed '
     'configurations + 8 compile witnesses; thorough: all 8 parsed). Not decided: optimisation levels beyond the register spill.',
     'preprocessor-region classification over the parsed program; multi-configuration re-evaluation; compile-fail witnesses; ' + EVAL)
_set('C19',
     'Where objects come into being and where memory is released: every header_init site stamps the true (type, allocation class) and nothing else '
     'writes a header (positive witness); header / object pointer arithmetic evaluated on integer memory under the configuration\'s header; '
     'embedded-object layouts of Table and Tree; allocation-class refusals dominate every free / realloc of String and Tuple buffers and the free '
     'in dealloc; a registered object leaves through the registry on every path, collector running or stopped; Box releases through del. Thorough '
     'tier repeats the layout rules under the other header configurations.',
     'call-site table over resolved header_init calls; who-may-write rule with positive witness; ' + EVAL + '; guard dominance')
_set('C20',
     'Closed-handle typestate: every stdio call on the handle in the File / Process slot functions is dominated by the closed test that raises '
     'IOError; close-once evaluated for an open / closed object, a close that succeeds / reports an error, an open that fails, a library call on the '
     'way that fails, freopen: the stream is closed exactly once and the handle is NULL on every exit; destructor and with pair with close; each '
     'stream operation delegates to the matching stdio call on the object\'s own handle with error translation. Does not decide data round trip '
     '(stdio behaviour).',
     'guard-dominance cuts on the CFG; ' + EVAL + '; delegation tables over type-class slots; macro witness')
_set('C16', CHECKS['C16']['text'].replace('Does not decide contents after arbitrary histories.',
     'String_Format_To evaluated at content level (measure with vsnprintf(NULL,0) on a copy of the list, request pos+len+1, write at pos). Does not decide contents after arbitrary histories.'),
     CHECKS['C16']['technique'] + '; ' + EVAL)
NOTES = ('Static analysis only. Every check re-parses /repo\'s current working tree (compile flags from `make -n -B`), decides a set of obligations '
         'that are necessary conditions of the property — by CFG queries (must-pass, dominance, reachability), by who-may rules over the resolved '
         'program, and by bounded evaluation of the functions\' IR on small instances (no code of the library is compiled or run) — and reports a '
         'concrete construct (file:line, function, evaluated case) on refutation. Exit 2 = analysis broken or undecided (never a pass). See DESIGN.md '
         '§5 and §10 for the decided / not-decided split per property.')
