#!/usr/bin/env python3
"""tools/addfix.py PROP RULE 'key1,key2' 'commit subject substring' 'what failed' — record a repaired defect"""
import json,subprocess,sys
prop,rule,keys,sub,what=sys.argv[1:6]
log=subprocess.run(['git','-C','/repo','log','--format=%h %s'],capture_output=True,text=True).stdout.splitlines()
h=[l.split()[0] for l in log if sub in l][0]
k=json.load(open('/verif/known_findings.json'))
k['fixed'].append({"property":prop,"commit":h,"rule":rule,"keys":keys.split(','),"line":"fixed: property=%s %s %s"%(prop,h,what)})
json.dump(k,open('/verif/known_findings.json','w'),indent=1)
print('recorded',h)
