#!/usr/bin/env python3
"""print a Cello source file with doc-string functions elided (reading aid only)"""
import sys,re
src=open(sys.argv[1]).read().split('\n')
out=[];i=0
pat=re.compile(r'^static (const char\*|struct Example\*|struct Method\*) \w+_(Name|Brief|Description|Definition|Examples|Methods)\(void\)')
while i<len(src):
    if pat.match(src[i]):
        j=i
        while not src[j].startswith('}'): j+=1
        i=j+1; continue
    out.append('%4d %s'%(i+1,src[i])); i+=1
# squeeze blank runs
prev=False
for l in out:
    blank = l[5:].strip()==''
    if blank and prev: continue
    print(l); prev=blank
