#!/usr/bin/env python3
"""Systematic both-ways test of C03.rb-invariant (cv/rbshape.py).

Every single-token / single-statement mutant of the red-black machinery of src/Tree.c (accessors, sibling/uncle,
replace, rotations, Tree_Set_Fix, Tree_Rem_Fix) is
  (1) compiled into a scratch copy of the library and driven by an *oracle* program (random and patterned set/rem
      workloads with a red-black shape check after every operation: selftest/rb_oracle.c) — this is ground truth for
      the self-test only and is never part of a registered check;
  (2) analysed by the shape analysis.
Agreement wanted: oracle fails  => the analysis refutes;  analysis refutes => oracle fails or the mutant is shown
to break the invariant on a shape the oracle did not reach (listed for reading).

  selftest/rb_sweep.py [--limit N] [--jobs J]
"""
import os, sys, re, shutil, subprocess, tempfile, json
from concurrent.futures import ThreadPoolExecutor
HERE = os.path.dirname(os.path.abspath(__file__))
VERIF = os.path.dirname(HERE)
REPO = '/repo'
sys.path.insert(0, VERIF)

SWAPS = [
    ('Tree_Left', 'Tree_Right'), ('Tree_Right', 'Tree_Left'),
    ('Tree_Set_Red', 'Tree_Set_Black'), ('Tree_Set_Black', 'Tree_Set_Red'),
    ('Tree_Is_Red', 'Tree_Is_Black'), ('Tree_Is_Black', 'Tree_Is_Red'),
    ('Tree_Rotate_Left', 'Tree_Rotate_Right'), ('Tree_Rotate_Right', 'Tree_Rotate_Left'),
    ('Tree_Sibling', 'Tree_Uncle'), ('Tree_Uncle', 'Tree_Sibling'),
    ('Tree_Grandparent', 'Tree_Get_Parent'),
    (' isnt ', ' is '), (' is ', ' isnt '), ('and ', 'or '), (' or ', ' and '),
    ('continue;', 'return;'), ('return;', 'continue;'),
    ('0 * sizeof', '1 * sizeof'), ('1 * sizeof', '0 * sizeof'), ('2 * sizeof', '1 * sizeof'),
    ('| 1', '| 0'), ('& 1', '& 0'), ('(~1)', '(~0)'), ('false', 'true'), ('true)', 'false)'),
    ('return 0;', 'return 1;'), ('not Tree_Get_Color', 'Tree_Get_Color'),
]


def regions(lines):
    """(start, end) line index ranges of the functions under mutation"""
    names = ['Tree_Left', 'Tree_Right', 'Tree_Get_Parent', 'Tree_Set_Parent', 'Tree_Set_Color', 'Tree_Get_Color',
             'Tree_Set_Black', 'Tree_Set_Red', 'Tree_Is_Red', 'Tree_Is_Black', 'Tree_Sibling', 'Tree_Grandparent',
             'Tree_Uncle', 'Tree_Replace', 'Tree_Rotate_Left', 'Tree_Rotate_Right', 'Tree_Set_Fix', 'Tree_Rem_Fix',
             'Tree_Alloc', 'Tree_Maximum', 'Tree_Set', 'Tree_Rem']
    if '--only' in sys.argv:
        names = sys.argv[sys.argv.index('--only') + 1].split(',')
    out = []
    for nm in names:
        for i, l in enumerate(lines):
            if re.match(r'^(static )?[\w\* ]+\b%s\((struct Tree\* m|var self).*\) \{\s*$' % nm, l):
                j = i + 1
                while not lines[j].startswith('}'):
                    j += 1
                out.append((nm, i + 1, j))
                break
        else:
            raise SystemExit('function %s not found' % nm)
    return out


def mutants():
    src = open(os.path.join(REPO, 'src/Tree.c')).read().split('\n')
    out = []
    for nm, a, b in regions(src):
        for i in range(a, b):
            l = src[i]
            for old, new in SWAPS:
                for m in re.finditer(re.escape(old), l):
                    # do not rename a token that is part of a longer identifier
                    if old[0].isalpha() and (l[m.end():m.end() + 1].isalnum() or l[m.end():m.end() + 1] == '_'):
                        continue
                    nl = l[:m.start()] + new + l[m.end():]
                    out.append(dict(fn=nm, line=i + 1, desc='%s -> %s' % (old.strip(), new.strip()), col=m.start(), text=nl))
            s = l.strip()
            if s.endswith(';') and not s.startswith(('return', 'var ', 'continue', 'if', '}')) and '(' in s and l.startswith('  '):
                # delete a whole call statement (only single-line ones)
                if s.count('(') == s.count(')'):
                    out.append(dict(fn=nm, line=i + 1, desc='delete `%s`' % s[:50], col=0, text=''))
    return out


def make_copy():
    d = tempfile.mkdtemp(prefix='cvrb_')
    for item in ('src', 'include', 'Makefile'):
        s = os.path.join(REPO, item)
        if os.path.isdir(s):
            shutil.copytree(s, os.path.join(d, item))
        else:
            shutil.copy(s, os.path.join(d, item))
    os.makedirs(os.path.join(d, 'obj'), exist_ok=True)
    return d


def prepare_pool(n):
    """n scratch copies with the library objects prebuilt (only Tree.c is recompiled per mutant)"""
    dirs = [make_copy() for _ in range(n)]
    with ThreadPoolExecutor(max_workers=n) as ex:
        list(ex.map(lambda d: subprocess.run(['make', '-C', d, 'libCello.a'], capture_output=True), dirs))
    return dirs


def run_mutant(d, m, orig):
    p = os.path.join(d, 'src/Tree.c')
    lines = orig.split('\n')
    lines[m['line'] - 1] = m['text']
    open(p, 'w').write('\n'.join(lines))
    res = {}
    r = subprocess.run(['make', '-C', d, 'libCello.a'], capture_output=True, text=True)
    if r.returncode != 0:
        res['oracle'] = 'nocompile'
    else:
        exe = os.path.join(d, 'oracle')
        r = subprocess.run(['gcc', '-std=gnu99', '-O1', '-I', os.path.join(d, 'include'), os.path.join(HERE, 'rb_oracle.c'),
                            os.path.join(d, 'libCello.a'), '-lpthread', '-lm', '-o', exe], capture_output=True, text=True)
        if r.returncode != 0:
            res['oracle'] = 'nocompile'
        else:
            try:
                r = subprocess.run([exe], capture_output=True, text=True, timeout=60)
                res['oracle'] = 'pass' if r.returncode == 0 else 'fail'
                res['oracle_out'] = (r.stdout + r.stderr)[-200:]
            except subprocess.TimeoutExpired:
                res['oracle'] = 'fail'
                res['oracle_out'] = 'timeout'
    env = dict(os.environ, CV_REPO=d, CV_SELFTEST='1', CV_EVIDENCE_DIR=os.path.join(d, '_evidence'))
    try:
        r = subprocess.run([os.path.join(VERIF, 'check'), 'C03', '--tier', 'quick'], capture_output=True, text=True, env=env, cwd=VERIF, timeout=300)
    except subprocess.TimeoutExpired:
        res.update(rc=2, rb=False, other=[], broken=['CHECK TIMED OUT'])
        return res
    ref = [l for l in r.stdout.splitlines() if l.startswith('REFUTED')]
    res['rc'] = r.returncode
    res['rb'] = any('C03.rb-' in l for l in ref)
    res['other'] = sorted({l.split()[1] for l in ref if 'C03.rb-' not in l})
    res['broken'] = [l for l in r.stdout.splitlines() if l.startswith('ANALYSIS-BROKEN')][:2]
    return res


def main():
    limit = None
    jobs = 14
    a = sys.argv[1:]
    if '--limit' in a:
        limit = int(a[a.index('--limit') + 1])
    if '--jobs' in a:
        jobs = int(a[a.index('--jobs') + 1])
    ms = mutants()
    if limit:
        ms = ms[::max(1, len(ms) // limit)]
    orig = open(os.path.join(REPO, 'src/Tree.c')).read()
    pool = prepare_pool(jobs)
    import queue
    q = queue.Queue()
    for d in pool:
        q.put(d)

    def work(m):
        d = q.get()
        try:
            return run_mutant(d, m, orig)
        finally:
            q.put(d)
    rows = []
    try:
        with ThreadPoolExecutor(max_workers=jobs) as ex:
            for m, r in zip(ms, ex.map(work, ms)):
                rows.append((m, r))
    finally:
        for d in pool:
            shutil.rmtree(d, ignore_errors=True)
    cats = {}
    for m, r in rows:
        if r['oracle'] == 'nocompile':
            c = 'nocompile'
        elif r['rc'] == 2:
            c = 'analysis-broken'
        elif r['oracle'] == 'fail' and (r['rb'] or r['other']):
            c = 'caught' if r['rb'] else 'caught-by-other-rule'
        elif r['oracle'] == 'fail':
            c = 'MISSED'
        elif r['rb'] or r['other']:
            c = 'refuted-oracle-passes'
        else:
            c = 'equivalent-silent'
        cats.setdefault(c, []).append((m, r))
    for c in sorted(cats):
        print('== %s: %d' % (c, len(cats[c])))
        if c in ('MISSED', 'refuted-oracle-passes', 'analysis-broken'):
            for m, r in cats[c]:
                print('   %s:%d  %s   [rb=%s other=%s] %s %s' % (m['fn'], m['line'], m['desc'], r['rb'], r['other'], r.get('oracle_out', '')[-80:].replace('\n', ' '), r['broken']))
    json.dump([{'fn': m['fn'], 'line': m['line'], 'desc': m['desc'], **{k: v for k, v in r.items()}} for m, r in rows],
              open(os.path.join(HERE, 'rb_sweep_result.json'), 'w'), indent=1)
    print('%d mutants' % len(rows))
    return 0


if __name__ == '__main__':
    sys.exit(main())
