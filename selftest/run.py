#!/usr/bin/env python3
"""Both-ways self-test of the checkers on scratch copies of /repo (outside /repo and /verif).

  selftest/run.py [PROP ...] [--build]   run the mutants of the given properties (default all)

Each mutant is one small edit that still compiles (and, with --build, is
confirmed to compile and pass `make check`). The checker must exit 1 and name
the expected rule; neutral edits must keep it at exit 0. Scratch copies are
removed afterwards."""
import os, sys, shutil, subprocess, tempfile, json, importlib.util, re
ANSI = re.compile(r'\x1b\[[0-9;]*m')
HERE = os.path.dirname(os.path.abspath(__file__))
VERIF = os.path.dirname(HERE)
REPO = '/repo'


def load_mutants():
    spec = importlib.util.spec_from_file_location('mutants', os.path.join(HERE, 'mutants.py'))
    m = importlib.util.module_from_spec(spec)
    spec.loader.exec_module(m)
    return m.MUTANTS


def make_copy():
    d = tempfile.mkdtemp(prefix='cvmut_')
    for item in ('src', 'include', 'tests', 'Makefile'):
        s = os.path.join(REPO, item)
        if os.path.isdir(s):
            shutil.copytree(s, os.path.join(d, item))
        else:
            shutil.copy(s, os.path.join(d, item))
    return d


def run_one(m, build):
    d = make_copy()
    try:
        for (path, old, new) in m['edits']:
            p = os.path.join(d, path)
            s = open(p).read()
            if s.count(old) != 1:
                return 'SKIP', 'anchor text occurs %d times in %s' % (s.count(old), path)
            open(p, 'w').write(s.replace(old, new))
        if build:
            r = subprocess.run(['make', '-C', d, 'check'], capture_output=True, text=True, timeout=600)
            out = ANSI.sub('', r.stdout + r.stderr)
            if r.returncode != 0 or 'Failed    0 |' not in out:
                return 'NOBUILD', 'mutant does not build or fails the suite'
        env = dict(os.environ, CV_REPO=d, CV_SELFTEST='1', CV_EVIDENCE_DIR=os.path.join(d, '_evidence'))
        r = subprocess.run([os.path.join(VERIF, 'check'), m['prop'], '--tier', 'quick'], capture_output=True, text=True, env=env, cwd=VERIF, timeout=600)
        out = r.stdout
        if m.get('neutral'):
            return ('OK', 'silent') if r.returncode == 0 else ('FALSE-ALARM', out[-1500:])
        if r.returncode == 1 and any(m['expect'] in l for l in out.splitlines() if l.startswith('REFUTED')):
            return 'OK', [l for l in out.splitlines() if l.startswith('REFUTED') and m['expect'] in l][0][:200]
        return 'MISSED', 'rc=%d\n%s' % (r.returncode, out[-1500:])
    finally:
        shutil.rmtree(d, ignore_errors=True)


def main():
    args = [a for a in sys.argv[1:] if not a.startswith('--')]
    build = '--build' in sys.argv
    muts = [m for m in load_mutants() if not args or m['prop'] in args or m['id'] in args]
    bad = 0
    results = []
    from concurrent.futures import ThreadPoolExecutor
    with ThreadPoolExecutor(max_workers=8) as ex:
        for m, (st, info) in zip(muts, ex.map(lambda mm: run_one(mm, build), muts)):
            print('%-11s %-4s %-34s %s' % (st, m['prop'], m['id'], info if st != 'OK' else str(info)[:110]))
            results.append((m['id'], st))
            if st not in ('OK',):
                bad += 1
    print('%d mutants, %d not OK' % (len(muts), bad))
    return 1 if bad else 0


if __name__ == '__main__':
    sys.exit(main())
