#!/usr/bin/env python3
"""Probe of the checkers with loop-header mutants: every counted `for (...; i < B; i++)` loop of the library sources is
given (a) an upper bound one too small (`i < B-1` / `i+1 < B`), (b) one too large (`i <= B`), (c) a start one too far
(`= 0` -> `= 1`).  Such edits are practically never behaviour-preserving.  All 20 quick checks are run on each mutant;
the list of mutants that no check reports is the output — each is a loop whose range no rule constrains (to be read:
which property depends on it?).  No ground truth is computed here.

  selftest/loop_sweep.py [file ...] [--jobs J]
"""
import os, sys, re, shutil, subprocess, tempfile, json
from concurrent.futures import ThreadPoolExecutor
HERE = os.path.dirname(os.path.abspath(__file__))
VERIF = os.path.dirname(HERE)
REPO = '/repo'
PROPS = [json.loads(l)['id'] for l in open(os.path.join(VERIF, 'properties.jsonl'))]
FOR = re.compile(r'for\s*\(([^;]*);([^;]*)<([^;=][^;]*);([^)]*)\)')


def mutants(files):
    out = []
    for f in files:
        lines = open(os.path.join(REPO, f)).read().split('\n')
        for i, l in enumerate(lines):
            m = FOR.search(l)
            if not m:
                continue
            init, lhs, bound, step = m.group(1), m.group(2), m.group(3), m.group(4)
            hdr = m.group(0)
            out.append((f, i, 'upper bound one short', l.replace(hdr, 'for (%s;%s+1 <%s;%s)' % (init, lhs, bound, step))))
            out.append((f, i, 'upper bound one over', l.replace(hdr, 'for (%s;%s<=%s;%s)' % (init, lhs, bound, step))))
            if re.search(r'=\s*0\s*$', init):
                out.append((f, i, 'starts at 1', l.replace(hdr, 'for (%s;%s<%s;%s)' % (re.sub(r'=\s*0\s*$', '= 1', init), lhs, bound, step))))
    return out


def make_copy():
    d = tempfile.mkdtemp(prefix='cvls_')
    for item in ('src', 'include', 'tests', 'Makefile'):
        s = os.path.join(REPO, item)
        (shutil.copytree if os.path.isdir(s) else shutil.copy)(s, os.path.join(d, item))
    return d


def run(m):
    f, i, kind, text = m
    d = make_copy()
    try:
        p = os.path.join(d, f)
        lines = open(p).read().split('\n')
        lines[i] = text
        open(p, 'w').write('\n'.join(lines))
        env = dict(os.environ, CV_REPO=d, CV_SELFTEST='1', CV_EVIDENCE_DIR=os.path.join(d, '_ev'))
        hits = []
        for pid in PROPS:
            r = subprocess.run([os.path.join(VERIF, 'check'), pid, '--tier', 'quick'], capture_output=True, text=True, env=env, cwd=VERIF, timeout=900)
            if r.returncode != 0:
                ls = [l for l in r.stdout.splitlines() if l.startswith('REFUTED') or l.startswith('ANALYSIS-BROKEN')]
                hits.append((pid, r.returncode, ls[0][:150] if ls else ''))
        return m, hits
    finally:
        shutil.rmtree(d, ignore_errors=True)


def main():
    a = [x for x in sys.argv[1:] if not x.startswith('--')]
    jobs = 14
    if '--jobs' in sys.argv:
        jobs = int(sys.argv[sys.argv.index('--jobs') + 1])
        a = [x for x in a if x != str(jobs)]
    files = a or sorted('src/' + f for f in os.listdir(os.path.join(REPO, 'src')) if f.endswith('.c'))
    ms = mutants(files)
    print('%d loop-header mutants in %d files' % (len(ms), len(files)))
    undetected, broken = [], []
    with ThreadPoolExecutor(max_workers=jobs) as ex:
        for m, hits in ex.map(run, ms):
            f, i, kind, text = m
            if not hits:
                undetected.append(m)
                print('UNDETECTED %s:%d  %s   %s' % (f, i + 1, kind, text.strip()[:90]))
            elif all(rc == 2 for (_, rc, _) in hits):
                broken.append((m, hits))
                print('BROKEN-ONLY %s:%d  %s   %s' % (f, i + 1, kind, hits[0][2]))
    print('%d mutants, %d undetected, %d analysis-broken only' % (len(ms), len(undetected), len(broken)))
    json.dump([{'file': f, 'line': i + 1, 'kind': k, 'text': t} for (f, i, k, t) in undetected], open(os.path.join(HERE, 'loop_sweep_undetected.json'), 'w'), indent=1)


if __name__ == '__main__':
    main()
