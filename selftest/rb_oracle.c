/* Oracle for selftest/rb_sweep.py (ground truth for testing the shape analysis; never part of a registered check):
 * drives Tree(Int,Int) against a reference map and checks the red-black shape after every operation.
 * Derived from the demo a sub-agent wrote for the seeded change C03-r2-1. */
#include "Cello.h"
#include <math.h>

struct TreeHead { var root; var ktype; var vtype; size_t ksize, vsize, nitems; };

static var  N_left (var n) { return *(var*)((char*)n + 0 * sizeof(var)); }
static var  N_right(var n) { return *(var*)((char*)n + 1 * sizeof(var)); }
static var  N_par  (var n) { return (var)((uintptr_t)(*(var*)((char*)n + 2 * sizeof(var))) & ~(uintptr_t)1); }
static int  N_red  (var n) { return n ? (int)((uintptr_t)(*(var*)((char*)n + 2 * sizeof(var))) & 1) : 0; }
static var  N_key  (var n) { return (char*)n + 3 * sizeof(var) + sizeof(struct Header); }

static int failed = 0;
static const char* phase = "";
static long step = 0;

#define CHECK(c, ...) do { if (!(c)) { \
  printf("FAIL [%s step %ld] ", phase, step); printf(__VA_ARGS__); printf("\n"); \
  failed = 1; } } while (0)

static size_t count, maxdepth;

/* returns black height, -1 on violation */
static int rb_walk(var n, var parent, size_t depth) {
  if (n is NULL) { return 1; }
  count++;
  if (depth > maxdepth) { maxdepth = depth; }
  if (N_par(n) isnt parent) { CHECK(0, "bad parent link at key %li", (long)c_int(N_key(n))); return -1; }
  if (N_red(n) and N_red(parent)) { CHECK(0, "red node %li has red parent", (long)c_int(N_key(n))); return -1; }
  int l = rb_walk(N_left(n),  n, depth+1);
  int r = rb_walk(N_right(n), n, depth+1);
  if (l < 0 or r < 0) { return -1; }
  if (l isnt r) { CHECK(0, "black heights differ (%d vs %d) below key %li", l, r, (long)c_int(N_key(n))); return -1; }
  return l + (N_red(n) ? 0 : 1);
}

static void check_shape(var t) {
  struct TreeHead* h = t;
  count = 0; maxdepth = 0;
  CHECK(not N_red(h->root), "root is red");
  rb_walk(h->root, NULL, 1);
  CHECK(count is len(t), "node count %lu != len %lu", (unsigned long)count, (unsigned long)len(t));
  double bound = 2.0 * log2((double)count + 1.0);
  CHECK((double)maxdepth <= bound + 1e-9, "height %lu exceeds 2*log2(n+1) = %.2f (n=%lu)",
    (unsigned long)maxdepth, bound, (unsigned long)count);
}

/* reference model: presence + value for keys 0..MAXK-1 */
#define MAXK 512
static int  present[MAXK];
static long value[MAXK];

static void check_map(var t) {
  size_t n = 0;
  for (int k = 0; k < MAXK; k++) {
    n += present[k];
    CHECK((bool)mem(t, $I(k)) is (bool)present[k], "mem(%d) disagrees with model", k);
    if (present[k] and mem(t, $I(k))) {
      CHECK(c_int(get(t, $I(k))) is value[k], "get(%d) returned wrong value", k);
    }
  }
  CHECK(len(t) is n, "len %lu != model %lu", (unsigned long)len(t), (unsigned long)n);

  /* forward: strictly monotone, every key once; backward: exact reverse */
  static long fwd[MAXK], bwd[MAXK];
  size_t nf = 0, nb = 0;
  foreach (k in t) { if (nf < MAXK) { fwd[nf] = c_int(k); } nf++; if (nf > MAXK) break; }
  var it = iter_last(t);
  while (it isnt Terminal) { if (nb < MAXK) { bwd[nb] = c_int(it); } nb++; if (nb > MAXK) break; it = iter_prev(t, it); }
  CHECK(nf is n and nb is n, "iteration visited %lu fwd / %lu bwd, expected %lu",
    (unsigned long)nf, (unsigned long)nb, (unsigned long)n);
  if (nf is n and nb is n) {
    for (size_t i = 0; i < n; i++) {
      CHECK(present[fwd[i]], "iteration produced absent key %li", fwd[i]);
      CHECK(fwd[i] is bwd[n-1-i], "backward iteration is not reverse of forward at %lu", (unsigned long)i);
      if (i >= 2) {
        CHECK((fwd[i] > fwd[i-1]) is (fwd[1] > fwd[0]) and fwd[i] isnt fwd[i-1],
          "forward iteration not strictly monotone at %lu", (unsigned long)i);
      }
    }
  }

  /* absent key raises KeyError */
  bool raised = false;
  try { get(t, $I(MAXK + 7)); } catch (e in KeyError) { raised = true; }
  CHECK(raised, "get of absent key did not raise KeyError");
}

static void do_set(var t, int k, long v) { step++; set(t, $I(k), $I(v)); present[k] = 1; value[k] = v; check_shape(t); check_map(t); }
static void do_rem(var t, int k)         { step++; rem(t, $I(k)); present[k] = 0; check_shape(t); check_map(t); }

static unsigned long rng = 12345;
static unsigned rnd(void) { rng = rng * 6364136223846793005UL + 1442695040888963407UL; return (unsigned)(rng >> 33); }

int main(int argc, char** argv) {

  var t = new(Tree, Int, Int);

  phase = "ascending fill, ascending drain";
  for (int k = 0; k < 64 and not failed; k++) { do_set(t, k, k * 3); }
  for (int k = 0; k < 64 and not failed; k++) { do_rem(t, k); }

  phase = "descending fill, descending drain";
  for (int k = 63; k >= 0 and not failed; k--) { do_set(t, k, k + 1); }
  for (int k = 63; k >= 0 and not failed; k--) { do_rem(t, k); }

  phase = "ascending fill, alternating drain";
  for (int k = 0; k < 64 and not failed; k++) { do_set(t, k, k); }
  for (int k = 0; k < 32 and not failed; k++) { do_rem(t, k); do_rem(t, 63 - k); }

  phase = "random set/rem";
  for (int i = 0; i < 3000 and not failed; i++) {
    int k = rnd() % 96;
    if (present[k] and (rnd() & 1)) { do_rem(t, k); } else { do_set(t, k, i); }
  }

  phase = "remove root repeatedly";
  while (len(t) > 0 and not failed) {
    struct TreeHead* h = (struct TreeHead*)t;
    do_rem(t, (int)c_int(N_key(h->root)));
  }

  del(t);

  if (failed) { return 1; }
  printf("PASS\n");
  return 0;
}
