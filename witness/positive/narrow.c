/* Positive example for the no-narrowing rules (C17.slot-numbers-keep-their-width, C02): a registry entry whose
 * home-slot field is narrower than the slot numbers stored in it. The rule must fire on this on every run
 * (it is never part of a verdict about /repo). */
#include "Cello.h"

struct PosEntry { var ptr; uint16_t hash; };

void PosEntry_Store(struct PosEntry* e, uint64_t i) {
  uint64_t ihash = i + 1;
  e->hash = ihash;
}
