/* Positive example for C19.custom-dealloc: a type whose Alloc.dealloc slot frees the
 * block without the allocation-class refusals. The rule must REFUTE this on every run
 * (it is never part of a verdict about /repo). */
#include "Cello.h"

struct PosThing { var x; };

static void PosThing_Dealloc(var self) {
  free((char*)self - sizeof(struct Header));
}

var PosThing = Cello(PosThing, Instance(Alloc, NULL, PosThing_Dealloc));

/* Positive example for C19.header-written-only-at-creation: a clone that byte-copies the
 * source's header (type, allocation class, magic) onto a fresh heap block. */
var PosThing_Clone(var self) {
  var type = type_of(self);
  return (char*)memcpy(header(alloc(type)), header(self),
    sizeof(struct Header) + size(type)) + sizeof(struct Header);
}
