/* Positive example for C10.address-free: a hash derived from the object's address.
 * The rule must flag this on every run (never part of a verdict about /repo). */
#include "Cello.h"

uint64_t PosAddr_Hash(var self) {
  return ((uintptr_t)self) >> 3;
}
