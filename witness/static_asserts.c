/* Compile-time witnesses (C18.static-witness / C08.layout): this unit must compile under every
 * configuration of Cello.h; a violated layout assumption is a compile error. Never executed. */
#include "Cello.h"

/* header size is a whole number of words, one per field of this configuration */
_Static_assert(sizeof(struct Header) % sizeof(var) == 0, "header is a whole number of words");
_Static_assert(sizeof(struct Header) == sizeof(var) * (1
#if CELLO_ALLOC_CHECK == 1
  + 1
#endif
#if CELLO_MAGIC_CHECK == 1
  + 1
#endif
  ), "one header word per configured header field");

/* a type record is a sequence of (cls, name, inst) triples: the cache words form whole triples */
_Static_assert(sizeof(struct Type) == 3 * sizeof(var), "type triple is three words");
_Static_assert(CELLO_CACHE_NUM % 3 == 0, "cache words form whole triples");
#if CELLO_CACHE == 1
_Static_assert(CELLO_CACHE_NUM == 18, "eighteen cache entries are wired in Type_Instance");
#else
_Static_assert(CELLO_CACHE_NUM == 0, "no cache words without the cache");
#endif

/* the static-object initialiser starts with exactly the header words: object = block + sizeof(Header) */
struct SWObj { var a; };
static var SWObj = Cello(SWObj);
_Static_assert(sizeof((var[]){ NULL, CELLO_ALLOC_HEADER CELLO_MAGIC_HEADER }) == sizeof(struct Header),
  "CelloObject writes one initialiser per header word");

/* stack objects reserve header + payload */
_Static_assert(sizeof((char[sizeof(struct Header) + sizeof(struct Int)]){0}) == sizeof(struct Header) + sizeof(struct Int), "alloc_stack buffer");

/* pointer-sized values used as integers by the containers and the collector */
_Static_assert(sizeof(var) == sizeof(uintptr_t), "pointers and uintptr_t have the same size");
_Static_assert(sizeof(var) == 8 && sizeof(uint64_t) == 8 && sizeof(size_t) == 8, "LP64 layout assumed by the analysis");
