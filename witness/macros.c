/* Witness unit: merely *uses* the public macros of Cello.h so that their
 * bodies are analysed in expanded form against /repo's current header.
 * Never executed. Function names are the instance keys used by the rules. */
#include "Cello.h"

void w_user_call(void);
void w_handler(var e);

/* try / catch(e in A, B) skeleton */
void w_try_catch_filter(void) {
  try {
    w_user_call();
  } catch (e in TypeError, KeyError) {
    w_handler(e);
  }
}

/* try / catch(e) catch-all skeleton */
void w_try_catch_all(void) {
  try {
    w_user_call();
  } catch (e) {
    w_handler(e);
  }
}

void w_throw(var x) {
  throw(ValueError, "witness %$", x);
}

void w_foreach(var xs) {
  foreach (x in xs) {
    w_handler(x);
  }
}

void w_with(var m) {
  with (f in m) {
    w_handler(f);
  }
}

var w_stack_int(void) { return $I(5); }
var w_stack_str(void) { return $S("s"); }
var w_stack_ref(var x) { return $R(x); }
var w_stack_generic(void) { return $(Range, NULL, 0, 1, 1); }
var w_alloc_stack(void) { return alloc_stack(Int); }
var w_tuple(var a, var b) { return tuple(a, b); }
var w_tuple_empty(void) { return tuple(); }
var w_new(void) { return new(Int, $I(1)); }
var w_new_raw(void) { return new_raw(Int, $I(1)); }
var w_new_root(void) { return new_root(Int, $I(1)); }

var w_method_call(var self, var key) { return method(self, Get, get, key); }
bool w_implements_method(var self) { return implements_method(self, Get, get); }
var w_type_method_call(var type) { return type_method(type, Current, current); }

struct WObj { var a; var b; };
var WObj = Cello(WObj, Instance(Cmp, NULL));
var WEmpty = CelloEmpty(WEmpty);

/* the four member-test / member-call macros name a member the same way (C08.member-addressing) */
bool w_implements_first(var self) { return implements_method(self, Get, get); }
bool w_implements_third(var self) { return implements_method(self, Get, mem); }
bool w_type_implements_first(var type) { return type_implements_method(type, Get, get); }
bool w_type_implements_third(var type) { return type_implements_method(type, Get, mem); }
