/* Witness unit for the `main` wrapper macro of Cello.h (collector creation,
 * stack bottom, atexit registration). Never executed. */
#include "Cello.h"

int main(int argc, char** argv) {
  return 0;
}
