"""Small concrete instances of the five containers for the integer evaluator (cint).

The container object is the element pointer ('ep', 'self', 0), so its fields are the atoms ('elem', 'self', 0, field) in whatever
frame they are read.  Element storage is integer memory; *where* a link, a hash word, a key or a value of an element lives is
taken from the type's own small accessors (Array_Item, List_Next, Table_Key_Hash, Tree_Left, ...) by evaluating them from their
source — the accessors are the definition of the layout, code that spells the same arithmetic out by hand reads the same
addresses, code that uses a different offset reads an address that holds nothing (Mismatch).

  build(P, T, scenario) -> Model    scenario: Array/List/Tuple: number of elements; Table: occupancy tuple; Tree: (shape, tag)
  scenarios(T)                      the finite family used by the rules
"""
import itertools
from . import cint

TERM = 7777
SELF = ('ep', 'self', 0)


class Mismatch(Exception):
    pass


class Unsupported(Exception):
    pass


class Model:
    def __init__(self):
        self.atoms = {('global', 'Terminal'): TERM, ('global', 'NULL'): 0}
        self.words = {}           # integer address -> word
        self.elems = []           # the objects iteration yields, in order (for maps: the keys)
        self.vals = []            # maps: the value objects, in key order
        self.label = ''
        self.n = 0

    def field(self, f, v):
        self.atoms[('elem', 'self', 0, f)] = v

    def mem(self, a, it):
        if a in self.words:
            return self.words[a]
        raise Mismatch('reads the word at an address that holds no link, hash or element of the container')


def sub(P, name, args, atoms, mem=None):
    f = P.fn(name, required=False)
    if f is None:
        raise Unsupported('accessor %s is gone' % name)
    it = cint.CInt(P, f, atoms=atoms, recurse=True, mem=mem, strict=True)
    r = it.run(args)
    if r[0] != 'ret' or not isinstance(r[1], int):
        raise Unsupported('accessor %s does not evaluate: %s' % (name, r[1]))
    return r[1]


def probe_read(P, name, args, atoms):
    """the one address an accessor dereferences"""
    seen = []

    def probe(a, it):
        seen.append(a)
        return 0
    sub(P, name, args, atoms, mem=probe)
    if len(seen) != 1:
        raise Unsupported('%s does not read exactly one word' % name)
    return seen[0]


def shapes(n):
    """all binary-tree shapes with n nodes as nested (left, right) tuples; None is the empty tree"""
    if n == 0:
        return [None]
    out = []
    for k in range(n):
        for l in shapes(k):
            for r in shapes(n - 1 - k):
                out.append((l, r))
    return out


def scenarios(T):
    if T == 'Table':
        return [occ for k in range(0, 5) for occ in itertools.product((0, 1), repeat=k)]
    if T == 'Tree':
        return [(s, tag) for k in range(0, 5) for s in shapes(k) for tag in (0, 1)]
    return list(range(0, 4))


def build(P, T, sc):
    M = Model()
    a = M.atoms
    for f, v in (('type', 8500), ('ktype', 8500), ('vtype', 8501), ('tsize', 8), ('ksize', 8), ('vsize', 16)):
        M.field(f, v)
    if T in ('Array', 'List', 'Tuple'):
        n = sc
        M.n = n
        M.field('nitems', n)
        M.label = '%d elements' % n
    if T == 'Array':
        M.field('data', 600000)
        M.field('nslots', n + 2)
        M.elems = [sub(P, 'Array_Item', [SELF, i], a) for i in range(n)]
    elif T == 'Tuple':
        M.elems = [1000 * (i + 1) for i in range(n)]
        M.field('items', ('ep', 'items', 0))
        for i in range(n + 4):
            a[('elem', 'items', i, None)] = M.elems[i] if i < n else (TERM if i == n else 6660 + i)
    elif T == 'List':
        M.elems = [1000 * (i + 1) for i in range(n)]
        M.field('head', M.elems[0] if n else 0)
        M.field('tail', M.elems[-1] if n else 0)
        for i in range(n):
            M.words[sub(P, 'List_Next', [SELF, M.elems[i]], a)] = M.elems[i + 1] if i + 1 < n else 0
            M.words[sub(P, 'List_Prev', [SELF, M.elems[i]], a)] = M.elems[i - 1] if i > 0 else 0
    elif T == 'Table':
        occ = sc
        M.n = sum(occ)
        M.field('nitems', M.n)
        M.field('data', 600000)
        M.field('nslots', len(occ))
        M.field('sspace0', 610000)
        M.field('sspace1', 620000)
        M.label = ('slots %s' % ''.join('x' if o else '.' for o in occ)) if occ else 'no slots'
        for i, o in enumerate(occ):
            M.words[probe_read(P, 'Table_Key_Hash', [SELF, i], a)] = (0x9000 + i) if o else 0
            if o:
                M.elems.append(sub(P, 'Table_Key', [SELF, i], a))
                M.vals.append(sub(P, 'Table_Val', [SELF, i], a))
    elif T == 'Tree':
        shape, tag = sc
        nodes = []

        def number(s, parent):
            # nodes are numbered (and addressed) by in-order position
            if s is None:
                return None
            me = {'parent': parent}
            me['l'] = number(s[0], me)
            me['addr'] = 100000 * (len(nodes) + 1)
            nodes.append(me)
            me['r'] = number(s[1], me)
            return me
        root = number(shape, None)
        n = len(nodes)
        M.n = n
        M.field('nitems', n)
        M.field('root', root['addr'] if root else 0)
        M.label = 'tree %s%s' % (fmt_shape(shape), ', colour bits set' if tag else '')
        for nd in nodes:
            ad = nd['addr']
            M.words[sub(P, 'Tree_Left', [SELF, ad], a)] = nd['l']['addr'] if nd['l'] else 0
            M.words[sub(P, 'Tree_Right', [SELF, ad], a)] = nd['r']['addr'] if nd['r'] else 0
            M.words[probe_read(P, 'Tree_Get_Parent', [SELF, ad], a)] = (nd['parent']['addr'] if nd['parent'] else 0) | tag
            M.elems.append(sub(P, 'Tree_Key', [SELF, ad], a))
            M.vals.append(sub(P, 'Tree_Val', [SELF, ad], a))
        M.nodes = [nd['addr'] for nd in nodes]
    else:
        raise Unsupported('no model of %s' % T)
    return M


def fmt_shape(s):
    if s is None:
        return '.'
    return '(%s o %s)' % (fmt_shape(s[0]), fmt_shape(s[1]))


def eval_cursor_walk(P, T, which=('iter_init', 'iter_next', 'iter_last', 'iter_prev')):
    """Walk the small instances of T with the type's own cursor functions (cint, accessors from their source).  Forwards:
    iter_init, then iter_next until Terminal, must yield exactly the elements in order; backwards from iter_last with iter_prev
    the reverse.  Returns ({method: first mismatch or None}, unsupported reason or None, number of evaluations)."""
    fns = {m: P.fn(P.slot(T, 'Iter', m)) for m in which}
    bad = {m: None for m in which}
    unsup = None
    ncase = 0
    for sc in scenarios(T):
        M = build(P, T, sc)

        def call(nm, e, it, M=M):
            if nm == 'len' and it.ev(e[2][0]) == SELF:
                return M.n
            raise cint.NoEval('call %s' % nm)

        def run(m, args):
            it = cint.CInt(P, fns[m], atoms=M.atoms, call=call, recurse=True, mem=M.mem, max_steps=3000, strict=True)
            try:
                return it.run(args)
            except Mismatch as x:
                return ('mismatch', str(x), None)
        for first, step, order in (('iter_init', 'iter_next', list(M.elems)), ('iter_last', 'iter_prev', list(reversed(M.elems)))):
            if first not in fns or step not in fns:
                continue
            m, args, prev = first, [SELF], None
            for want in order + [TERM]:
                r = run(m, args)
                ncase += 1
                if r[0] == 'stuck' and r[1] != 'step bound':
                    unsup = unsup or '%s of %s, %s: %s' % (m, T, M.label, r[1])
                    break
                if r[0] == 'ret' and r[1] == want:
                    prev = want
                    m, args = step, [SELF, want]
                    continue

                def name(v):
                    if v == TERM:
                        return 'Terminal'
                    if v in M.elems:
                        return 'element %d' % (M.elems.index(v) + 1)
                    return 'something that is no element (%s)' % (v,)
                got = name(r[1]) if r[0] == 'ret' else ('does not end' if r[0] == 'stuck' else r[1] if r[0] == 'mismatch' else 'does not return')
                bad[m] = bad[m] or '%s, %s: %s, expected %s' % (M.label, 'first step' if prev is None else 'from %s' % name(prev), got, name(want))
                break
    return bad, unsup, ncase


def eval_tree_lookup(P, method):
    """Tree get / mem, evaluated on every shape of up to 4 nodes for every present key and every absent key (one per gap of the
    in-order sequence).  The stored keys are ordered the way the tree's own convention orders them: cmp(stored, sought) is negative
    exactly when the sought key belongs to the left of the stored one (insertion and removal are held to the same convention by
    C03.descent-agreement), with magnitudes other than 1.  Returns (mismatch on a present key, mismatch on an absent key, unsupported, n)."""
    fn = P.fn(P.slot('Tree', 'Get', method))
    bad_hit, bad_miss, unsup, ncase = None, None, None, 0
    for sc in scenarios('Tree'):
        M = build(P, 'Tree', sc)
        n = M.n
        targets = [('present', j) for j in range(n)] + [('absent', g) for g in range(n + 1)]
        if method == 'rem':
            targets = [t for t in targets if t[0] == 'absent']        # (the removal of a stored key is the shape analysis' business)
        for kind, j in targets:
            TOK = 555000 + j
            where = j if kind == 'present' else j - 0.5        # position of the sought key in the in-order sequence

            def call(nm, e, it, M=M, TOK=TOK, where=where):
                if nm == 'cast':
                    return it.ev(e[2][0])
                if nm in ('cmp', 'eq'):
                    x, y = it.ev(e[2][0]), it.ev(e[2][1])
                    if x in M.elems and y == TOK:
                        d = where - M.elems.index(x)
                        r = 0 if d == 0 else (-5 if d < 0 else 7)
                    elif y in M.elems and x == TOK:
                        d = where - M.elems.index(y)
                        r = 0 if d == 0 else (5 if d < 0 else -7)
                    else:
                        raise Mismatch('compares something that is not (a stored key, the sought key)')
                    return r if nm == 'cmp' else int(r == 0)
                if nm == 'len' and it.ev(e[2][0]) == SELF:
                    return M.n
                if method == 'rem' and nm in ('destruct', 'free'):
                    raise Mismatch('%s is called although the key is not stored' % nm)
                raise cint.NoEval('call %s' % nm)
            it = cint.CInt(P, fn, atoms=M.atoms, call=call, recurse=True, mem=M.mem, max_steps=3000, strict=True)
            try:
                r = it.run([SELF, TOK])
            except Mismatch as x:
                r = ('mismatch', str(x), None)
            ncase += 1
            if r[0] == 'stuck' and r[1] != 'step bound':
                unsup = unsup or '%s: %s' % (M.label, r[1])
                continue
            if kind == 'present':
                want = ('ret', 1) if method == 'mem' else ('ret', M.vals[j])
            else:
                want = ('ret', 0) if method == 'mem' else ('term', ('throw', 'KeyError'))          # get and rem raise
            if (r[0], r[1]) != want:
                got = ('returns %s' % (('the value of entry %d' % (M.vals.index(r[1]) + 1)) if r[1] in M.vals else r[1],)) if r[0] == 'ret' else \
                    ('raises %s' % r[1][1] if r[0] == 'term' and isinstance(r[1], tuple) else ('does not end' if r[0] == 'stuck' else str(r[1])))
                msg = '%s, %s: %s' % (M.label, ('key of entry %d (in order)' % (j + 1)) if kind == 'present' else 'a key that belongs at position %d and is not stored' % (j + 1), got)
                if kind == 'present':
                    bad_hit = bad_hit or msg
                else:
                    bad_miss = bad_miss or msg
    return bad_hit, bad_miss, unsup, ncase


def eval_teardown(P, T, fname, args=None, reset=()):
    """A clear / delete routine of container T evaluated on the small instances: every element (for maps: every key and every value)
    is destructed exactly once, before the storage that holds it is released; the storage is released exactly once (Array, Table: the
    backing store; List, Tree: one block per element, the block the type's own allocator laid out); `reset` names fields that must be
    zero afterwards.  Returns (mismatch, unsupported, cases)."""
    fn = P.fn(fname)
    bad, unsup, ncase = None, None, 0
    for sc in scenarios(T):
        M = build(P, T, sc)
        owned = list(M.elems) + list(M.vals)
        events = []

        def call(nm, e, it, M=M, events=events):
            if nm == 'destruct':
                v = it.ev(e[2][0])
                events.append(('destruct', v))
                return v
            if nm == 'free':
                events.append(('free', it.ev(e[2][0])))
                return 0
            if nm == 'len' and it.ev(e[2][0]) == SELF:
                return M.n
            raise cint.NoEval('call %s' % nm)
        # storage blocks
        if T in ('Array', 'Table'):
            blocks = {M.atoms[('elem', 'self', 0, 'data')]: list(owned)}        # the backing store exists even when no element is held
            store = M.atoms[('elem', 'self', 0, 'data')]
        elif T == 'List':
            blocks = {}
            for el in M.elems:
                seen = []

                def probe_call(nm, e, it, seen=seen):
                    if nm == 'free':
                        seen.append(it.ev(e[2][0]))
                        return 0
                    raise cint.NoEval('call %s' % nm)
                r = cint.CInt(P, P.fn('List_Free'), atoms=M.atoms, call=probe_call, recurse=True, strict=True).run([SELF, el])
                if len(seen) != 1:
                    raise Unsupported('List_Free does not release one block')
                blocks[seen[0]] = [el]
        else:
            blocks = {nd: [k, v] for nd, k, v in zip(M.nodes, M.elems, M.vals)}
        a = args(M) if args else [SELF]
        if a is None:
            continue          # a scenario the routine is never called in (an internal helper with a precondition)
        it = cint.CInt(P, fn, atoms=M.atoms, call=call, recurse=True, mem=M.mem, max_steps=6000, max_depth=10, strict=True)
        it.atoms = M.atoms
        try:
            r = it.run(a)
        except Mismatch as x:
            bad = bad or '%s: %s' % (M.label, x)
            continue
        ncase += 1
        if r[0] == 'stuck':
            unsup = unsup or '%s: %s at %s' % (M.label, r[1], P.cfg(fn).describe(r[2]))
            continue
        if r[0] != 'ret':
            bad = bad or '%s: does not return' % M.label
            continue

        def name(v):
            if v in M.elems:
                return ('key %d' if M.vals else 'element %d') % (M.elems.index(v) + 1)
            if v in M.vals:
                return 'value %d' % (M.vals.index(v) + 1)
            return 'something that is no element (%s)' % (v,)
        des = [v for k_, v in events if k_ == 'destruct']
        frees = [v for k_, v in events if k_ == 'free']
        msg = None
        if sorted(map(repr, des)) != sorted(map(repr, owned)):
            missing = [name(v) for v in owned if v not in des]
            twice = sorted({name(v) for v in des if des.count(v) > 1})
            extra = [name(v) for v in des if v not in owned]
            msg = 'destructs %s' % ([name(v) for v in des],) + (': %s never destructed' % missing if missing else '') + (': %s destructed twice' % twice if twice else '') + \
                (': %s' % extra if extra else '')
        else:
            want_frees = sorted(k_ for k_ in blocks)
            scratch = {M.atoms.get(('elem', 'self', 0, 'sspace0')), M.atoms.get(('elem', 'self', 0, 'sspace1'))} - {None} if T == 'Table' else set()
            real = [f for f in frees if f != 0 and f not in scratch]           # (the destructor also releases the Table's two scratch records)
            if len(set(frees)) != len(frees):
                msg = 'a block is released twice'
            elif sorted(real) != want_frees:
                msg = 'releases %d block(s), the container holds %d%s' % (len(real), len(want_frees), ' (a block released twice)' if len(set(real)) != len(real) else '')
            else:
                for blk, held in blocks.items():
                    fi = events.index(('free', blk))
                    late = [name(v) for v in held if events.index(('destruct', v)) > fi]
                    if late:
                        msg = 'the storage of %s is released before it is destructed' % late
        if not msg:
            for f_ in reset:
                if M.atoms.get(('elem', 'self', 0, f_)) != 0:
                    msg = 'the field `%s` is not reset' % f_
        if msg:
            bad = bad or '%s: %s' % (M.label, msg)
    return bad, unsup, ncase


def eval_node_alloc(P, T):
    """Tree_Alloc / List_Alloc evaluated over zeroed block memory: the block covers the link words, the headers and size(type) bytes
    of every embedded object *where the type's accessors place them*; each embedded object gets its header (type of the container's
    key / value / element, allocation class AllocData) directly in front of it; the links of the fresh node are NULL.
    Returns (mismatch or None, unsupported or None)."""
    fname = '%s_Alloc' % T
    fn = P.fn(fname)
    HDR = 8 * len(P.records['Header']['fields']) if 'Header' in P.records else 24
    for szk, szv in ((8, 16), (24, 8), (0, 8), (5, 3)):
        atoms = {('global', 'NULL'): 0, ('global', 'Terminal'): TERM}
        for f, v in (('type', 8500), ('ktype', 8500), ('vtype', 8501), ('tsize', szk), ('ksize', szk), ('vsize', szv), ('nitems', 3), ('root', 0), ('head', 0), ('tail', 0)):
            atoms[('elem', 'self', 0, f)] = v
        # the size fields are whatever the type's constructor derives from size(type) (it may round them): taken from the constructor
        # itself, evaluated with the same size() answers the allocator gets
        ctor = P.fn(P.slot(T, 'New', 'construct_with'), required=False)
        if ctor is not None:
            def ccall(nm, e, it, szk=szk, szv=szv):
                if nm == 'get':
                    k = it.ev(e[2][1])
                    if isinstance(k, tuple) and k[0] == 'stack':
                        return 8500 + k[2][0]
                    raise cint.NoEval('get with a key that is no Int literal')
                if nm == 'cast':
                    return it.ev(e[2][0])
                if nm == 'size':
                    return {8500: szk, 8501: szv}.get(it.ev(e[2][0]), 8)
                if nm == 'len':
                    return 2 if T == 'Tree' else 1
                raise cint.NoEval('call %s' % nm)
            catoms = dict(atoms)
            cit = cint.CInt(P, ctor, atoms=catoms, call=ccall, recurse=True, strict=True)
            cit.atoms = catoms
            cr = cit.run([SELF, 9100])
            if cr[0] == 'ret':
                for f in ('tsize', 'ksize', 'vsize'):
                    if ('elem', 'self', 0, f) in catoms and isinstance(catoms[('elem', 'self', 0, f)], int):
                        atoms[('elem', 'self', 0, f)] = catoms[('elem', 'self', 0, f)]
        ksize = atoms[('elem', 'self', 0, 'ksize' if T == 'Tree' else 'tsize')]
        vsize = atoms[('elem', 'self', 0, 'vsize')]
        BASE = 100000
        st = {'size': None, 'inits': [], 'mem': {}}

        def inside(a, w):
            return st['size'] is not None and BASE <= a and a + (w or 8) <= BASE + st['size']

        def mem(a, it):
            if not inside(a, it.mem_width):
                raise Mismatch('reads %s bytes at offset %d of a block of %s' % (it.mem_width, a - BASE, st['size']))
            return st['mem'].get(a, 0)

        def memw(a, v, w, it):
            if not inside(a, w):
                raise Mismatch('writes %s bytes at offset %d of a block of %s' % (w, a - BASE, st['size']))
            st['mem'][a] = v

        def call(nm, e, it):
            if nm in ('calloc', 'malloc'):
                args = [it.ev(x) for x in e[2]]
                st['size'] = args[0] * args[1] if nm == 'calloc' else args[0]
                return BASE
            if nm == 'size':
                return {8500: szk, 8501: szv}.get(it.ev(e[2][0]), 8)
            if nm == 'header_init':
                h, t, al = it.ev(e[2][0]), it.ev(e[2][1]), it.ev(e[2][2])
                if not inside(h, HDR):
                    raise Mismatch('a header is initialised at offset %d of a block of %s bytes' % (h - BASE, st['size']))
                st['inits'].append((h, t, al))
                return h + HDR
            raise cint.NoEval('call %s' % nm)
        it = cint.CInt(P, fn, atoms=atoms, call=call, recurse=True, mem=mem, memw=memw, max_depth=6, strict=True)
        label = '%s element of type size %d%s (size fields %d%s)' % (T, szk, ('+%d' % szv) if T == 'Tree' else '', ksize, ('+%d' % vsize) if T == 'Tree' else '')
        try:
            r = it.run([SELF])
            if r[0] != 'ret' or not isinstance(r[1], int):
                return None, '%s: %s' % (label, r[1])
            obj = r[1]
            DATA = P.enums.get('AllocData', 2)
            if T == 'Tree':
                node = obj
                key = sub(P, 'Tree_Key', [SELF, node], atoms)
                val = sub(P, 'Tree_Val', [SELF, node], atoms)
                links = [sub(P, 'Tree_Left', [SELF, node], atoms), sub(P, 'Tree_Right', [SELF, node], atoms), probe_read(P, 'Tree_Get_Parent', [SELF, node], atoms)]
                objs = [(key, ksize, 8500, 'key'), (val, vsize, 8501, 'value')]
            else:
                key = obj
                links = [sub(P, 'List_Next', [SELF, obj], atoms), sub(P, 'List_Prev', [SELF, obj], atoms)]
                objs = [(obj, ksize, 8500, 'element')]
            spans = [(a, a + 8, 'link word') for a in links] + [x for (o, sz, t, nm) in objs for x in ((o - HDR, o, 'header of the ' + nm), (o, o + sz, nm))]
            for lo, hi, nm in spans:
                if not (BASE <= lo and hi <= BASE + st['size']):
                    return '%s: the %s occupies offsets %d..%d, the block has %d bytes' % (label, nm, lo - BASE, hi - BASE, st['size']), None
            srt = sorted(spans)
            for (lo1, hi1, n1), (lo2, hi2, n2) in zip(srt, srt[1:]):
                if hi1 > lo2:
                    return '%s: the %s (offsets %d..%d) overlaps the %s (%d..%d)' % (label, n1, lo1 - BASE, hi1 - BASE, n2, lo2 - BASE, hi2 - BASE), None
            want = sorted((o - HDR, t, DATA) for (o, sz, t, nm) in objs)
            if sorted(st['inits']) != want:
                return '%s: headers initialised at %s, the embedded objects need %s (offset, type, allocation class)' % (
                    label, [(h - BASE, t, al) for (h, t, al) in sorted(st['inits'])], [(h - BASE, t, al) for (h, t, al) in want]), None
            for a in links[:2]:
                if st['mem'].get(a, 0) != 0:
                    return '%s: a link of the fresh node is not NULL' % label, None
            if T == 'Tree' and (st['mem'].get(links[2], 0) & ~1) != 0:
                return '%s: the parent of the fresh node is not NULL' % label, None
        except Mismatch as x:
            return '%s: %s' % (label, x), None
    return None, None


def eval_visits(P, T, fname, mode):
    """A function that must visit every element of T (for maps: every key and every value) exactly once, evaluated on the small
    instances.  mode 'mark': (self, gc, f) calls f(gc, element); mode 'hash': (self) combines hash(element) of every element with
    xor.  Returns (mismatch, unsupported, cases)."""
    fn = P.fn(fname)
    bad, unsup, ncase = None, None, 0
    FN, GC = 4242, 4300
    # the built-in types as distinct objects; for a map being marked, the key / value types are varied over reference-free built-in types
    # (whose objects a tracer may skip) and other types (whose objects it must visit)
    TYPES = {nm_: 8100 + i_ for i_, nm_ in enumerate(('Int', 'Float', 'String', 'Type', 'File', 'Process', 'Function', 'Ref', 'Box', 'Tuple', 'Array', 'List', 'Table', 'Tree'))}
    LEAF = {TYPES['Int'], TYPES['Float'], TYPES['String']}
    tvars = [None]
    if mode == 'mark' and T in ('Table', 'Tree'):
        tvars = [None, (TYPES['Float'], None), (None, TYPES['Float']), (TYPES['Int'], TYPES['Box']), (TYPES['Box'], TYPES['String'])]
    for sc, tv in [(sc_, tv_) for sc_ in scenarios(T) for tv_ in tvars]:
        M = build(P, T, sc)
        for nm_, tok_ in TYPES.items():
            M.atoms.setdefault(('global', nm_), tok_)
        skippable = []
        if tv is not None:
            if tv[0] is not None:
                M.atoms[('elem', 'self', 0, 'ktype')] = tv[0]
            if tv[1] is not None:
                M.atoms[('elem', 'self', 0, 'vtype')] = tv[1]
            M.label += ' (key type %s, value type %s)' % tuple(next((k_ for k_, v_ in TYPES.items() if v_ == t_), 'some other type') for t_ in tv)
            if tv[0] in LEAF:
                skippable += list(M.elems)
            if tv[1] in LEAF:
                skippable += list(M.vals)
        owned = list(M.elems) + list(M.vals)
        seen = []

        def call(nm, e, it, M=M, seen=seen):
            if nm is None and mode == 'mark':
                if it.ev(e[1]) != FN:
                    raise Mismatch('calls something that is not the marking callback')
                a = [it.ev(x) for x in e[2]]
                if a[0] != GC:
                    raise Mismatch('the callback is not given the collector it was handed')
                seen.append(a[1])
                return 0
            if nm == 'hash' and mode == 'hash':
                v = it.ev(e[2][0])
                seen.append(v)
                return (1 << (owned.index(v) + 3)) if v in owned else (1 << 40)
            if nm == 'len' and it.ev(e[2][0]) == SELF:
                return M.n
            raise cint.NoEval('call %s' % nm)
        base_atoms = dict(M.atoms)

        def build_run(oracle, M=M, seen=seen, call=call, base_atoms=base_atoms):
            del seen[:]
            M.atoms.clear()
            M.atoms.update(base_atoms)
            it = cint.CInt(P, fn, atoms=M.atoms, call=call, recurse=True, mem=M.mem, max_steps=4000, strict=True)
            it.atoms = M.atoms
            it.unknown = oracle          # a field the model knows nothing about (added by a change) may hold anything
            try:
                return it.run([SELF, GC, FN] if mode == 'mark' else [SELF]), list(seen), None
            except Mismatch as x:
                return None, list(seen), str(x)
        runs = cint.all_unknown(build_run)
        r, seen_, mm = runs[0][1]
        extra = ''
        for assign, (r_, s_, m_) in runs[1:]:
            # prefer the assignment under which something goes wrong
            if m_ or (r_ is not None and r_[0] == 'ret' and sorted(map(repr, s_)) != sorted(map(repr, owned))):
                r, seen_, mm = r_, s_, m_
                extra = ' (with %s)' % ', '.join('%s = %d' % (k_[3] if len(k_) > 3 else k_, v_) for k_, v_ in assign.items())
                break
        seen = seen_
        if mm:
            bad = bad or '%s%s: %s' % (M.label, extra, mm)
            continue
        M.label += extra
        ncase += 1
        if r[0] == 'stuck' and r[1] != 'step bound':
            unsup = unsup or '%s: %s at %s' % (M.label, r[1], P.cfg(fn).describe(r[2]))
            continue

        def name(v):
            if v in M.elems:
                return ('key %d' if M.vals else 'element %d') % (M.elems.index(v) + 1)
            if v in M.vals:
                return 'value %d' % (M.vals.index(v) + 1)
            return 'something that is no element (%s)' % (v,)
        if r[0] != 'ret':
            bad = bad or '%s: the walk does not end' % M.label
        elif skippable and len(set(seen)) == len(seen) and set(seen) <= set(owned) and set(owned) - set(seen) <= set(skippable):
            pass          # objects of Int / Float / String hold no reference: a tracer may leave them out
        elif sorted(map(repr, seen)) != sorted(map(repr, owned)):
            missing = [name(v) for v in owned if v not in seen]
            bad = bad or '%s: visits %s%s' % (M.label, [name(v) for v in seen], (', never %s' % missing) if missing else '')
        elif mode == 'hash':
            want = 0
            for k in range(len(owned)):
                want ^= 1 << (k + 3)
            if r[1] != want:
                bad = bad or '%s: the result is not the xor of the element hashes' % M.label
    return bad, unsup, ncase


def eval_map_assign(P, T):
    """assign(map, obj) of Tree / Table evaluated (cint) for sources that yield 0..2 keys, with and without their own key/value types:
    the previous bindings are cleared first — while the size fields still describe the old layout —, the key and value types and sizes
    are taken over from the source (Ref when it declares none) also when the source is empty, and every key the source yields is
    inserted with the source's value for it, in order.  -> (mismatch, unsupported, cases)"""
    fn = P.fn(P.slot(T, 'Assign', 'assign'))
    clear_name = '%s_Clear' % T
    insert_names = ('Tree_Set',) if T == 'Tree' else ('Table_Set_Move', 'Table_Set')
    OBJ = 7777000
    REF, KT, VT = 8700, 8600, 8601
    SIZES = {REF: 8, KT: 24, VT: 40, 8500: 8, 8501: 16}
    bad, unsup, ncase = None, None, 0
    for m in (0, 1, 2):
        for has_types in (1, 0):
            atoms = {('global', 'NULL'): 0, ('global', 'Terminal'): TERM, ('global', 'Ref'): REF,
                     ('elem', 'iterinst', 0, 'iter_init'): 8801, ('elem', 'iterinst', 0, 'iter_next'): 8802}
            for f, v in (('ktype', 8500), ('vtype', 8501), ('ksize', 8), ('vsize', 16), ('nitems', 3), ('root', 123456), ('nslots', 5), ('data', 600000),
                         ('sspace0', 610000), ('sspace1', 620000)):
                atoms[('elem', 'self', 0, f)] = v
            ev_ = []

            def call(nm, e, it, m=m, has_types=has_types):
                if nm == clear_name:
                    a_ = it.atoms
                    ev_.append(('clear', a_[('elem', 'self', 0, 'ktype')], a_[('elem', 'self', 0, 'vtype')], a_[('elem', 'self', 0, 'ksize')], a_[('elem', 'self', 0, 'vsize')]))
                    a_[('elem', 'self', 0, 'nitems')] = 0
                    a_[('elem', 'self', 0, 'root')] = 0
                    if T == 'Table':
                        a_[('elem', 'self', 0, 'nslots')] = 0
                        a_[('elem', 'self', 0, 'data')] = 0
                    return 0
                if nm == 'Tree_Clear_Entry' and T == 'Tree':
                    # the recursive half of the clear, called directly: the entries go, the count and the root are the caller's to reset
                    a_ = it.atoms
                    ev_.append(('clear', a_[('elem', 'self', 0, 'ktype')], a_[('elem', 'self', 0, 'vtype')], a_[('elem', 'self', 0, 'ksize')], a_[('elem', 'self', 0, 'vsize')]))
                    return 0
                if nm in ('implements_method_at_offset', 'type_implements_method_at_offset', 'implements'):
                    return has_types
                if nm == 'key_type':
                    return KT
                if nm == 'val_type':
                    return VT
                if nm == 'size':
                    return SIZES.get(it.ev(e[2][0]), 8)
                if nm == 'len':
                    return m
                if nm == 'Table_Ideal_Size':
                    return 5 if it.ev(e[2][0]) > 0 else 0
                if nm in ('calloc', 'malloc'):
                    return 900000
                if nm == 'realloc':
                    return it.ev(e[2][0]) or 910000
                if nm == 'memset':
                    return it.ev(e[2][0])
                if nm == 'free':
                    return 0
                if nm == 'method_at_offset':
                    return ('ep', 'iterinst', 0)
                if nm is None:
                    f_ = it.ev(e[1])
                    if f_ == 8801:
                        return 7001 if m >= 1 else TERM
                    if f_ == 8802:
                        c_ = it.ev(e[2][1])
                        return c_ + 1 if c_ - 7000 < m else TERM
                    raise cint.NoEval('indirect call')
                if nm == 'get' and it.ev(e[2][0]) == OBJ:
                    return 1100 + it.ev(e[2][1])
                if nm in insert_names:
                    ev_.append(('insert', it.ev(e[2][1]), it.ev(e[2][2])))
                    return 0
                raise cint.NoEval('call %s' % nm)
            it = cint.CInt(P, fn, atoms=atoms, call=call, recurse=True, strict=True, max_steps=4000)
            it.atoms = atoms
            r = it.run([SELF, OBJ])
            ncase += 1
            label = 'source yielding %d key(s)%s' % (m, '' if has_types else ' and declaring no key/value types')
            if r[0] == 'stuck':
                unsup = unsup or '%s: %s at %s' % (label, r[1], P.cfg(fn).describe(r[2]))
                continue
            if r[0] != 'ret':
                bad = bad or '%s: does not return (%s)' % (label, r[1])
                continue
            wk, wv = (KT, VT) if has_types else (REF, REF)
            msg = None
            clears = [x for x in ev_ if x[0] == 'clear']
            if len(clears) != 1 or ev_[0][0] != 'clear':
                msg = 'the previous bindings are not cleared exactly once, first (%s)' % [x[0] for x in ev_]
            elif clears[0][1:] != (8500, 8501, 8, 16):
                msg = 'the old entries are cleared after the type and size fields were overwritten (they are walked with sizes %s/%s)' % (clears[0][3], clears[0][4])
            elif (atoms[('elem', 'self', 0, 'ktype')], atoms[('elem', 'self', 0, 'vtype')]) != (wk, wv):
                msg = 'afterwards the key/value types are %s/%s; the source\'s are %s/%s' % (atoms[('elem', 'self', 0, 'ktype')], atoms[('elem', 'self', 0, 'vtype')], wk, wv)
            elif atoms[('elem', 'self', 0, 'ksize')] < SIZES[wk] or atoms[('elem', 'self', 0, 'vsize')] < SIZES[wv]:
                msg = 'afterwards the key/value sizes are %s/%s; the types need %d/%d' % (atoms[('elem', 'self', 0, 'ksize')], atoms[('elem', 'self', 0, 'vsize')], SIZES[wk], SIZES[wv])
            elif [x for x in ev_ if x[0] == 'insert'] != [('insert', 7001 + k, 1100 + 7001 + k) for k in range(m)]:
                msg = 'inserts %s; the source yields keys %s with values get(obj, key)' % ([x[1:] for x in ev_ if x[0] == 'insert'], [7001 + k for k in range(m)])
            elif atoms[('elem', 'self', 0, 'nitems')] != 0:
                # (the insertions are answered by the model and count nothing: what is left is what the clear left)
                msg = 'the count is still %s after the old bindings were cleared: every insertion then counts on top of it' % atoms[('elem', 'self', 0, 'nitems')]
            if msg:
                bad = bad or '%s: %s' % (label, msg)
    return bad, unsup, ncase
