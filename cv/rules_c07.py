"""C07 — try / catch / throw follow block structure.

Typestate analysis over code-derived summaries:
 1. the expansion of try / catch(...) / throw is read from the witness unit and
    its skeleton is checked (C07.skeleton.*);
 2. each exception_* function is summarised per exit path over the abstract
    record (depth, active, obj, buffer stack) (C07.summary.*), with explicit
    per-function obligations;
 3. an abstract machine whose only primitive transitions are those summaries is
    run on every try/throw/catch program tree up to a bound and compared with
    the reference block-structured semantics (C07.protocol).
"""
import itertools
from . import ir, util
from .front import AnalysisBroken
from .report import site

WITNESS = '/verif/witness/macros.c'
UNITS = ['src/Exception.c']


class Undecided(Exception):
    pass


# ---------------------------------------------------------------------------
# summaries

PURE_CALLS = {'current', 'len', 'eq', 'instance', 'method_at_offset', 'Exception_Len', 'Exception_Buffer',
              'iter_init', 'iter_next', None}


def _record_vars(P, fn):
    """expressions that denote the thread's exception record inside fn: locals
    initialised from current(Exception), or parameters of type struct Exception*,
    or locals initialised from such a parameter."""
    rec = set()
    for i, (pn, pt) in enumerate(fn['params']):
        if pt == 'struct Exception *':
            rec.add(('param', pn, i))
    for s in ir.stmts(fn['body']):
        if s['k'] != 'decl':
            continue
        for d in s['decls']:
            if d['init'] is None:
                continue
            t = ir.top_nocast(d['init'])
            if t[0] == 'call' and ir.callee_name(t) == 'current' and ir.top_nocast(t[2][0]) == ('global', 'Exception'):
                rec.add(('local', d['name'], d['id']))
            elif t[0] == 'param' and d['type'] == 'struct Exception *':
                rec.add(('local', d['name'], d['id']))
    return rec


def _is_rec_field(e, rec, name):
    e = ir.top_nocast(e)
    return e[0] == 'arrow' and e[2] == name and ir.top_nocast(e[1]) in rec


# locals that hold the depth as it was at some point of the path being summarised: id -> offset from the depth at the path's start;
# 'delta' is what the path has added to the depth so far
_DLOC = {'map': {}, 'delta': 0}


def _depth_expr(P, e, rec):
    """e == depth + k  -> k, else None. Exception_Len(rec) counts as depth; so does a local the path loaded the depth into."""
    e = ir.top_nocast(e)
    if _is_rec_field(e, rec, 'depth'):
        return 0
    if e[0] == 'local' and len(e) > 2 and e[2] in _DLOC['map']:
        return _DLOC['map'][e[2]] - _DLOC['delta']
    if e[0] == 'call' and ir.callee_name(e) == 'Exception_Len' and ir.top_nocast(e[2][0]) in rec:
        return _check_len_helper(P)
    if e[0] == 'bin' and e[1] in ('+', '-'):
        a = _depth_expr(P, e[2], rec)
        b = util.const_int(e[3], P.enums)
        if a is not None and b is not None:
            return a + b if e[1] == '+' else a - b
    return None


_len_checked = {}


def _check_len_helper(P):
    """Exception_Len must return the depth field of its argument (plus a constant) on its only path; returns that constant."""
    if 'ok' in _len_checked.get(id(P), {}):
        return _len_checked[id(P)]['off']
    f = P.fn('Exception_Len')
    g = P.cfg(f)
    rec = _record_vars(P, f) | util.aliases_of_param(f, 0) | {('param', f['params'][0][0], 0)}
    rets = [n for n in g.live() if n['kind'] == 'ret']
    off = None
    if len(rets) == 1:
        r = ir.top_nocast(rets[0]['expr'])
        if _is_rec_field(r, rec, 'depth'):
            off = 0
        elif r[0] == 'bin' and r[1] in ('+', '-') and _is_rec_field(r[2], rec, 'depth') and util.const_int(r[3], P.enums) is not None:
            off = util.const_int(r[3], P.enums) * (1 if r[1] == '+' else -1)
    ok = off is not None and \
        not any(ev['t'] == 'write' and ir.top_nocast(ev['lhs'])[0] != 'local'
                for n in g.live() if n['expr'] is not None for ev in util.expr_events(n['expr'], n))
    if not ok:
        raise Undecided('Exception_Len is no longer an accessor of depth (plus a constant)')
    _len_checked.setdefault(id(P), {})['ok'] = True
    _len_checked[id(P)]['off'] = off
    return off


KNOWN_FIELDS = ('depth', 'active', 'obj', 'msg', 'buffers')


def _atom(P, cond, rec, fn):
    """classify a branch condition -> (atom, positive_polarity_means)"""
    c = ir.canon(cond)
    raw = ir.top_nocast(ir.nocast(cond))
    if _is_rec_field(raw, rec, 'active'):
        return 'active'
    if raw[0] == 'bin' and raw[1] in ('==', '!=', '>=', '<', '>', '<='):
        op, a, b = raw[1], raw[2], raw[3]
        ka = _depth_expr(P, a, rec)
        vb = util.const_int(b, P.enums)
        if ka is not None and vb is not None:
            # depth + ka  op  vb   ->  depth op (vb - ka)
            return ('depth', op, vb - ka)
        if a[0] == 'call' and ir.callee_name(a) == 'len' and vb == 0 and op in ('==', '!='):
            arg = ir.top_nocast(a[2][0])
            if arg[0] == 'param':
                return ('nargs0', op == '==')
        if op == '!=' and b == ('global', 'Terminal') and a[0] == 'local':
            return ('more_args',)
    if raw[0] == 'call' and ir.callee_name(raw) == 'eq' and len(raw[2]) == 2:
        x, y = (ir.top_nocast(z) for z in raw[2])
        if (_is_rec_field(x, rec, 'obj') and y[0] == 'local') or (_is_rec_field(y, rec, 'obj') and x[0] == 'local'):
            return ('match',)
    # any other field of the record, tested for truth: a piece of state the machine carries along (it starts as the constructor leaves it)
    neg, r2 = False, raw
    while r2[0] == 'un' and r2[1] == '!':
        r2, neg = ir.top_nocast(r2[2]), not neg
    if r2[0] == 'arrow' and ir.top_nocast(r2[1]) in rec and r2[2] not in KNOWN_FIELDS:
        return ('nstate' if neg else 'state', r2[2])
    raise Undecided('condition `%s` in %s is outside the exception-record vocabulary' % (ir.fmt(cond), fn['name']))


def summarise(P, name, ctx):
    """[{'guards': [(atom, bool)], 'effects': [...], 'result': (...), 'path': desc}]"""
    f = P.fn(name)
    ctx.fn(f)
    g = P.cfg(f)
    rec = _record_vars(P, f)
    if not rec:
        raise Undecided('%s does not obtain the exception record' % name)
    out = []
    for path in g.paths():
        ctx.stats['paths'] += 1
        guards, effects = [], []
        result = None
        flags = {}        # local boolean flags: id -> ('const', bool) | ('expr', condition it was computed from)
        infeasible = False
        _DLOC['map'], _DLOC['delta'] = {}, 0
        for ev in util.path_events(path):
            t = ev['t']
            if t == 'cond':
                raw = ir.top_nocast(ir.nocast(ev['expr']))
                neg = False
                while raw[0] == 'un' and raw[1] == '!':
                    raw, neg = ir.top_nocast(raw[2]), not neg
                if raw[0] == 'local' and len(raw) > 2 and raw[2] in flags:
                    kind, val = flags[raw[2]]
                    outcome = bool(ev['val']) != neg
                    if kind == 'const':
                        if val != outcome:
                            infeasible = True
                            break
                    else:
                        guards.append((_atom(P, val, rec, f), outcome))
                    continue
                guards.append((_atom(P, ev['expr'], rec, f), bool(ev['val'])))
            elif t == 'write':
                lhs = ir.top_nocast(ev['lhs'])
                if lhs[0] == 'local':
                    if ev['op'] == '=' and ev['rhs'] is not None and len(lhs) > 2:
                        kd = _depth_expr(P, ev['rhs'], rec)
                        if kd is not None:
                            _DLOC['map'][lhs[2]] = _DLOC['delta'] + kd
                            continue
                        _DLOC['map'].pop(lhs[2], None)
                        cv = util.const_int(ev['rhs'], P.enums)
                        if cv is not None:
                            flags[lhs[2]] = ('const', bool(cv))
                        else:
                            try:
                                _atom(P, ev['rhs'], rec, f)
                                flags[lhs[2]] = ('expr', ev['rhs'])
                            except Undecided:
                                flags.pop(lhs[2], None)
                    continue
                if _is_rec_field(lhs, rec, 'depth'):
                    nd0 = len(effects)
                    if ev['op'] == '++':
                        effects.append(('depth', 1))
                    elif ev['op'] == '--':
                        effects.append(('depth', -1))
                    elif ev['op'] in ('+=', '-='):
                        v = util.const_int(ev['rhs'], P.enums)
                        if v is None:
                            raise Undecided('depth updated by non-constant in %s' % name)
                        effects.append(('depth', v if ev['op'] == '+=' else -v))
                    elif ev['op'] == '=':
                        k = _depth_expr(P, ev['rhs'], rec)
                        if k is None:
                            v = util.const_int(ev['rhs'], P.enums)
                            if v is None:
                                raise Undecided('depth assigned an unknown value in %s' % name)
                            effects.append(('depth_set', v))
                        else:
                            effects.append(('depth', k))
                    else:
                        raise Undecided('depth written with %s in %s' % (ev['op'], name))
                    for ef_ in effects[nd0:]:
                        if ef_[0] == 'depth':
                            _DLOC['delta'] += ef_[1]
                        else:
                            _DLOC['map'] = {}
                elif _is_rec_field(lhs, rec, 'active'):
                    v = util.const_int(ev['rhs'], P.enums) if ev['op'] == '=' else None
                    if v is None:
                        raise Undecided('active written with a non-constant in %s' % name)
                    effects.append(('active', bool(v)))
                elif _is_rec_field(lhs, rec, 'obj'):
                    r = ir.top_nocast(ev['rhs'])
                    effects.append(('obj', 'param%d' % r[2] if r[0] == 'param' else ir.fmt(r)))
                elif lhs[0] == 'idx' and _is_rec_field(lhs[1], rec, 'buffers'):
                    k = _depth_expr(P, lhs[2], rec)
                    r = ir.top_nocast(ev['rhs'])
                    if k is not None and ir.is_null(ev['rhs']):
                        effects.append(('clearbuf', k))
                    elif k is None or r[0] != 'param':
                        raise Undecided('buffer slot write not of the form buffers[depth+k] = param in %s' % name)
                    else:
                        effects.append(('setbuf', k))
                elif lhs[0] == 'arrow' and ir.top_nocast(lhs[1]) in rec and lhs[2] not in KNOWN_FIELDS and ev['op'] == '=' and util.const_int(ev['rhs'], P.enums) is not None:
                    effects.append(('state', lhs[2], util.const_int(ev['rhs'], P.enums)))
                elif lhs[0] in ('arrow', 'dot', 'idx', 'un'):
                    raise Undecided('write to `%s` in %s is outside the exception-record vocabulary' % (ir.fmt(lhs), name))
            elif t == 'call':
                nm = ev['name']
                if nm in PURE_CALLS:
                    continue
                if nm in P.noreturn:
                    continue   # handled as terminator
                if nm == 'print_to_with' and ev['args'] and _is_rec_field(ev['args'][0], rec, 'msg'):
                    effects.append(('msg',))
                elif nm in ('fprintf', 'Exception_Error', 'Exception_Backtrace'):
                    effects.append(('diag',))     # only reports (when it does not terminate it is an ordinary call)
                else:
                    raise Undecided('call to %s in %s is outside the exception-record vocabulary' % (nm, name))
            elif t == 'ret':
                e = ir.top_nocast(ev['expr']) if ev['expr'] is not None else None
                if e is None:
                    result = ('ret', 'void')
                elif ir.is_null(e):
                    result = ('ret', 'null')
                elif _is_rec_field(e, rec, 'obj'):
                    result = ('ret', 'obj')
                else:
                    result = ('ret', 'other', ir.fmt(e))
            elif t == 'term':
                why = ev['why']
                call = [c for c in ir.calls(ev['node']['expr']) if ir.callee_name(c) in P.noreturn][-1]
                if why[0] == 'longjmp':
                    a0 = ir.top_nocast(call[2][0])
                    ok = a0[0] == 'un' and a0[1] == '*' and ir.top_nocast(a0[2])[0] == 'call' and \
                        ir.callee_name(ir.top_nocast(a0[2])) == 'Exception_Buffer' and \
                        ir.top_nocast(ir.top_nocast(a0[2])[2][0]) in rec
                    if not ok and a0[0] == 'un' and a0[1] == '*':
                        # the same slot spelled out: *record->buffers[record->depth - 1]
                        t0 = ir.top_nocast(a0[2])
                        ok = t0[0] == 'idx' and _is_rec_field(t0[1], rec, 'buffers') and _depth_expr(P, t0[2], rec) == -1
                    v = util.const_int(call[2][1], P.enums)
                    if not ok:
                        raise Undecided('longjmp target in %s is not *Exception_Buffer(record)' % name)
                    result = ('jump', v)
                elif why[0] == 'Exception_Error':
                    result = ('fatal',)
                elif why[0] == 'abort':
                    result = ('abort',)
                else:
                    result = ('term', why)
            elif t == 'exit' and result is None:
                result = ('ret', 'void')
        if infeasible:
            continue
        out.append({'guards': guards, 'effects': effects, 'result': result,
                    'desc': util.describe_path(g, path), 'end_line': path[-1][0]['line'] if path[-1][0]['kind'] != 'exit' else (path[-2][0]['line'] if len(path) > 1 else None)})
    return out


# ---------------------------------------------------------------------------
# abstract machine

class Jump(Exception):
    def __init__(self, frame):
        self.frame = frame


class Fatal(Exception):
    pass


class Abort(Exception):
    pass


class Refuted(Exception):
    def __init__(self, msg):
        self.msg = msg


MAXD = 2048


class Machine:
    def __init__(self, summ, maxdepth, init_depth=0):
        self.s = summ
        self.depth = init_depth
        self.base = init_depth
        self.active = False
        self.obj = None
        self.bufs = {}
        self.trace = []
        self.diag = 0
        self.steps = 0
        self.maxdepth = maxdepth
        self.live_frames = []
        self.extra = {}       # further fields of the record the code tests (as the constructor leaves them: 0)

    def _eval(self, atom, filt):
        if atom == 'active':
            return self.active
        if atom[0] == 'depth':
            op, v = atom[1], atom[2]
            d = self.depth
            if v == self.maxdepth:      # the overflow bound: never reached by bounded programs
                v = 10 ** 6
            return {'==': d == v, '!=': d != v, '>=': d >= v, '<': d < v, '>': d > v, '<=': d <= v}[op]
        if atom[0] == 'state':
            return bool(self.extra.get(atom[1], 0))
        if atom[0] == 'nstate':
            return not self.extra.get(atom[1], 0)
        if atom[0] == 'nargs0':
            r = (filt is not None and len(filt) == 0)
            return r if atom[1] else not r
        return None   # loop atoms handled by _select

    def _select(self, name, filt=None):
        cands = []
        want_match = filt is not None and self.obj in filt
        for p in self.s[name]:
            ok = True
            loop = [(a, v) for (a, v) in p['guards'] if a[0] in ('more_args', 'match')]
            for (a, v) in p['guards']:
                if a[0] in ('more_args', 'match'):
                    continue
                if self._eval(a, filt) != v:
                    ok = False
                    break
            if not ok:
                continue
            if loop:
                has_match = any(a[0] == 'match' and v for a, v in loop)
                if want_match:
                    if not has_match:
                        continue
                else:
                    if has_match:
                        continue
                    # must leave the loop through exhaustion
                    last_more = [v for a, v in loop if a[0] == 'more_args']
                    if not last_more or last_more[-1] is not False:
                        continue
                    if filt is not None and len(filt) > 0 and not any(a[0] == 'match' for a, v in loop):
                        continue   # zero-iteration path is infeasible with a non-empty filter
            cands.append(p)
        if not cands:
            raise Undecided('no path of %s is feasible in abstract state depth=%d active=%s' % (name, self.depth, self.active))
        sig = {(tuple(p['effects']), p['result']) for p in cands}
        if len(sig) != 1:
            raise Undecided('paths of %s disagree in abstract state depth=%d active=%s: %s' % (name, self.depth, self.active, sig))
        return cands[0]

    def apply(self, name, filt=None, frame=None, thrown=None, badfmt=False):
        self.steps += 1
        p = self._select(name, filt)
        for ef in p['effects']:
            if ef[0] == 'state':
                self.extra[ef[1]] = ef[2]
            elif ef[0] == 'msg' and badfmt:
                # the message has fewer arguments than its format names: formatting it raises FormatError from inside this throw
                self.apply('exception_throw', thrown='FormatError')
                raise Refuted('the FormatError raised while formatting the message returned normally')
            elif ef[0] == 'depth':
                self.depth += ef[1]
                if self.depth < 0:
                    raise Refuted('%s drives the nesting depth below zero' % name)
            elif ef[0] == 'depth_set':
                self.depth = ef[1]
            elif ef[0] == 'active':
                self.active = ef[1]
            elif ef[0] == 'obj':
                if ef[1] != 'param0':
                    raise Refuted('%s stores `%s`, not the thrown object, as the pending exception' % (name, ef[1]))
                self.obj = thrown
            elif ef[0] == 'setbuf':
                self.bufs[self.depth + ef[1]] = frame
            elif ef[0] == 'clearbuf':
                self.bufs[self.depth + ef[1]] = None
            elif ef[0] == 'diag':
                self.diag += 1
        r = p['result']
        if r[0] == 'jump':
            if not r[1]:
                raise Refuted('%s calls longjmp with value 0 / non-constant' % name)
            # Exception_Buffer: buffers[depth-1], abort on depth 0 (checked separately)
            tgt = self.bufs.get(self.depth - 1)
            if self.depth == 0:
                raise Abort()
            if tgt is None and self.depth - 1 < self.base:
                raise Refuted('%s jumps through buffer slot %d, which no try block ever filled (the record starts at depth %d): a jump through a NULL buffer' % (name, self.depth - 1, self.base))
            raise Jump(tgt)
        if r[0] == 'fatal':
            raise Fatal()
        if r[0] == 'abort':
            raise Abort()
        if r[0] == 'term':
            raise Fatal()
        return r


def run_machine(M, prog):
    """prog: list of statements; ('throw', k) | ('try', id, body, filter, handler)"""
    for st in prog:
        if st[0] == 'throw':
            M.apply('exception_throw', thrown=st[1].rstrip('!'), badfmt=st[1].endswith('!'))
            raise Refuted('exception_throw returned normally')
        _, tid, body, filt, handler = st
        d0 = M.depth
        M.apply('exception_try', frame=tid)
        M.live_frames.append(tid)
        jumped = False
        try:
            run_machine(M, body)
        except Jump as j:
            if j.frame != tid:
                M.live_frames.pop()
                if j.frame not in M.live_frames:
                    raise Refuted('longjmp to the buffer of try block %s, which is not an enclosing active block '
                                  '(stale or missing jump buffer)' % (j.frame,))
                raise
            jumped = True
        M.live_frames.pop()
        if jumped:
            M.apply('exception_try_fail')
        M.apply('exception_try_end')
        r = M.apply('exception_catch', filt=filt)
        if r[1] == 'obj':
            M.trace.append((tid, M.obj))
            run_machine(M, handler)
        elif r[1] != 'null':
            raise Refuted('exception_catch returned `%s`' % (r[2] if len(r) > 2 else r[1]))
        if M.depth != d0:
            raise Refuted('nesting depth after try block %s is %d, was %d before' % (tid, M.depth, d0))


def run_reference(prog, trace):
    """block-structured semantics: returns None (normal) or the raised kind"""
    for st in prog:
        if st[0] == 'throw':
            # (a throw whose message lacks an argument raises FormatError instead)
            return 'FormatError' if st[1].endswith('!') else st[1]
        _, tid, body, filt, handler = st
        r = run_reference(body, trace)
        if r is None:
            continue
        if len(filt) == 0 or r in filt:
            trace.append((tid, r))
            r2 = run_reference(handler, trace)
            if r2 is not None:
                return r2
        else:
            return r
    return None


def gen_programs(budget, depth, kinds, filters):
    """all statement lists with at most `budget` try blocks in total, nesting
    <= depth, at most two statements per block, a throw only in last position
    (nothing after a throw in the same block can run)."""
    def block(b, d):
        # yields (stmts, tries_used)
        yield [], 0
        for k in kinds:
            yield [('throw', k)], 0
        if b <= 0 or d <= 0:
            return
        for t1, u1 in trys(b, d):
            yield [t1], u1
            for k in kinds:
                yield [t1, ('throw', k)], u1
            if b - u1 > 0:
                for t2, u2 in trys(b - u1, d):
                    yield [t1, t2], u1 + u2

    def trys(b, d):
        for body, ub in block(b - 1, d - 1):
            for h, uh in block(b - 1 - ub, d - 1):
                for f in filters:
                    yield ('try', None, body, f, h), 1 + ub + uh
    for blk, _ in block(budget, depth):
        yield blk


def label(prog, c=None):
    c = c if c is not None else itertools.count(1)
    out = []
    for st in prog:
        if st[0] == 'throw':
            out.append(st)
        else:
            tid = next(c)
            out.append(('try', tid, label(st[2], c), st[3], label(st[4], c)))
    return out


def show_prog(prog):
    out = []
    for st in prog:
        if st[0] == 'throw':
            out.append('throw(%s)' % st[1])
        else:
            f = ','.join(sorted(st[3])) if st[3] else ''
            out.append('try#%s{%s}catch(%s){%s}' % (st[1], show_prog(st[2]), f, show_prog(st[4])))
    return '; '.join(out)


# ---------------------------------------------------------------------------
# the rules

def check_skeleton(P, ctx):
    rule = 'C07.skeleton'
    for wname, expect_filter in (('w_try_catch_filter', ('TypeError', 'KeyError')), ('w_try_catch_all', ())):
        f = P.fn(wname)
        g = P.cfg(f)
        ctx.fn(f)

        def call_nodes(nm):
            return [n for (n, c) in g.nodes_calling(nm)]
        tr, fl, en, ca, us, hd = (call_nodes(x) for x in ('exception_try', 'exception_try_fail',
                                                        'exception_try_end', 'exception_catch', 'w_user_call', 'w_handler'))
        sj = [n for n in g.live() if n['kind'] == 'cond' and any(ir.callee_name(c) in ('_setjmp', 'setjmp', '__sigsetjmp') for c in ir.calls(n['expr']))]
        s = site(f)
        if not (len(tr) == 1 and len(sj) == 1 and len(us) == 1 and len(ca) == 1 and len(hd) == 1):
            ctx.undecided(rule, wname + ':shape', s, 'try/catch expansion no longer has one try, one setjmp, one catch')
            continue
        tr, sj, us, ca, hd = tr[0], sj[0], us[0], ca[0], hd[0]
        # env passed to exception_try is the one given to setjmp
        c_try = [c for c in ir.calls(tr['expr']) if ir.callee_name(c) == 'exception_try'][0]
        c_sj = ir.calls(sj['expr'])[0]
        a_try = ir.top_nocast(c_try[2][0])
        same_env = a_try[0] == 'un' and a_try[1] == '&' and ir.top_nocast(a_try[2]) == ir.top_nocast(c_sj[2][0])
        ctx.check(same_env, rule, wname + ':same-env', s, 'the jmp_buf registered with exception_try is the one setjmp fills')
        envd = [d for st in ir.stmts(f['body']) if st['k'] == 'decl' for d in st['decls'] if ('local', d['name'], d['id']) == ir.top_nocast(c_sj[2][0])]
        ctx.check(len(envd) == 1 and not envd[0]['static'], rule, wname + ':env-per-activation', s,
                  'the jump buffer is an automatic variable of the try block (one per activation): a shared (static/global) buffer is overwritten '
                  'when the same block is entered again while still active, so a re-raise jumps to the wrong or a dead frame')
        ctx.check(g.must_pass(sj['id'], [tr['id']]), rule, wname + ':try-before-setjmp', s,
                  'exception_try dominates setjmp')
        # body runs only on the direct (0) return of setjmp, fail only on the longjmp return
        body_edge_ok = g.must_pass(us['id'], through_edges=[(sj['id'], False)]) and \
            us['id'] not in g.reach_from(g.entry, cut_edges=[(sj['id'], False)])
        ctx.check(body_edge_ok, rule, wname + ':body-on-direct-return', s, 'the try body runs only when setjmp returned 0')
        fl_ok = len(fl) == 1 and g.must_pass(fl[0]['id'], through_edges=[(sj['id'], True)]) and \
            fl[0]['id'] not in g.reach_from(us['id'])
        ctx.check(fl_ok, rule, wname + ':fail-on-longjmp-arm-only', s,
                  'exception_try_fail is called on the longjmp arm and never after a normally completed body')
        fail_all = len(fl) == 1 and g.must_pass(ca['id'], [fl[0]['id']], start=sj['succ'][[l for _, l in sj['succ']].index(True)][0]) if len(fl) == 1 else False
        ctx.check(fail_all, rule, wname + ':longjmp-arm-marks-failure', s,
                  'every path from the longjmp arm to the catch passes exception_try_fail')
        # try_end exactly once on every path setjmp -> catch
        n_end_ok = len(en) == 1 and g.must_pass(ca['id'], [en[0]['id']], start=sj['id'])
        ctx.check(n_end_ok, rule, wname + ':end-once-before-catch', s,
                  'exception_try_end is passed exactly once on both arms before exception_catch')
        # handler loop: binds the catch result, runs while non-null, reset to NULL afterwards
        tgt = ir.top_nocast(ca['expr'])
        bound = tgt[2] if tgt[0] == 'assign' else None
        conds = [n for n in g.live() if n['kind'] == 'cond' and n['id'] != sj['id']]
        loop_ok = False
        if bound is not None and len(conds) == 1:
            c = ir.canon(conds[0]['expr'])
            want = ir.canon(('bin', '!=', bound, ('int', 0)))
            resets = [n for n in g.live() if n['kind'] == 'stmt' and n.get('loop_inc') and
                      ir.top_nocast(n['expr'])[0] == 'assign' and ir.top_nocast(n['expr'])[2] == bound and ir.is_null(ir.top_nocast(n['expr'])[3])]
            handler_guard = g.must_pass(hd['id'], through_edges=[(conds[0]['id'], True)])
            back = resets and all(g.must_pass(conds[0]['id'], [r['id'] for r in resets], start=hd['id']) for _ in [0])
            loop_ok = c == want and bool(resets) and handler_guard and back
        ctx.check(loop_ok, rule, wname + ':handler-runs-at-most-once', s,
                  'handler is guarded by (caught != NULL), bound to exception_catch\'s result, and the variable is reset to NULL after one run')
        # filter tuple
        c_catch = [c for c in ir.calls(ca['expr']) if ir.callee_name(c) == 'exception_catch'][0]
        tp = ir.as_tuple(c_catch[2][0])
        filt_ok = tp is not None and tuple(x[1] for x in tp) == expect_filter
        ctx.check(filt_ok, rule, wname + ':filter-passed', s, 'the catch filter list is handed to exception_catch unchanged (%s)' % (expect_filter,))
    # throw expansion
    f = P.fn('w_throw')
    g = P.cfg(f)
    terms = [n for n in g.live() if n['kind'] == 'term']
    ok = len(terms) == 1 and terms[0]['why'] == ('throw', 'ValueError')
    if ok:
        c = [c for c in ir.calls(terms[0]['expr']) if ir.callee_name(c) == 'exception_throw'][0]
        tp = ir.as_tuple(c[2][2])
        ok = tp is not None and len(tp) == 1 and tp[0] == ('param', 'x', 0) and ir.top_nocast(c[2][1])[0] == 'str'
    ctx.check(ok, rule, 'w_throw:expansion', site(f), 'throw(E, fmt, args...) calls exception_throw(E, fmt, tuple(args...)) and does not return')
    ctx.floor(rule, 19)


def check_functions(P, ctx, summ):
    rule = 'C07.record-ops'
    ex = P.fn('exception_try')
    # exception_try
    ps = summ['exception_try']
    normal = [p for p in ps if p['result'][0] == 'ret']
    ok = bool(normal)
    for p in normal:
        ef = p['effects']
        incs = [e for e in ef if e[0] == 'depth']
        ok = ok and incs == [('depth', 1)] and ('active', False) in ef and ('setbuf', -1) in ef and \
            ef.index(('setbuf', -1)) > ef.index(('depth', 1))
    ctx.check(ok, rule, 'exception_try:push', site(ex),
              'every normal path pushes exactly one buffer (depth+1, buffers[depth-1]=env after the increment) and clears `active`')
    def feasible(p_, d_):
        # the path's tests on the depth, evaluated for a concrete depth (tests on anything else do not restrict)
        for a, v in p_['guards']:
            if a[0] == 'depth' and isinstance(a[2], int) and a[1] in ('==', '!=', '<', '<=', '>', '>='):
                t_ = {'==': d_ == a[2], '!=': d_ != a[2], '<': d_ < a[2], '<=': d_ <= a[2], '>': d_ > a[2], '>=': d_ >= a[2]}[a[1]]
                if t_ != bool(v):
                    return False
        return True
    MAXD = P.enums.get('EXCEPTION_MAX_DEPTH')
    if MAXD is None:
        MAXD = max([a[2] for p_ in ps for a, v in p_['guards'] if a[0] == 'depth' and isinstance(a[2], int)] or [0])
    guard = bool(MAXD) and all(p_['result'] == ('abort',) for p_ in ps if feasible(p_, MAXD)) and any(feasible(p_, MAXD) for p_ in ps) and \
        all(p_['result'][0] == 'ret' for d_ in (0, 1, MAXD - 1) for p_ in ps if feasible(p_, d_))
    ctx.check(guard, rule, 'exception_try:overflow-guard', site(ex), 'a full buffer stack aborts before the push (paths evaluated for depth 0, 1, max-1 and max)')
    # exception_try_end
    fe = P.fn('exception_try_end')
    ps = summ['exception_try_end']
    normal = [p for p in ps if p['result'][0] == 'ret']
    ok = bool(normal) and all([e for e in p['effects'] if e[0] in ('depth', 'depth_set')] == [('depth', -1)] for p in normal) and \
        all(not any(e[0] in ('active', 'obj', 'setbuf') for e in p['effects']) for p in normal)
    ctx.check(ok, rule, 'exception_try_end:pop', site(fe), 'every normal path pops exactly one buffer and touches nothing else')
    guard = any(feasible(p_, 0) for p_ in ps) and all(p_['result'] == ('abort',) for p_ in ps if feasible(p_, 0)) and \
        all(p_['result'][0] == 'ret' for d_ in (1, 2, 2048) for p_ in ps if feasible(p_, d_))
    ctx.check(guard, rule, 'exception_try_end:underflow-guard', site(fe), 'depth 0 aborts instead of wrapping around (paths evaluated for depth 0, 1, 2, 2048)')
    # exception_try_fail
    ff = P.fn('exception_try_fail')
    ps = summ['exception_try_fail']
    ok = all(p['result'][0] == 'ret' and [e for e in p['effects'] if e[0] != 'diag'] == [('active', True)] for p in ps)
    ctx.check(ok, rule, 'exception_try_fail:marks', site(ff), 'sets `active` on every path and nothing else')
    # exception_throw
    ft = P.fn('exception_throw')
    ps = summ['exception_throw']
    ok = all(p['result'][0] in ('jump', 'fatal') for p in ps)
    ctx.check(ok, rule, 'exception_throw:never-returns', site(ft), 'every path ends in a jump to the innermost buffer or the fatal report')
    # (paths taken only in a state the constructor does not leave — a further field set — are judged by the protocol exploration)
    ps0 = [p for p in ps if not any((a[0] == 'state' and v) or (a[0] == 'nstate' and not v) for a, v in p['guards'])]
    ok = bool(ps0) and all(('obj', 'param0') in p['effects'] and ('msg',) in p['effects'] for p in ps0)
    ctx.check(ok, rule, 'exception_throw:records-object', site(ft), 'the thrown object and formatted message are recorded on every path')
    ok = all((p['result'][0] == 'jump') == any(a[0] == 'depth' and ((a[1] == '>=' and a[2] == 1 and v) or (a[1] == '>' and a[2] == 0 and v) or
                                                                   (a[1] == '==' and a[2] == 0 and not v) or (a[1] == '!=' and a[2] == 0 and v))
                                             for a, v in p['guards']) for p in ps) and \
        not any(e[0] in ('depth', 'depth_set', 'active') for p in ps for e in p['effects'])
    ctx.check(ok, rule, 'exception_throw:jump-iff-nested', site(ft), 'jumps exactly when a try block is active (depth >= 1), else reports; depth/active untouched')
    # Exception_Buffer
    fb = P.fn('Exception_Buffer', required=False)
    if fb is None:
        # no accessor any more: every longjmp names the slot itself (the path summaries accept only *record->buffers[record->depth - 1],
        # and the jump-iff-nested obligations put each jump under depth >= 1)
        ctx.proved(rule, 'Exception_Buffer:innermost', site(ft), 'every jump goes through buffers[depth-1] (spelled out at the longjmp sites), under a test that depth is at least 1')
    g = P.cfg(fb) if fb is not None else None
    rec = {('param', fb['params'][0][0], 0)} if fb is not None else set()
    rets = [n for n in g.live() if n['kind'] == 'ret'] if fb is not None else []
    ok = len(rets) == 1
    if ok:
        r = ir.top_nocast(rets[0]['expr'])
        ok = r[0] == 'idx' and _is_rec_field(r[1], rec, 'buffers') and _depth_expr(P, r[2], rec) == -1
        guards = [n for n in g.live() if n['kind'] == 'cond']
        ok = ok and len(guards) == 1 and ir.canon(guards[0]['expr']) == ir.canon(('bin', '==', ('arrow', ('param', fb['params'][0][0], 0), 'depth'), ('int', 0))) and \
            g.must_pass(rets[0]['id'], through_edges=[(guards[0]['id'], False)])
    if fb is not None:
        ctx.check(ok, rule, 'Exception_Buffer:innermost', site(fb), 'returns buffers[depth-1], guarded against depth 0')
    # Exception_Error: diagnostic + failure status
    fr = P.fn('Exception_Error')
    g = P.cfg(fr)
    ctx.fn(fr)
    terms = [n for n in g.live() if n['kind'] == 'term']
    ok = bool(terms) and not g.returns_normally()
    for t in terms:
        c = [c for c in ir.calls(t['expr']) if ir.callee_name(c) == 'exit']
        if not c:
            ok = False
            continue
        a = ir.top_nocast(c[0][2][0])
        v = util.const_int(a, P.enums)
        ok = ok and v is not None and v != 0
    ctx.check(ok, rule, 'Exception_Error:failure-status', site(fr), 'every path ends in exit with a non-zero constant status')
    diag = []
    for n in g.live():
        if n['expr'] is None:
            continue
        for c in ir.calls(n['expr']):
            if ir.callee_name(c) == 'print_to_with':
                st = ir.as_stack(c[2][0])
                if st and st[0] == 'File' and ir.top_nocast(st[1][0]) == ('global', 'stderr'):
                    # mentions the object or the message
                    tp = ir.as_tuple(c[2][3])
                    if tp and any(x[0] == 'arrow' and x[2] in ('obj', 'msg') for x in tp):
                        diag.append(n['id'])
    ok = bool(diag) and all(g.must_pass(t['id'], diag) for t in terms)
    ctx.check(ok, rule, 'Exception_Error:diagnostic', site(fr), 'the exception object / message is printed to stderr before exit on every path')
    # exception_catch
    fc = P.fn('exception_catch')
    ps = summ['exception_catch']
    inactive = [p for p in ps if ('active', False) in p['guards']]
    ok = bool(inactive) and all(p['result'] == ('ret', 'null') and not p['effects'] for p in inactive)
    ctx.check(ok, rule, 'exception_catch:inactive-null', site(fc), 'with no pending exception: returns NULL, changes nothing')
    act = [p for p in ps if ('active', True) in p['guards']]
    ok = len(act) + len(inactive) == len(ps)
    ctx.check(ok, rule, 'exception_catch:active-tested-first', site(fc), 'every path tests `active` first')
    hits = [p for p in act if p['result'][0] == 'ret']
    ok = bool(hits) and all(p['result'] == ('ret', 'obj') for p in hits) and \
        all(any((a[0] == 'nargs0' and a[1] == v) or (a[0] == 'match' and v) for a, v in p['guards']) for p in hits)
    ctx.check(ok, rule, 'exception_catch:hit-returns-thrown-object', site(fc),
              'a handler is selected only for an empty filter or an eq-matching filter entry, and receives the recorded object')
    for p in hits:
        kind = 'catch-all' if any(a[0] == 'nargs0' for a, v in p['guards'] if (a[1] == v if a[0] == 'nargs0' else False)) else 'filter-match'
        ctx.check(('active', False) in p['effects'], rule, 'exception_catch:consumes:' + kind, '%s:%s (exception_catch)' % (fc['file'], p['end_line']),
                  'the handled exception is consumed (`active` cleared) before the handler runs; otherwise an enclosing catch fires again',
                  p['desc'])
    miss = [p for p in act if p['result'][0] != 'ret']
    ok = bool(miss) and all(p['result'][0] in ('jump', 'fatal') for p in miss) and \
        all(not any(e[0] in ('depth', 'depth_set', 'obj') for e in p['effects']) for p in miss) and \
        all(not any(a[0] == 'match' and v for a, v in p['guards']) for p in miss)
    ctx.check(ok, rule, 'exception_catch:miss-reraises', site(fc), 'an unmatched exception is re-raised to the enclosing buffer (or reported), object and depth unchanged')
    # the match loop is a foreach over the filter argument
    g = P.cfg(fc)
    arg_inits = [n for n in g.live() if n['kind'] == 'stmt' and n.get('decl') and n['decl']['init'] is not None and
                 ir.top_nocast(n['decl']['init'])[0] == 'param']
    ok = any(ir.top_nocast(n['decl']['init'])[2] == 0 for n in arg_inits)
    ctx.check(ok, rule, 'exception_catch:loop-over-filter', site(fc), 'the match loop iterates the filter tuple passed by the catch macro')
    ctx.floor(rule, 16)


def check_writers(P, ctx):
    """who may write the `active` / `depth` fields of the record"""
    rule = 'C07.writers'
    allowed = {'active': {'Exception_New', 'Exception_Assign', 'exception_try', 'exception_try_fail', 'exception_catch'},
               'depth': {'Exception_New', 'Exception_Assign', 'exception_try', 'exception_try_end'}}
    u = P.units['src/Exception.c']
    n = 0
    for fname, f in u['functions'].items():
        for e, ln in ir.all_exprs(f['body']):
            for ev in util.expr_events(e, None):
                if ev['t'] != 'write':
                    continue
                fld = util.field_name(ev['lhs'])
                if fld in allowed:
                    n += 1
                    ctx.check(fname in allowed[fld], rule, '%s:%s' % (fname, fld), site(f, ln),
                              'field `%s` of the exception record is written only by the push/pop/fail/consume operations and the constructor' % fld)
    ctx.floor(rule, 7)


def check_protocol(P, ctx, summ, budget, depth, kinds=('A', 'B', 'A!'),
                   filters=(frozenset(), frozenset({'A'}), frozenset({'B'}), frozenset({'A', 'B'}), frozenset({'FormatError'})), key='block-structure', rule='C07.protocol'):
    # 'A!': a throw of A whose message names more arguments than it is given — formatting it raises FormatError from inside the throw
    f = P.fn('exception_catch')
    nprog = 0
    steps = 0
    first_bad = None
    nbad = 0
    # the depth a fresh exception record starts with (Exception_New)
    init_depth = 0
    fnew = P.fn('Exception_New', required=False)
    if fnew is not None:
        for e_, _ in ir.all_exprs(fnew['body']):
            for ev in util.expr_events(e_, None):
                if ev['t'] == 'write' and ev['op'] == '=' and util.field_name(ev['lhs']) == 'depth' and util.const_int(ev['rhs'], P.enums) is not None:
                    init_depth = util.const_int(ev['rhs'], P.enums)
    for prog in gen_programs(budget, depth, kinds, filters):
        prog = label(prog)
        nprog += 1
        rt = []
        rres = run_reference(prog, rt)
        M = Machine(summ, P.enums.get('EXCEPTION_MAX_DEPTH', MAXD), init_depth=init_depth)
        bad = None
        try:
            run_machine(M, prog)
            mres = None
        except Fatal:
            mres = 'fatal'
        except Abort:
            mres = 'abort'
        except Jump as j:
            bad = 'longjmp to try block %s after it was left' % (j.frame,)
            mres = 'jump'
        except Refuted as r:
            bad = r.msg
            mres = 'refuted'
        steps += M.steps
        if bad is None:
            if rres is None and mres is not None:
                bad = 'reference: completes normally; code-derived machine: %s' % mres
            elif rres is not None and mres != 'fatal':
                bad = 'reference: uncaught %s terminates the program with a failure report; machine: %s' % (rres, mres)
            elif M.trace != rt:
                bad = 'handlers run (block, exception): reference %s, code-derived machine %s' % (rt, M.trace)
            elif rres is None and (M.depth != 0):
                bad = 'final depth %d' % M.depth
        if bad:
            nbad += 1
            sp = show_prog(prog)
            if first_bad is None or len(sp) < len(first_bad[0]):
                first_bad = (sp, bad)
    ctx.stats['paths'] += nprog
    ctx.note('protocol: %d program trees (<=%d try blocks, nesting<=%d, kinds %s, %d filters), %d summary applications' % (nprog, budget, depth, kinds, len(filters), steps))
    if first_bad:
        # classify: is it the "handled exception fires again" family?
        ctx.refuted(rule, key, site(f),
                    'the abstract machine built from the exception_* summaries disagrees with block-structured semantics on %d of %d program trees' % (nbad, nprog),
                    ['smallest counterexample: ' + first_bad[0], first_bad[1]])
    else:
        ctx.proved(rule, key, site(f),
                   'code-derived machine agrees with block-structured semantics on all %d program trees' % nprog)
    ctx.floor(rule, 1)
    return nprog, steps


def run(ctx, load):
    P = load(UNITS, 'default', [WITNESS])
    ctx.stats['units'] = set(UNITS) | {'witness/macros.c', 'include/Cello.h'}
    ctx.stats['configs'] = ['default']
    check_skeleton(P, ctx)
    summ = {}
    try:
        for nm in ('exception_try', 'exception_try_end', 'exception_try_fail', 'exception_throw', 'exception_catch'):
            summ[nm] = summarise(P, nm, ctx)
    except Undecided as u:
        ctx.undecided('C07.summary', 'vocabulary', 'src/Exception.c', str(u))
        return
    check_functions(P, ctx, summ)
    check_writers(P, ctx)
    try:
        check_protocol(P, ctx, summ, 2, 2)
        if ctx.tier == 'thorough':
            check_protocol(P, ctx, summ, 3, 3, kinds=('A', 'B'), filters=(frozenset(), frozenset({'A'}), frozenset({'B'}), frozenset({'A', 'B'})), key='block-structure:3-deep')
            check_protocol(P, ctx, summ, 3, 3, kinds=('A', 'A!'), filters=(frozenset(), frozenset({'A'}), frozenset({'FormatError'})), key='block-structure:3-deep-malformed')
    except Undecided as u:
        ctx.undecided('C07.protocol', 'machine', 'src/Exception.c', str(u))
    # a filter entry matches a thrown kind by eq: eq must be cmp == 0 and two exception kinds (Type records) must compare equal exactly
    # when they are the same kind — by name, whether or not they are one object (a kind declared in a header is one object per unit)
    Pm = load(['src/Cmp.c', 'src/Type.c', 'src/Exception.c'], 'default')
    from .rules_c09 import check_predicates
    from . import evals
    ctx.borrow('C07.filter-match', 1, lambda: check_predicates(Pm, ctx), only=lambda o: o['key'] == 'eq')
    evals.report_type_cmp(Pm, ctx, 'C07.filter-match', site, what=('cmp',))
    ctx.floor('C07.filter-match', 2)
    # a throw formats its message before it jumps: if the formatter itself raises on a well-formed message (a literal `%%`, say) the handlers
    # see that exception instead of the thrown one (print_to_with evaluated, shared with C14)
    from .rules_c14 import check_print
    Pp = load(None, 'default')
    ctx.borrow('C07.message-formatting', 8, lambda: check_print(Pp, ctx))
    # every run of a thread gets its own exception record, created before the user function and deleted after it (shared with C06.teardown)
    from . import rules_c06
    from .rules_c06 import check_teardown
    Pt = load(rules_c06.UNITS, 'default', rules_c06.WITNESS)
    ctx.borrow('C07.record-per-thread-run', 1, lambda: check_teardown(Pt, ctx), only=lambda o: o['key'] in ('Thread_Init_Run', 'Exception_Del', 'Exception_New') or 'Thread' in o['key'] or 'Exception' in o['key'])
    ctx.config = 'default'


EXPLANATION = (
    'Decided: (1) the try/catch/throw macro expansions (witness unit compiled against the current Cello.h) have the '
    'block skeleton: buffer registered before setjmp, body only on the direct return, failure mark only on the longjmp arm, '
    'exactly one pop before the catch, handler bound to the catch result and run at most once, filter passed unchanged; '
    '(2) every path of exception_try/_try_end/_try_fail/_throw/_catch, Exception_Buffer and Exception_Error is summarised over '
    'the abstract record (depth, active, object, buffer stack) and checked against per-operation obligations (push/pop pairing, '
    'overflow/underflow guards, never-returning throw, innermost-buffer jump, consume-on-catch, re-raise on miss, diagnostic + '
    'non-zero exit when uncaught); (3) an abstract machine whose only transitions are those code-derived summaries is compared '
    'with block-structured reference semantics on every try/throw/catch program tree up to the bound (handlers run, bound object, '
    'depth restored, termination). Not decided: programs that leave a try body by return/break (outside the documented contract); '
    'signal-raised exceptions; the C library\'s setjmp/longjmp themselves.')
