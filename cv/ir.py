"""Expression / statement IR helpers: traversal, cast stripping, pretty printing,
canonicalisation."""

ATOMS = ('int', 'float', 'str', 'param', 'local', 'global', 'func', 'enum', 'zero', 'type',
         'offsetof', 'ref', 'other', 'stmtexpr', 'opaque')


def is_expr(e):
    return isinstance(e, tuple) and e and isinstance(e[0], str)


def children(e):
    """direct sub-expressions"""
    if not is_expr(e):
        return []
    k = e[0]
    if k in ATOMS:
        return []
    if k in ('cast', 'icast'):
        return [e[2]]
    if k in ('arrow', 'dot'):
        return [e[1]]
    if k == 'call':
        return [e[1]] + list(e[2])
    if k in ('bin', 'assign'):
        return [e[2], e[3]]
    if k == 'un':
        return [e[2]]
    if k == 'idx':
        return [e[1], e[2]]
    if k == 'cond':
        return [e[1], e[2], e[3]]
    if k in ('sizeof', 'alignof', '__alignof'):
        return [e[2]] if len(e) > 2 and e[2] is not None else []
    if k == 'compound':
        return [e[2]] if e[2] is not None else []
    if k in ('initlist', 'designated'):
        return list(e[1])
    if k == 'va_arg':
        return [e[1]] if e[1] is not None else []
    return []


def walk(e):
    """pre-order over all sub-expressions including e"""
    if not is_expr(e):
        return
    yield e
    for c in children(e):
        yield from walk(c)


def rebuild(e, f):
    """bottom-up map: apply f to every node after mapping its children"""
    if not is_expr(e):
        return e
    k = e[0]
    if k in ATOMS:
        return f(e)
    if k in ('cast', 'icast'):
        return f((k, e[1], rebuild(e[2], f)))
    if k in ('arrow', 'dot'):
        return f((k, rebuild(e[1], f), e[2]) + tuple(e[3:]))
    if k == 'call':
        return f((k, rebuild(e[1], f), tuple(rebuild(a, f) for a in e[2])))
    if k in ('bin', 'assign'):
        return f((k, e[1], rebuild(e[2], f), rebuild(e[3], f)))
    if k == 'un':
        return f((k, e[1], rebuild(e[2], f)))
    if k == 'idx':
        return f((k, rebuild(e[1], f), rebuild(e[2], f)))
    if k == 'cond':
        return f((k, rebuild(e[1], f), rebuild(e[2], f), rebuild(e[3], f)))
    if k in ('sizeof', 'alignof', '__alignof'):
        if len(e) > 2:
            return f((k, e[1], rebuild(e[2], f)))
        return f(e)
    if k == 'compound':
        return f((k, e[1], rebuild(e[2], f)))
    if k in ('initlist', 'designated'):
        return f((k, tuple(rebuild(a, f) for a in e[1])))
    if k == 'va_arg':
        return f((k, rebuild(e[1], f)))
    return f(e)


def nocast(e):
    """strip every explicit and implicit cast"""
    def f(x):
        if x[0] in ('cast', 'icast'):
            return x[2]
        return x
    return rebuild(e, f)


def noicast(e):
    def f(x):
        if x[0] == 'icast':
            return x[2]
        return x
    return rebuild(e, f)


def top_nocast(e):
    if e is None:
        return ('none',)
    while is_expr(e) and e[0] in ('cast', 'icast'):
        e = e[2]
    return e


def calls(e, raw=False):
    """all call expressions inside e (pre-order). Unless raw, the memcpy/header_init
    scaffolding of `$(T, ...)` stack-object expansions is not reported (the
    field initialisers inside them still are)."""
    if raw:
        return [x for x in walk(e) if x[0] == 'call']
    out = []

    def visit(x):
        if not is_expr(x):
            return
        if x[0] == 'call':
            st = as_stack(x)
            if st is not None:
                for f in st[1]:
                    visit(f)
                return
            out.append(x)
        for c in children(x):
            visit(c)
    visit(e)
    return out


def callee_name(c):
    """name of a direct callee, or None for indirect calls"""
    f = top_nocast(c[1])
    if f[0] == 'func':
        return f[1]
    return None


def is_null(e):
    e = top_nocast(e)
    return e in (('int', 0), ('zero',))


def as_stack(e):
    """recognise the expansion of `$(T, ...)`:
    memcpy(header_init((char[N]){0}, T, AllocStack), &(struct T){...}, sizeof(struct T))
    -> (T, fields, alloc_class_expr, size_type) or None"""
    e = top_nocast(e)
    if e[0] != 'call' or callee_name(e) != 'memcpy' or len(e[2]) != 3:
        return None
    a0, a1, a2 = (top_nocast(x) for x in e[2])
    if a0[0] != 'call' or callee_name(a0) != 'header_init' or len(a0[2]) != 3:
        return None
    buf, ty, cls = (top_nocast(x) for x in a0[2])
    if buf[0] != 'compound' or ty[0] != 'global':
        return None
    if a1[0] != 'un' or a1[1] != '&' or a1[2][0] != 'compound':
        return None
    if a2[0] != 'sizeof':
        return None
    T = ty[1]
    if a1[2][1] != 'struct ' + T or a2[1] != ('type', 'struct ' + T):
        return None
    fields = a1[2][2][1] if a1[2][2] is not None else ()
    return (T, tuple(fields), cls, buf[1])


def as_tuple(e):
    """`tuple(a, b)` expansion -> (a, b) (without the Terminal), else None"""
    s = as_stack(e)
    if s is None or s[0] != 'Tuple' or len(s[1]) != 1:
        return None
    arr = top_nocast(s[1][0])
    if arr[0] != 'compound' or arr[2] is None or arr[2][0] != 'initlist':
        return None
    items = [top_nocast(x) for x in arr[2][1]]
    if not items or items[-1] != ('global', 'Terminal'):
        return None
    return tuple(items[:-1])


def fmt(e):
    """C-like rendering for reports"""
    if e is None:
        return ''
    if not is_expr(e):
        return str(e)
    k = e[0]
    if k == 'call':
        tp = as_tuple(e)
        if tp is not None:
            return 'tuple(%s)' % ', '.join(fmt(a) for a in tp)
        st = as_stack(e)
        if st is not None:
            return '$(%s)' % ', '.join([st[0]] + [fmt(a) for a in st[1]])
    if k == 'int':
        return str(e[1])
    if k == 'float':
        return str(e[1])
    if k == 'str':
        return repr(e[1]).replace("'", '"') if "'" not in e[1] else repr(e[1])
    if k == 'param' and isinstance(e[1], int):
        return 'arg%d' % e[1]
    if k in ('param', 'local', 'global', 'func', 'enum'):
        return str(e[1])
    if k == 'zero':
        return '0'
    if k == 'type':
        return e[1]
    if k in ('cast', 'icast'):
        return '(%s)%s' % (e[1], fmt(e[2])) if k == 'cast' else fmt(e[2])
    if k == 'arrow':
        return '%s->%s' % (fmt(e[1]), e[2])
    if k == 'dot':
        return '%s.%s' % (fmt(e[1]), e[2])
    if k == 'call':
        return '%s(%s)' % (fmt(e[1]), ', '.join(fmt(a) for a in e[2]))
    if k == 'bin':
        return '(%s %s %s)' % (fmt(e[2]), e[1], fmt(e[3]))
    if k == 'assign':
        return '%s %s %s' % (fmt(e[2]), e[1], fmt(e[3]))
    if k == 'un':
        op = e[1]
        if op.startswith('post'):
            return fmt(e[2]) + op[4:]
        if op.startswith('pre'):
            return op[3:] + fmt(e[2])
        return op + fmt(e[2])
    if k == 'idx':
        return '%s[%s]' % (fmt(e[1]), fmt(e[2]))
    if k == 'cond':
        return '(%s ? %s : %s)' % (fmt(e[1]), fmt(e[2]), fmt(e[3]))
    if k == 'sizeof':
        return 'sizeof(%s)' % fmt(e[1])
    if k == 'compound':
        return '(%s)%s' % (e[1], fmt(e[2]))
    if k == 'initlist':
        return '{%s}' % ', '.join(fmt(a) for a in e[1])
    return '<%s>' % k


# --------------------------------------------------------------------------
# statement traversal

def stmts(s):
    """pre-order over all statements"""
    if s is None:
        return
    yield s
    k = s['k']
    if k == 'block':
        for c in s['body']:
            yield from stmts(c)
    elif k == 'if':
        yield from stmts(s['then'])
        yield from stmts(s['els'])
    elif k in ('while', 'do', 'switch'):
        yield from stmts(s['body'])
    elif k == 'for':
        yield from stmts(s['init'])
        yield from stmts(s['body'])
    elif k in ('case', 'default'):
        yield from stmts(s['body'])


def stmt_exprs(s):
    """expressions directly owned by statement s (not by nested statements)"""
    k = s['k']
    if k == 'expr':
        return [s['expr']]
    if k == 'decl':
        return [d['init'] for d in s['decls'] if d['init'] is not None]
    if k in ('if', 'while', 'do', 'switch'):
        return [s['cond']]
    if k == 'for':
        return [x for x in (s['cond'], s['inc']) if x is not None]
    if k == 'return':
        return [s['expr']] if s['expr'] is not None else []
    if k == 'case':
        return [s['val']]
    return []


def all_exprs(body):
    """every top-level expression in a function body with its line"""
    for s in stmts(body):
        for e in stmt_exprs(s):
            yield e, s['line']


def all_calls(body, raw=False):
    for e, ln in all_exprs(body):
        for c in calls(e, raw):
            yield c, ln


# --------------------------------------------------------------------------
# canonicalisation

_COMM = {'+', '*', '&', '|', '^', '==', '!=', '&&', '||'}
_FLIP = {'<': '>', '>': '<', '<=': '>=', '>=': '<='}
_NEG = {'<': '>=', '>': '<=', '<=': '>', '>=': '<', '==': '!=', '!=': '=='}


def canon(e, rename=None):
    """canonical form: casts stripped, locals alpha-renamed through `rename`
    (id -> symbol), comparisons oriented to use < / <= only with operands kept,
    !(a op b) folded, commutative operands sorted."""
    rename = rename if rename is not None else {}

    def f(x):
        k = x[0]
        if k in ('cast', 'icast'):
            return x[2]
        if k == 'local':
            if len(x) == 2:
                return x
            return ('local', rename.get(x[2], x[1]))
        if k == 'param':
            if len(x) == 2:
                return x
            return ('param', x[2]) if x[2] >= 0 else x
        if k == 'zero':
            return ('int', 0)
        if k in ('arrow', 'dot'):
            if k == 'arrow' and x[1][0] == 'un' and x[1][1] == '&':
                return ('dot', x[1][2], x[2])            # (&a)->f  is  a.f
            return x[:3]
        if k == 'un' and x[1] == '*' and x[2][0] == 'un' and x[2][1] == '&':
            return x[2][2]                              # *&a  is  a
        if k == 'cond' and x[1][0] == 'int':
            return x[2] if x[1][1] else x[3]
        if k == 'bin':
            op, a, b = x[1], x[2], x[3]
            if op in ('>', '>='):
                op, a, b = _FLIP[op], b, a
            if op in _COMM and repr(b) < repr(a):
                a, b = b, a
            return ('bin', op, a, b)
        if k == 'un' and x[1] == '!':
            y = x[2]
            if y[0] == 'bin' and y[1] in _NEG:
                return f(('bin', _NEG[y[1]], y[2], y[3]))
            if y[0] == 'un' and y[1] == '!':
                return y[2]
        return x
    return rebuild(e, f)


def subst(e, mapping):
    """replace sub-expressions (exact match) by mapping"""
    def f(x):
        return mapping.get(x, x)
    return rebuild(e, f)
