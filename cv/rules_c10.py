"""C10 — equal values hash equally; copy and assign produce equal values; swap exchanges."""
from . import ir, util, loops, poly
from .report import site
from .front import AnalysisBroken
from .loops import NoEval
from .rules_c12 import guards_of, throw_only, succ_of

WITNESS_POS = '/verif/witness/positive/c10_address_hash.c'
INTEGRAL = {'unsigned long', 'long', 'unsigned int', 'int', 'unsigned long long', 'long long', 'unsigned short', 'short'}


def pointer_to_int_casts(P, fn):
    """explicit or implicit conversions of a pointer-valued expression to an integer inside fn"""
    out = []
    ltypes = util.local_decl_types(fn)

    def is_ptr_expr(x):
        x = ir.top_nocast(x)
        if x[0] == 'param':
            t = fn['params'][x[2]][1] if 0 <= x[2] < len(fn['params']) else ''
            return '*' in t
        if x[0] == 'local':
            return '*' in ltypes.get(x[2], '')
        if x[0] in ('arrow', 'dot'):
            return len(x) > 3 and x[3] is not None and '*' in x[3]
        if x[0] == 'un' and x[1] == '&':
            return True
        if x[0] == 'bin' and x[1] in ('+', '-'):
            return is_ptr_expr(x[2]) and not is_ptr_expr(x[3])
        return False
    for e, ln in ir.all_exprs(fn['body']):
        for x in ir.walk(e):
            if x[0] in ('cast', 'icast') and x[1] in INTEGRAL and is_ptr_expr(x[2]):
                out.append((ln, ir.fmt(x)))
    return out


def check_address_free(P, ctx, Ppos):
    rule = 'C10.address-free'
    fns = [('hash', 'hash'), ('hash_data', 'hash_data')] + [('%s.Hash.hash' % T, f) for T, f in P.slots_of_class('Hash', 'hash') if P.types[T]['unit'].startswith('src/')]
    for key, fname in fns:
        fn = P.fn(fname)
        ctx.fn(fn)
        bad = pointer_to_int_casts(P, fn)
        # hashing the pointer's own bytes: hash_data(&self, ...) / hash_data(&local pointer, ...)
        for c, ln in ir.all_calls(fn['body']):
            if ir.callee_name(c) == 'hash_data' and c[2]:
                a = ir.top_nocast(c[2][0])
                if a[0] == 'un' and a[1] == '&' and ir.top_nocast(a[2])[0] in ('param', 'local'):
                    bad.append((ln, 'hash_data over the bytes of the pointer variable %s' % ir.fmt(a[2])))
        ctx.check(not bad, rule, key, site(fn, bad[0][0] if bad else None),
                  'the hash is computed from the value the object holds, never from where it lives: no pointer is turned into an integer or hashed as bytes '
                  '(equal values at different addresses / alignments / allocation classes must hash equally)', ['%s' % b[1] for b in bad[:3]])
    # the rule expects zero matches on a correct tree: keep it honest with a positive example
    pos = pointer_to_int_casts(Ppos, Ppos.fn('PosAddr_Hash'))
    if pos:
        ctx.proved(rule, 'positive-example', 'witness/positive/c10_address_hash.c', 'the rule fires on an address-derived hash (%s)' % pos[0][1])
    else:
        ctx.undecided(rule, 'positive-example', 'witness/positive/c10_address_hash.c', 'the address-derived example hash is no longer recognised: the rule is blind')
    ctx.floor(rule, 12)


def check_hash_data(P, ctx):
    rule = 'C10.byte-hash'
    fn = P.fn('hash_data')
    g = P.cfg(fn)
    ctx.fn(fn)
    ltypes = util.local_decl_types(fn)
    # every byte is read through an unsigned byte pointer (or copied with memcpy): no sign extension
    bad = []
    n_reads = 0
    for e, ln in ir.all_exprs(fn['body']):
        for x in ir.walk(e):
            base = None
            if x[0] == 'idx':
                base = ir.top_nocast(x[1])
            elif x[0] == 'un' and x[1] == '*':
                base = ir.top_nocast(x[2])
            if base is None or base[0] != 'local':
                continue
            t = ltypes.get(base[2], '')
            if '*' not in t:
                continue
            n_reads += 1
            elem = t.replace('const', '').replace('*', '').strip()
            if elem in ('char', 'signed char', 'short', 'int', 'long'):
                bad.append((ln, 'bytes read through `%s`: values >= 0x80 are sign-extended when widened' % t))
    ctx.check(not bad and n_reads >= 7, rule, 'unsigned-bytes', site(fn), 'input bytes are read as unsigned bytes (or copied whole with memcpy) before being widened and mixed', [b[1] for b in bad[:2]])
    # block loop covers size & ~7 bytes in steps of 8, tail switch covers size & 7 with one case per remaining byte
    N = util.Norm(P, fn, expand_locals=True)
    mc = [(n, c) for n in g.live() if n['expr'] is not None for c in ir.calls(n['expr']) if ir.callee_name(c) == 'memcpy']
    ok = len(mc) == 1 and util.const_int(ir.canon(mc[0][1][2][2])) == 8 or (len(mc) == 1 and ir.canon(mc[0][1][2][2]) == ('sizeof', ('type', 'unsigned long')))
    sw = [n for n in g.live() if n['kind'] == 'switch']
    ok2 = len(sw) == 1
    if ok2:
        e = N.canon(sw[0]['expr'])
        ok2 = e == ir.canon(('bin', '&', ('param', 'size', 1), ('int', 7)))
        cases = sorted(util.const_int(l[1]) for (v, l) in sw[0]['succ'] if isinstance(l, tuple))
        ok2 = ok2 and cases == [1, 2, 3, 4, 5, 6, 7]
        # each case k mixes byte k-1 shifted by 8*(k-1)
        for (v, l) in sw[0]['succ']:
            if not isinstance(l, tuple):
                continue
            k = util.const_int(l[1])
            n = g.nodes[v]
            while n['kind'] == 'join':
                n = g.nodes[n['succ'][0][0]]
            e = ir.canon(n['expr']) if n['expr'] is not None else None
            good = False
            if e is not None and e[0] == 'assign' and e[1] == '^=':
                idxs = [util.const_int(x[2]) for x in ir.walk(e[3]) if x[0] == 'idx']
                sh = [util.const_int(x[3]) for x in ir.walk(e[3]) if x[0] == 'bin' and x[1] == '<<']
                good = idxs == [k - 1] and (sh == [8 * (k - 1)] or (k == 1 and not sh))
            ok2 = ok2 and good
    end = [n for n in g.live() if n.get('decl') and n['decl']['name'] == 'end']
    ok3 = len(end) == 1 and N.canon(end[0]['decl']['init']) is not None
    if ok3:
        p = ir.canon(end[0]['decl']['init'])
        ok3 = util.mentions(p, lambda y: y == ('un', '~', ('int', 7))) or util.mentions(p, lambda y: y[0] == 'un' and y[1] == '~')
    ctx.check(ok and ok2 and ok3, rule, 'coverage', site(fn), 'the block loop consumes the first size & ~7 bytes eight at a time (memcpy into a word), the tail switch mixes byte k-1 at shift 8(k-1) for each of the remaining size & 7 bytes')
    ctx.floor(rule, 2)


def check_container_hash(P, ctx):
    rule = 'C10.container-hash'
    for T, elems in (('Array', 1), ('List', 1), ('Tuple', 1), ('Table', 2), ('Tree', 2)):
        fn = P.fn(P.slot(T, 'Hash', 'hash'))
        g = P.cfg(fn)
        ctx.fn(fn)
        N = util.Norm(P, fn, inline=False)
        rets = [n for n in g.live() if n['kind'] == 'ret']
        rv = ir.canon(rets[0]['expr']) if len(rets) == 1 else None
        hv = [n for n in g.live() if n.get('decl') and rv == ('local', n['decl']['name']) and util.const_int(n['decl']['init']) == 0]
        ok = len(hv) == 1 and len(rets) == 1
        detail = []
        if ok:
            h = ('local', hv[0]['decl']['name'])
            ups = []
            for n in g.live():
                if n['expr'] is None or n.get('decl'):
                    continue
                e = N.canon(n['expr'])
                if e[0] == 'assign' and e[2] == h:
                    ups.append((n, e))
            ok = len(ups) == 1
            if ok:
                n, e = ups[0]
                # h ^= hash(x)   or   h = h ^ hash(k) ^ hash(v)
                terms = []

                def flat(x):
                    if x[0] == 'bin' and x[1] == '^':
                        flat(x[2]); flat(x[3])
                    else:
                        terms.append(x)
                if e[1] == '^=':
                    flat(e[3]); terms.append(h)
                elif e[1] == '=':
                    flat(e[3])
                else:
                    ok = False
                hs = [t for t in terms if t[0] == 'call' and ir.callee_name(t) == 'hash']
                ok = ok and terms.count(h) == 1 and len(hs) == elems and len(terms) == elems + 1
                detail.append('update: %s' % ir.fmt(e))
                # traversal: the update runs once per element of a full traversal
                cov = traversal_full(P, fn, g, N, T, n)
                if cov is not True:
                    ok = False
                    detail.append(cov)
        ctx.check(ok, rule, T, site(fn), 'the container hash starts at 0 and XORs (order-independent) the hash of every element%s exactly once over a full traversal — '
                  'so containers that compare equal element-wise hash equally whatever their history' % (' key and value' if elems == 2 else ''), detail)
    ctx.floor(rule, 5)


def traversal_full(P, fn, g, N, T, upd):
    if T in ('Array', 'List', 'Tuple'):
        conds = [x for x in g.live() if x['kind'] == 'cond' and loops.counted_loop(g, None, x) is not None and g.must_pass(upd['id'], through_edges=[(x['id'], True)])]
        for c in conds:
            lp = loops.counted_loop(g, None, c)
            bnd = [y for y in ir.walk(lp['cond']) if y != lp['iv'] and (y[0] == 'local' or (y[0] in ('arrow',) and y[2] == 'nitems'))]
            if not bnd:
                continue
            try:
                if all(loops.iterate(lp, {bnd[0]: k}) == list(range(k)) for k in range(5)) and loops.step_on_every_iteration(g, lp):
                    # the bound is the element count
                    b = bnd[0]
                    if b[0] == 'local':
                        defs = util.single_defs(fn)
                        d = N.canon(defs.get(b[2])) if b[2] in defs else None
                        if d != ir.canon(('call', ('func', 'Tuple_Len'), (('param', 'self', 0),))):
                            return 'loop bound `%s` is not the element count' % b[1]
                    if T == 'List':
                        adv = [x for x in g.live() if x['kind'] == 'stmt' and x['expr'] is not None and ir.top_nocast(N.canon(x['expr']))[0] == 'assign' and
                               any(ir.callee_name(y) == 'List_Next' for y in ir.calls(x['expr']))]
                        if len(adv) != 1 or not g.must_pass(lp['cond_node']['id'], [adv[0]['id']], start=upd['id']):
                            return 'list cursor not advanced once per step'
                    return True
            except NoEval:
                pass
        return 'no full-range loop over the elements'
    # Table / Tree: cursor from Iter_Init, advanced by Iter_Next, until Terminal
    init = [n for n in g.live() if n.get('decl') and n['decl']['init'] is not None and any((ir.callee_name(c) or '').endswith('_Iter_Init') for c in ir.calls(n['decl']['init']))]
    if len(init) != 1:
        return 'no cursor initialised with Iter_Init'
    cur = ('local', init[0]['decl']['name'])
    conds = [x for x in g.live() if x['kind'] == 'cond' and N.canon(x['expr']) == ir.canon(('bin', '!=', cur, ('global', 'Terminal')))]
    adv = [x for x in g.live() if x['kind'] == 'stmt' and x['expr'] is not None and N.canon(x['expr'])[0] == 'assign' and N.canon(x['expr'])[2] == cur and
           any((ir.callee_name(c) or '').endswith('_Iter_Next') for c in ir.calls(x['expr']))]
    if len(conds) != 1 or len(adv) != 1:
        return 'cursor loop not of the form while (curr != Terminal) { ...; curr = Iter_Next(curr) }'
    if not (g.must_pass(upd['id'], through_edges=[(conds[0]['id'], True)]) and g.must_pass(adv[0]['id'], [upd['id']], start=conds[0]['id'])):
        return 'hash update not once per visited entry'
    return True


def check_defaults(P, ctx):
    rule = 'C10.copy-default'
    # assign: byte-wise only for equal types of non-zero size; all size bytes; else TypeError
    for fname, lib in (('assign', 'memcpy'), ('swap', 'memswap')):
        fn = P.fn(fname)
        g = P.cfg(fn)
        ctx.fn(fn)
        N = util.Norm(P, fn, expand_locals=True, keep={'type_of', 'size', 'instance'})
        mc = [(n, c) for n in g.live() if n['expr'] is not None for c in ir.calls(n['expr']) if ir.callee_name(c) == lib]
        ok = len(mc) == 1
        if ok:
            n, c = mc[0]
            args = [N.canon(a) for a in c[2]]
            szc = ir.canon(('call', ('func', 'size'), (('call', ('func', 'type_of'), (('param', 'self', 0),)),)))
            ok = args == [('param', 0), ('param', 1), szc]
            teq = [x for x in g.live() if x['kind'] == 'cond' and N.canon(x['expr']) == ir.canon(('bin', '==', ('call', ('func', 'type_of'), (('param', 'self', 0),)), ('call', ('func', 'type_of'), (('param', 'obj', 1),))))]
            nz = [x for x in g.live() if x['kind'] == 'cond' and N.canon(x['expr']) == szc]
            ok = ok and len(teq) == 1 and len(nz) == 1 and g.must_pass(n['id'], through_edges=[(teq[0]['id'], True)]) and g.must_pass(n['id'], through_edges=[(nz[0]['id'], True)])
            for x in (teq[0], nz[0]) if ok else ():
                fb = succ_of(x, False)
                ok = ok and throw_only(g, fb) and {g.nodes[i]['why'][1] for i in g.reach_from(fb) if g.nodes[i]['kind'] == 'term'} == {'TypeError'}
        ctx.check(ok, rule, fname + ':bytewise', site(fn), 'without an own instance, %s works byte-wise over all size(type) bytes of (self, obj) only for equal types of non-zero size, else TypeError' % fname)
    fn = P.fn('copy')
    g = P.cfg(fn)
    N = util.Norm(P, fn, keep={'alloc', 'type_of', 'assign'})
    rets = [n for n in g.live() if n['kind'] == 'ret']
    want_e = ir.canon(('call', ('func', 'assign'), (('call', ('func', 'alloc'), (('call', ('func', 'type_of'), (('param', 'self', 0),)),)), ('param', 'self', 0))))
    ctx.check(any(N.canon(n['expr']) == want_e for n in rets), rule, 'copy', site(fn), 'the default copy is assign(alloc(type_of(self)), self)')
    # assign returns self after the type's own assign
    fn = P.fn('assign')
    g = P.cfg(fn)
    ind = [n for n in g.live() if n['expr'] is not None and any(ir.callee_name(c) is None and ir.top_nocast(c[1])[0] == 'arrow' and ir.top_nocast(c[1])[2] == 'assign' for c in ir.calls(n['expr']))]
    ok = len(ind) == 1
    if ok:
        c = [c for c in ir.calls(ind[0]['expr']) if ir.callee_name(c) is None][0]
        ok = [ir.canon(a) for a in c[2]] == [('param', 0), ('param', 1)]
    ctx.check(ok, rule, 'assign:dispatch', site(fn), 'a type\'s own assign is called with (self, obj) in order')
    ctx.floor(rule, 4)


def check_memswap(P, ctx):
    """memswap exchanges every byte of [0, s): the byte sets touched by its loop(s) are evaluated for s = 0..40"""
    rule = 'C10.swap-exchanges'
    fn = P.fn('memswap')
    g = P.cfg(fn)
    ctx.fn(fn)
    N = util.Norm(P, fn, expand_locals=True)
    ltypes = util.local_decl_types(fn)
    conds = [x for x in g.live() if x['kind'] == 'cond' and loops.counted_loop(g, None, x) is not None]
    sp = ('param', fn['params'][2][0], 2)
    bad = None
    loops_found = []
    for c in conds:
        lp = loops.counted_loop(g, None, c)
        body = g.reach_from(succ_of(c, True), cut_nodes=[c['id']])
        stores = []
        for i in body:
            n = g.nodes[i]
            if n['expr'] is None:
                continue
            for ev in util.expr_events(n['expr'], n):
                if ev['t'] == 'write' and ir.top_nocast(ev['lhs'])[0] == 'idx':
                    stores.append((n, ev))
        if not stores:
            continue
        loops_found.append((lp, stores))
    if not loops_found:
        ctx.undecided(rule, 'memswap', site(fn), 'no exchanging loop found')
        return

    def width(idx_lhs):
        b = idx_lhs[1]
        t = None
        while b[0] in ('cast', 'icast'):
            t = b[1]
            b = b[2]
        if t is None and b[0] == 'local':
            t = ltypes.get(b[2])
        if t is None:
            return None, None
        elem = t.replace('const', '').replace('*', '').strip()
        w = poly.SIZEOF.get(elem, 8 if elem in ('uint64_t', 'unsigned long') else None)
        return w, ir.nocast(b)
    for s in range(0, 41):
        covered = {0: [], 1: []}
        for lp, stores in loops_found:
            try:
                its = loops.iterate(lp, {sp: s}, limit=64)
            except NoEval as e:
                bad = bad or 'loop header not evaluable for size %d: %s' % (s, e)
                its = []
            for iv in its:
                for n, ev in stores:
                    lhs = ir.noicast(ev['lhs'])
                    w, base = width(ir.top_nocast(ev['lhs']) if ir.top_nocast(ev['lhs'])[0] == 'idx' else lhs)
                    if w is None:
                        bad = bad or 'element width of %s unknown' % ir.fmt(ev['lhs'])
                        continue
                    which = 0 if util.mentions(base, lambda y: y[0] == 'param' and y[2] == 0) or (base[0] == 'local' and util.mentions(N.canon(base), lambda y: y == ('param', 0))) else 1
                    try:
                        ix = loops.ev(ir.top_nocast(ev['lhs'])[2], {lp['iv']: iv, sp: s})
                        off = 0
                        if base[0] == 'bin':
                            off = loops.ev(base[3], {lp['iv']: iv, sp: s}) * 1
                    except NoEval as e:
                        bad = bad or 'index not evaluable: %s' % e
                        continue
                    covered[which].extend(range(off + ix * w, off + ix * w + w))
        for which in (0, 1):
            if sorted(covered[which]) != list(range(s)) and bad is None:
                missing = sorted(set(range(s)) - set(covered[which]))
                extra = sorted(set(covered[which]) - set(range(s)))
                dup = len(covered[which]) != len(set(covered[which]))
                bad = 'for size %d the bytes written in operand %d are %s: %s' % (s, which, 'not exactly 0..%d' % (s - 1),
                                                                               ('bytes %s are never exchanged' % missing[:8]) if missing else ('bytes %s outside the object' % extra[:8]) if extra else 'some byte is exchanged twice' if dup else '')
    # exchange pattern: a temporary takes p0[i], p0[i] takes p1[i], p1[i] takes the temporary
    lp, stores = loops_found[0]
    ctx.check(bad is None, rule, 'memswap:coverage', site(fn), 'every byte index of [0, size) is written exactly once in each operand, for every size 0..40', [bad] if bad else None)
    same = [x for x in g.live() if x['kind'] == 'cond' and N.canon(x['expr']) == ir.canon(('bin', '==', ('param', 'p0', 0), ('param', 'p1', 1)))]
    ok = True
    N2 = util.Norm(P, fn, expand_locals=False)      # the temporary is a snapshot: it must not be expanded to its initialiser
    for lp, stores in loops_found:
        st = [(ir.fmt(ir.nocast(N2.canon(ev['lhs']))), ir.fmt(ir.nocast(N2.canon(ev['rhs']))) if ev['rhs'] is not None else None) for n, ev in stores]
        tmps = [n['decl'] for i in g.reach_from(succ_of(lp['cond_node'], True), cut_nodes=[lp['cond_node']['id']]) for n in [g.nodes[i]] if n.get('decl')]
        if len(st) != 2 or len(tmps) != 1:
            ok = False
            continue
        tinit = ir.fmt(ir.nocast(N2.canon(tmps[0]['init'])))
        a_l, a_r = st[0]
        b_l, b_r = st[1]
        ok = ok and tinit == a_l and a_r == b_l and b_r == tmps[0]['name']
    ctx.check(ok, rule, 'memswap:exchange', site(fn), 'each step is a true exchange through a temporary (t = a; a = b; b = t)')
    ctx.floor(rule, 2)


def run(ctx, load):
    P = load(None, 'default')
    Ppos = load(['src/Exception.c'], 'default', [WITNESS_POS])
    ctx.config = 'default'
    ctx.stats['units'] = set(P.units)
    ctx.stats['configs'] = ['default']
    check_address_free(P, ctx, Ppos)
    check_hash_data(P, ctx)
    check_container_hash(P, ctx)
    check_defaults(P, ctx)
    check_memswap(P, ctx)
    # List: hash, copy and assign read the count, eq follows the links — the two must not drift apart
    from .rules_c04 import check_list_count
    check_list_count(P, ctx, rule='C10.count-matches-elements')
    # eq is cmp == 0: equality must be value equality — exact for scalars (no truncated difference), element-wise for containers
    # (never a comparison of raw storage, whose padding bytes differ between equal values)
    from .rules_c09 import check_scalar_cmps, check_container_cmps
    before = len(ctx.obs)
    check_scalar_cmps(P, ctx)
    check_container_cmps(P, ctx)
    for o in ctx.obs[before:]:
        o['rule'] = 'C10.eq-is-value-equality'
    for k in list(ctx.floors):
        if k[0].startswith('C09.'):
            ctx.floors.pop(k)
    ctx.floor('C10.eq-is-value-equality', 12)
    # per-type length-exact hashes
    rule = 'C10.length-exact'
    fn = P.fn(P.slot('Type', 'Hash', 'hash'))
    N = util.Norm(P, fn, expand_locals=True, keep={'Type_Builtin_Name'})
    cs = [c for c, _ in ir.all_calls(fn['body']) if ir.callee_name(c) == 'hash_data']
    ok = len(cs) == 1
    if ok:
        a0, a1 = N.canon(cs[0][2][0]), N.canon(cs[0][2][1])
        ok = a1 == ir.canon(('call', ('func', 'strlen'), (a0,))) and a0 == ir.canon(('call', ('func', 'Type_Builtin_Name'), (('param', 'self', 0),)))
    ctx.check(ok, rule, 'Type_Hash', site(fn), 'a type hashes exactly the bytes of its name')
    fn = P.fn(P.slot('String', 'Hash', 'hash'))
    N = util.Norm(P, fn, expand_locals=True)
    cs = [c for c, _ in ir.all_calls(fn['body']) if ir.callee_name(c) == 'hash_data']
    ok = len(cs) == 1 and N.canon(cs[0][2][0]) == ('arrow', ('param', 0), 'val') and N.canon(cs[0][2][1]) == ir.canon(('call', ('func', 'strlen'), (('arrow', ('param', 'self', 0), 'val'),)))
    ctx.check(ok, rule, 'String_Hash', site(fn), 'a string hashes exactly strlen bytes of its buffer')
    fn = P.fn('hash')
    N = util.Norm(P, fn, keep={'type_of', 'size'})
    cs = [c for c, _ in ir.all_calls(fn['body']) if ir.callee_name(c) == 'hash_data']
    ok = len(cs) == 1 and [N.canon(a) for a in cs[0][2]] == [('param', 0), ir.canon(('call', ('func', 'size'), (('call', ('func', 'type_of'), (('param', 'self', 0),)),)))]
    ctx.check(ok, rule, 'hash:default', site(fn), 'without a Hash instance an object hashes exactly size(type) bytes of its own storage')
    for T, acc in (('Int', 'c_int'), ('Float', 'c_float')):
        fn = P.fn(P.slot(T, 'Hash', 'hash'))
        used = {ir.callee_name(c) for c, _ in ir.all_calls(fn['body'])}
        ctx.check(acc in used and 'hash_data' not in used, rule, '%s_Hash' % T, site(fn), 'the hash of %s is a function of the numeric value obtained with %s' % (T, acc))
    ctx.floor(rule, 5)


EXPLANATION = (
    'Decided: (a) address-free — no Hash slot function, nor hash/hash_data, converts a pointer to an integer or hashes a pointer\'s own '
    'bytes (a positive example keeps the zero-match rule honest); (b) byte-hash — hash_data reads its input as unsigned bytes, eight at a '
    'time for size & ~7 bytes and byte k-1 at shift 8(k-1) for the remaining size & 7; (c) container-hash — Array, List, Tuple, Table, Tree '
    'start at 0 and XOR the element hashes (key and value for maps) once per element over a full traversal, so element-wise equal '
    'containers hash equally whatever their history; (d) copy-default — default copy = assign(alloc(type_of)), byte-wise assign/swap only '
    'for equal types of non-zero size over all size bytes, else TypeError; (e) swap-exchanges — memswap writes every byte of [0,size) '
    'exactly once in each operand (loop headers and indices evaluated for sizes 0..40) and each step is a true exchange; (f) per-type '
    'hashes cover exactly the value bytes. Not decided: that per-type hash agrees with per-type eq on every value (Float +0.0/-0.0 hash '
    'differently while eq holds — reported in DESIGN.md), MurmurHash arithmetic.')
