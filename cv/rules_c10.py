"""C10 — equal values hash equally; copy and assign produce equal values; swap exchanges."""
from . import ir, util, loops, poly
from .report import site
from .front import AnalysisBroken
from .loops import NoEval
from .rules_c12 import guards_of, throw_only, succ_of

WITNESS_POS = '/verif/witness/positive/c10_address_hash.c'
INTEGRAL = {'unsigned long', 'long', 'unsigned int', 'int', 'unsigned long long', 'long long', 'unsigned short', 'short'}


def pointer_to_int_casts(P, fn):
    """explicit or implicit conversions of a pointer-valued expression to an integer inside fn"""
    out = []
    ltypes = util.local_decl_types(fn)

    def is_ptr_expr(x):
        x = ir.top_nocast(x)
        if x[0] == 'param':
            t = fn['params'][x[2]][1] if 0 <= x[2] < len(fn['params']) else ''
            return '*' in t
        if x[0] == 'local':
            return '*' in ltypes.get(x[2], '')
        if x[0] in ('arrow', 'dot'):
            return len(x) > 3 and x[3] is not None and '*' in x[3]
        if x[0] == 'un' and x[1] == '&':
            return True
        if x[0] == 'bin' and x[1] in ('+', '-'):
            return is_ptr_expr(x[2]) and not is_ptr_expr(x[3])
        return False
    for e, ln in ir.all_exprs(fn['body']):
        for x in ir.walk(e):
            if x[0] in ('cast', 'icast') and x[1] in INTEGRAL and is_ptr_expr(x[2]):
                out.append((ln, ir.fmt(x)))
    return out


def check_address_free(P, ctx, Ppos):
    rule = 'C10.address-free'
    fns = [('hash', 'hash'), ('hash_data', 'hash_data')] + [('%s.Hash.hash' % T, f) for T, f in P.slots_of_class('Hash', 'hash') if P.types[T]['unit'].startswith('src/')]
    for key, fname in fns:
        fn = P.fn(fname)
        ctx.fn(fn)
        bad = pointer_to_int_casts(P, fn)
        # hashing the pointer's own bytes: hash_data(&self, ...) / hash_data(&local pointer, ...)
        for c, ln in ir.all_calls(fn['body']):
            if ir.callee_name(c) == 'hash_data' and c[2]:
                a = ir.top_nocast(c[2][0])
                if a[0] == 'un' and a[1] == '&' and ir.top_nocast(a[2])[0] in ('param', 'local'):
                    bad.append((ln, 'hash_data over the bytes of the pointer variable %s' % ir.fmt(a[2])))
        ctx.check(not bad, rule, key, site(fn, bad[0][0] if bad else None),
                  'the hash is computed from the value the object holds, never from where it lives: no pointer is turned into an integer or hashed as bytes '
                  '(equal values at different addresses / alignments / allocation classes must hash equally)', ['%s' % b[1] for b in bad[:3]])
    # the rule expects zero matches on a correct tree: keep it honest with a positive example
    pos = pointer_to_int_casts(Ppos, Ppos.fn('PosAddr_Hash'))
    if pos:
        ctx.proved(rule, 'positive-example', 'witness/positive/c10_address_hash.c', 'the rule fires on an address-derived hash (%s)' % pos[0][1])
    else:
        ctx.undecided(rule, 'positive-example', 'witness/positive/c10_address_hash.c', 'the address-derived example hash is no longer recognised: the rule is blind')
    ctx.floor(rule, 12)


class HashRefuted(Exception):
    pass


def check_hash_data(P, ctx):
    """hash_data is a function of the size(type) bytes of the value alone: evaluated (cint, exact integer semantics) on byte strings of
    0..24 bytes (values from 0x00 to 0xff) placed at a word-aligned and at an odd address.  Every read must fall inside the value, and
    the same bytes must hash the same at both addresses (alignment-dependent paths, bytes read through a signed type on one path only,
    and anything else that lets the address into the result show up as a difference)."""
    from . import cint
    rule = 'C10.byte-hash'
    fn = P.fn('hash_data')
    ctx.fn(fn)
    bad = {'inside-the-value': None, 'address-independent': None}
    unsup = None
    ncase = 0
    for size in list(range(0, 18)) + [23, 24]:
        data = [((i * 37 + 0x85) ^ (i << 3)) & 0xff for i in range(size)]
        res = []
        for base in (80000, 80003):
            def rd(a, width, base=base, size=size, data=data):
                if width is None:
                    raise cint.NoEval('read of unknown width')
                if a < base or a + width > base + size:
                    raise HashRefuted('%d bytes of input: reads %d byte(s) at offset %d' % (size, width, a - base))
                return sum(data[a - base + j] << (8 * j) for j in range(width))

            def mem(a, it, rd=rd):
                return rd(a, it.mem_width)

            def call(nm, e, it, rd=rd):
                if nm == 'memcpy':
                    dst = ir.top_nocast(e[2][0])
                    n = it.ev(e[2][2])
                    src = it.ev(e[2][1])
                    if dst[0] == 'un' and dst[1] == '&' and isinstance(src, int):
                        it.store(dst[2], rd(src, n))
                        return 0
                raise cint.NoEval('call %s' % nm)
            it = cint.CInt(P, fn, call=call, mem=mem, max_steps=6000)
            try:
                r = it.run([base, size])
            except HashRefuted as x:
                bad['inside-the-value'] = bad['inside-the-value'] or str(x)
                res.append(None)
                continue
            ncase += 1
            if r[0] != 'ret' or not isinstance(r[1], int):
                unsup = '%s at %s' % (r[1], P.cfg(fn).describe(r[2]))
                res.append(None)
                continue
            res.append(r[1])
        if len(res) == 2 and None not in res and res[0] != res[1]:
            bad['address-independent'] = bad['address-independent'] or '%d bytes of input hash to %#x at a word-aligned address and to %#x at an odd one' % (size, res[0], res[1])
    ctx.stats['paths'] += ncase
    if unsup and not any(bad.values()):
        ctx.undecided(rule, 'evaluation', site(fn), 'hash_data leaves the evaluated fragment: ' + unsup)
    else:
        ctx.check(bad['inside-the-value'] is None, rule, 'inside-the-value', site(fn), 'every byte hash_data reads lies inside the size bytes it was given (sizes 0..17, 23, 24)',
                  [bad['inside-the-value']] if bad['inside-the-value'] else None)
        ctx.check(bad['address-independent'] is None, rule, 'address-independent', site(fn), 'the same bytes hash the same at a word-aligned and at an odd address (%d evaluations)' % ncase,
                  [bad['address-independent']] if bad['address-independent'] else None)
    ctx.floor(rule, 2)


def check_container_hash(P, ctx):
    """the container hash combines the hash of every element (for maps: every key and every value) exactly once with xor, so it does not
    depend on slot order, capacity or history: evaluated on small instances (absmodel) with element hashes that are distinct bits"""
    from . import absmodel
    rule = 'C10.container-hash'
    for T, elems in (('Array', 1), ('List', 1), ('Tuple', 1), ('Table', 2), ('Tree', 2)):
        fn = P.fn(P.slot(T, 'Hash', 'hash'))
        ctx.fn(fn)
        try:
            bad, unsup, ncase = absmodel.eval_visits(P, T, fn['name'], 'hash')
        except absmodel.Unsupported as x:
            bad, unsup, ncase = None, str(x), 0
        ctx.stats['paths'] += ncase
        if unsup and not bad:
            ctx.undecided(rule, T, site(fn), 'the hash leaves the evaluated fragment: ' + unsup)
        else:
            ctx.check(bad is None, rule, T, site(fn), 'the container hash starts at 0 and XORs (order-independent) the hash of every element%s exactly once over a full traversal — '
                      'evaluated on %d small instances' % (' (key and value)' if elems == 2 else '', ncase), [bad] if bad else None)
    ctx.floor(rule, 5)


def traversal_full(P, fn, g, N, T, upd):
    if T in ('Array', 'List', 'Tuple'):
        conds = [x for x in g.live() if x['kind'] == 'cond' and loops.counted_loop(g, None, x) is not None and g.must_pass(upd['id'], through_edges=[(x['id'], True)])]
        for c in conds:
            lp = loops.counted_loop(g, None, c)
            bnd = [y for y in ir.walk(lp['cond']) if y != lp['iv'] and (y[0] == 'local' or (y[0] in ('arrow',) and y[2] == 'nitems'))]
            if not bnd:
                continue
            try:
                if all(loops.iterate(lp, {bnd[0]: k}) == list(range(k)) for k in range(5)) and loops.step_on_every_iteration(g, lp):
                    # the bound is the element count
                    b = bnd[0]
                    if b[0] == 'local':
                        defs = util.single_defs(fn)
                        d = N.canon(defs.get(b[2])) if b[2] in defs else None
                        if d != ir.canon(('call', ('func', 'Tuple_Len'), (('param', 'self', 0),))):
                            return 'loop bound `%s` is not the element count' % b[1]
                    if T == 'List':
                        adv = [x for x in g.live() if x['kind'] == 'stmt' and x['expr'] is not None and ir.top_nocast(N.canon(x['expr']))[0] == 'assign' and
                               any(ir.callee_name(y) == 'List_Next' for y in ir.calls(x['expr']))]
                        if len(adv) != 1 or not g.must_pass(lp['cond_node']['id'], [adv[0]['id']], start=upd['id']):
                            return 'list cursor not advanced once per step'
                    return True
            except NoEval:
                pass
        return 'no full-range loop over the elements'
    # Table / Tree: cursor from Iter_Init, advanced by Iter_Next, until Terminal
    init = [n for n in g.live() if n.get('decl') and n['decl']['init'] is not None and any((ir.callee_name(c) or '').endswith('_Iter_Init') for c in ir.calls(n['decl']['init']))]
    if len(init) != 1:
        return 'no cursor initialised with Iter_Init'
    cur = ('local', init[0]['decl']['name'])
    conds = [x for x in g.live() if x['kind'] == 'cond' and N.canon(x['expr']) == ir.canon(('bin', '!=', cur, ('global', 'Terminal')))]
    adv = [x for x in g.live() if x['kind'] == 'stmt' and x['expr'] is not None and N.canon(x['expr'])[0] == 'assign' and N.canon(x['expr'])[2] == cur and
           any((ir.callee_name(c) or '').endswith('_Iter_Next') for c in ir.calls(x['expr']))]
    if len(conds) != 1 or len(adv) != 1:
        return 'cursor loop not of the form while (curr != Terminal) { ...; curr = Iter_Next(curr) }'
    if not (g.must_pass(upd['id'], through_edges=[(conds[0]['id'], True)]) and g.must_pass(adv[0]['id'], [upd['id']], start=conds[0]['id'])):
        return 'hash update not once per visited entry'
    return True


def check_defaults(P, ctx):
    rule = 'C10.copy-default'
    # assign / swap: own member when the type has one, else byte-wise over all size bytes only for equal types of non-zero size, else
    # TypeError (evaluated)
    from . import evals
    res = {}
    for fname, lib, member, ret in (('assign', 'memcpy', 'assign', 'self'), ('swap', 'memswap', 'swap', 'void')):
        fn = P.fn(fname)
        ctx.fn(fn)
        bad, unsup = evals.eval_default_dispatch(P, fname, member, lib, ret)
        res[fname] = (bad, unsup)
        if unsup and not bad['bytewise']:
            ctx.undecided(rule, fname + ':bytewise', site(fn), 'leaves the evaluated fragment: ' + unsup)
        else:
            ctx.check(bad['bytewise'] is None, rule, fname + ':bytewise', site(fn), 'without an own instance, %s works byte-wise over all size(type) bytes of (self, obj) only for equal types of non-zero size, else TypeError' % fname,
                      [bad['bytewise']] if bad['bytewise'] else None)
    fn = P.fn('copy')
    g = P.cfg(fn)
    N = util.Norm(P, fn, expand_locals=True, keep={'alloc', 'type_of', 'assign'})
    rets = [n for n in g.live() if n['kind'] == 'ret']
    want_e = ir.canon(('call', ('func', 'assign'), (('call', ('func', 'alloc'), (('call', ('func', 'type_of'), (('param', 'self', 0),)),)), ('param', 'self', 0))))
    ctx.check(any(N.canon(n['expr']) == want_e for n in rets), rule, 'copy', site(fn), 'the default copy is assign(alloc(type_of(self)), self)')
    # assign returns self after the type's own assign
    fn = P.fn('assign')
    bad, unsup = res['assign']
    if unsup and not bad['dispatch']:
        ctx.undecided(rule, 'assign:dispatch', site(fn), 'leaves the evaluated fragment: ' + unsup)
    else:
        ctx.check(bad['dispatch'] is None, rule, 'assign:dispatch', site(fn), 'a type\'s own assign is called with (self, obj) in order (once; self is returned)', [bad['dispatch']] if bad['dispatch'] else None)
    ctx.floor(rule, 4)


def check_memswap(P, ctx):
    """memswap exchanges exactly the bytes [0, s) of its two operands: evaluated (cint) on byte memory for s = 0..40"""
    from . import cint
    rule = 'C10.swap-exchanges'
    fn = P.fn('memswap')
    ctx.fn(fn)
    bad, unsup, ncase = None, None, 0
    P0, P1 = 10000, 20000
    for sz in range(0, 41):
        for p0, p1 in ((P0, P1), (P0, P0)):
            memory = {}
            for i in range(-8, sz + 8):
                memory[P0 + i] = (i * 7 + 3) & 0xff
                memory[P1 + i] = (i * 11 + 0x90) & 0xff
            before = dict(memory)

            def mem(a, it, memory=memory):
                w = it.mem_width
                if w is None or any(a + j not in memory for j in range(w)):
                    raise cint.NoEval('read of %s byte(s) at %s' % (w, a))
                return sum(memory[a + j] << (8 * j) for j in range(w))

            def memw(a, v, w, it, memory=memory):
                if w is None or not isinstance(v, int) or any(a + j not in memory for j in range(w)):
                    raise cint.NoEval('store of %s byte(s) at %s' % (w, a))
                for j in range(w):
                    memory[a + j] = (v >> (8 * j)) & 0xff
            r = cint.CInt(P, fn, mem=mem, memw=memw, max_steps=4000).run([p0, p1, sz])
            ncase += 1
            if r[0] != 'ret':
                unsup = 'size %d: %s' % (sz, r[1])
                continue
            want = dict(before)
            if p0 != p1:
                for i in range(sz):
                    want[P0 + i], want[P1 + i] = before[P1 + i], before[P0 + i]
            if memory != want and bad is None:
                diff = sorted(a_ for a_ in memory if memory[a_] != want[a_])
                where = ['operand %d byte %d' % (0 if abs(a_ - P0) < 1000 else 1, a_ - (P0 if abs(a_ - P0) < 1000 else P1)) for a_ in diff[:4]]
                bad = 'size %d%s: after the call %s do(es) not hold the other operand\'s byte (bytes outside [0, size) must stay)' % (sz, ', both operands the same object' if p0 == p1 else '', ', '.join(where))
    ctx.stats['paths'] += ncase
    if unsup and not bad:
        ctx.undecided(rule, 'memswap', site(fn), 'memswap leaves the evaluated fragment: ' + unsup)
    else:
        ctx.check(bad is None, rule, 'memswap', site(fn), 'for every size 0..40 the bytes [0, size) of the two operands are exchanged and nothing else is written (%d evaluations)' % ncase,
                  [bad] if bad else None)
    ctx.floor(rule, 1)


def run(ctx, load):
    P = load(None, 'default')
    Ppos = load(['src/Exception.c'], 'default', [WITNESS_POS])
    ctx.config = 'default'
    ctx.stats['units'] = set(P.units)
    ctx.stats['configs'] = ['default']
    check_address_free(P, ctx, Ppos)
    check_hash_data(P, ctx)
    check_container_hash(P, ctx)
    check_defaults(P, ctx)
    check_memswap(P, ctx)
    # assign onto a container that already holds elements yields the source's value: evaluated on small instances (Array: every old
    # element destructed, the store re-reserved for the new element size, every item of the source assigned in order; Table / Tree:
    # cleared, retyped and re-inserted)
    from . import seqmodel, absmodel
    from .rules_c03 import check_assign_rebuilds
    rule = 'C10.assign-yields-the-source'
    fn = P.fn(P.slot('Array', 'Assign', 'assign'))
    ctx.fn(fn)
    badv, _r, unsup_, ncase_ = seqmodel.list_ops(P, 'Array')['assign']
    ctx.stats['paths'] += ncase_
    if unsup_ and not badv:
        ctx.undecided(rule, 'Array_Assign', site(fn), 'leaves the evaluated fragment: ' + unsup_)
    else:
        ctx.check(badv is None, rule, 'Array_Assign', site(fn), 'on arrays of 0..3 elements with and without spare capacity, from sources of 0..3 items of a smaller, equal or larger element '
                  'size (with len/get or a cursor only): the old elements are destructed once, every slot written lies inside what was reserved for the new element size, the items are assigned in order',
                  [badv] if badv else None)
    check_assign_rebuilds(P, ctx, 'Tree', 'Tree_Clear', 'Tree_Set', rule)
    check_assign_rebuilds(P, ctx, 'Table', 'Table_Clear', 'Table_Set', rule)
    ctx.floor(rule, 5)
    # eq compares two Tables slot by slot (parallel iteration): a cleared Table must be laid out like a fresh one — count, slot count and
    # store reset together — or a Table that was once larger keeps a layout in which equal bindings iterate in another order
    from . import rules_c02
    Pt = load(rules_c02.UNITS, 'default')
    ctx.config = 'default'
    ctx.borrow('C10.cleared-like-fresh', 1, lambda: rules_c02.check_counts(Pt, ctx, rules_c02.check_probe(Pt, ctx)), only=lambda o: o['key'] == 'Table_Clear')
    # a removal from a Tree moves the predecessor's entry into the removed node: the moved value must arrive whole, or a tree that was
    # built with a removal differs from an equal one built without
    from .rules_c05 import tree_pred_copy_extent
    fn = P.fn('Tree_Rem')
    g = P.cfg(fn)
    mc = [n for (n, c) in g.nodes_calling('memcpy')]
    why = tree_pred_copy_extent(P, fn, g, mc) if mc else True
    ctx.check(why is True, 'C10.history-independent', 'Tree_Rem:predecessor-copy', site(fn), 'the predecessor\'s whole payload (both headers, key and value) replaces the removed entry\'s',
              [why] if why is not True else None)
    ctx.floor('C10.history-independent', 1)
    # List: hash, copy and assign read the count, eq follows the links — the two must not drift apart
    from .rules_c04 import check_list_count
    check_list_count(P, ctx, rule='C10.count-matches-elements')
    # eq is cmp == 0: equality must be value equality — exact for scalars (no truncated difference), element-wise for containers
    # (never a comparison of raw storage, whose padding bytes differ between equal values)
    from .rules_c09 import check_scalar_cmps, check_container_cmps
    before = len(ctx.obs)
    check_scalar_cmps(P, ctx)
    check_container_cmps(P, ctx)
    for o in ctx.obs[before:]:
        o['rule'] = 'C10.eq-is-value-equality'
    for k in list(ctx.floors):
        if k[0].startswith('C09.'):
            ctx.floors.pop(k)
    ctx.floor('C10.eq-is-value-equality', 12)
    # per-type length-exact hashes
    rule = 'C10.length-exact'
    from . import evals
    evals.report_type_cmp(P, ctx, rule, site)
    fn = P.fn(P.slot('String', 'Hash', 'hash'))
    N = util.Norm(P, fn, expand_locals=True)
    cs = [c for c, _ in ir.all_calls(fn['body']) if ir.callee_name(c) == 'hash_data']
    ok = len(cs) == 1 and N.canon(cs[0][2][0]) == ('arrow', ('param', 0), 'val') and N.canon(cs[0][2][1]) == ir.canon(('call', ('func', 'strlen'), (('arrow', ('param', 'self', 0), 'val'),)))
    ctx.check(ok, rule, 'String_Hash', site(fn), 'a string hashes exactly strlen bytes of its buffer')
    fn = P.fn('hash')
    N = util.Norm(P, fn, keep={'type_of', 'size'})
    cs = [c for c, _ in ir.all_calls(fn['body']) if ir.callee_name(c) == 'hash_data']
    ok = len(cs) == 1 and [N.canon(a) for a in cs[0][2]] == [('param', 0), ir.canon(('call', ('func', 'size'), (('call', ('func', 'type_of'), (('param', 'self', 0),)),)))]
    ctx.check(ok, rule, 'hash:default', site(fn), 'without a Hash instance an object hashes exactly size(type) bytes of its own storage')
    for T, acc in (('Int', 'c_int'), ('Float', 'c_float')):
        fn = P.fn(P.slot(T, 'Hash', 'hash'))
        used = {ir.callee_name(c) for c, _ in ir.all_calls(fn['body'])}
        ctx.check(acc in used and 'hash_data' not in used, rule, '%s_Hash' % T, site(fn), 'the hash of %s is a function of the numeric value obtained with %s' % (T, acc))
    ctx.floor(rule, 5)


EXPLANATION = (
    'Decided: (a) address-free — no Hash slot function, nor hash/hash_data, converts a pointer to an integer or hashes a pointer\'s own '
    'bytes (a positive example keeps the zero-match rule honest); (b) byte-hash — hash_data reads its input as unsigned bytes, eight at a '
    'time for size & ~7 bytes and byte k-1 at shift 8(k-1) for the remaining size & 7; (c) container-hash — Array, List, Tuple, Table, Tree '
    'start at 0 and XOR the element hashes (key and value for maps) once per element over a full traversal, so element-wise equal '
    'containers hash equally whatever their history; (d) copy-default — default copy = assign(alloc(type_of)), byte-wise assign/swap only '
    'for equal types of non-zero size over all size bytes, else TypeError; (e) swap-exchanges — memswap writes every byte of [0,size) '
    'exactly once in each operand (loop headers and indices evaluated for sizes 0..40) and each step is a true exchange; (f) per-type '
    'hashes cover exactly the value bytes. Not decided: that per-type hash agrees with per-type eq on every value (Float +0.0/-0.0 hash '
    'differently while eq holds — reported in DESIGN.md), MurmurHash arithmetic.')
