"""Evaluations (cint) shared by several rules: the generic functions `f(self, obj)` that call a type's own member when it has one and
fall back to a byte-wise library routine otherwise (assign -> memcpy, swap -> memswap, cmp -> memcmp)."""
from . import ir, util, cint


def eval_default_dispatch(P, fname, member, lib, ret):
    """ret: 'self' (returns self), 'void', 'lib' (returns what the library routine returned), 'member' (own member's result).
    Scenarios: the type has an instance of the class or not, the member is set or empty, the two objects have equal or different types,
    size(type) is 0 / 8 / 24.  Required: own member set -> it is called once with (self, obj) and nothing else happens; otherwise the
    library routine is called with (self, obj, size(type_of(self))) exactly when the types are equal and the size is non-zero, else
    TypeError is raised and nothing is copied or compared.
    Returns ({'bytewise': mismatch, 'dispatch': mismatch}, unsupported)."""
    fn = P.fn(fname)
    SELF_, OBJ, FN, LIBRET, MEMRET = 5000, 6000, 4242, 17, 23
    bad = {'bytewise': None, 'dispatch': None}
    unsup = None
    for inst in (0, 1):
        for has_member in ((0, 1) if inst else (0,)):
            for same in (1, 0):
                for sz in (0, 8, 24):
                    events = []

                    def call(nm, e, it, same=same, sz=sz, inst=inst, events=events):
                        if nm is None:
                            events.append(('member', it.ev(e[1]), [it.ev(x) for x in e[2]]))
                            return MEMRET
                        if nm in ('instance', 'type_instance'):
                            return ('ep', 'inst', 0) if inst else 0
                        if nm == 'type_of':
                            v = it.ev(e[2][0])
                            return 8500 if (v == SELF_ or same) else 8600
                        if nm == 'size':
                            return sz if it.ev(e[2][0]) == 8500 else sz + 8
                        if nm == lib:
                            events.append(('lib', [it.ev(x) for x in e[2]]))
                            return it.ev(e[2][0]) if lib != 'memcmp' else LIBRET
                        raise cint.NoEval('call %s' % nm)
                    atoms = {('global', 'NULL'): 0, ('elem', 'inst', 0, member): FN if has_member else 0}
                    r = cint.CInt(P, fn, atoms=atoms, call=call, N=util.Norm(P, fn, expand_locals=False, inline=False)).run([SELF_, OBJ])
                    label = '%s, %s types, size %d' % ('own %s' % member if (inst and has_member) else ('no instance' if not inst else 'instance with an empty member'),
                                                       'equal' if same else 'different', sz)
                    if r[0] == 'stuck':
                        unsup = unsup or '%s: %s' % (label, r[1])
                        continue
                    if inst and has_member:
                        good = r[0] == 'ret' and events == [('member', FN, [SELF_, OBJ])] and \
                            (ret != 'self' or r[1] == SELF_) and (ret not in ('lib', 'member') or r[1] == MEMRET)
                        which = 'dispatch'
                    elif same and sz:
                        good = r[0] == 'ret' and events == [('lib', [SELF_, OBJ, sz])] and (ret != 'self' or r[1] == SELF_) and (ret != 'lib' or r[1] == LIBRET)
                        which = 'bytewise'
                    else:
                        good = r[0] == 'term' and r[1] == ('throw', 'TypeError') and not events
                        which = 'bytewise'
                    if not good and bad[which] is None:
                        did = ', '.join('%s%s' % (e_[0], tuple(e_[-1])) for e_ in events) or 'nothing is called'
                        bad[which] = '%s: %s; %s' % (label, did, 'returns %s' % (r[1],) if r[0] == 'ret' else 'raises %s' % (r[1][1] if isinstance(r[1], tuple) else r[1]))
    return bad, unsup
