"""Evaluations (cint) shared by several rules: the generic functions `f(self, obj)` that call a type's own member when it has one and
fall back to a byte-wise library routine otherwise (assign -> memcpy, swap -> memswap, cmp -> memcmp)."""
from . import ir, util, cint


def eval_default_dispatch(P, fname, member, lib, ret):
    """ret: 'self' (returns self), 'void', 'lib' (returns what the library routine returned), 'member' (own member's result).
    Scenarios: the type has an instance of the class or not, the member is set or empty, the two objects have equal or different types,
    size(type) is 0 / 8 / 24.  Required: own member set -> it is called once with (self, obj) and nothing else happens; otherwise the
    library routine is called with (self, obj, size(type_of(self))) exactly when the types are equal and the size is non-zero, else
    TypeError is raised and nothing is copied or compared.
    Returns ({'bytewise': mismatch, 'dispatch': mismatch}, unsupported)."""
    fn = P.fn(fname)
    SELF_, OBJ, FN, LIBRET, MEMRET = 5000, 6000, 4242, 17, 23
    bad = {'bytewise': None, 'dispatch': None}
    unsup = None
    # byte contents of the two objects (only cmp looks at them): equal; first byte smaller but last byte larger (a comparison by machine
    # words orders these the other way round than memcmp); differing in the last byte only
    contents = [None] if lib != 'memcmp' else ['equal', 'first-smaller-last-larger', 'last-differs']
    for inst in (0, 1):
        for has_member in ((0, 1) if inst else (0,)):
            for same in (1, 0):
                for sz in (0, 8, 24):
                  for content in contents:
                    events = []
                    A = [((i * 7) + 3) & 0xff for i in range(sz)]
                    B = list(A)
                    if content == 'first-smaller-last-larger' and sz:
                        A[0], B[0] = 1, 2
                        A[7], B[7] = 9, 3
                    elif content == 'last-differs' and sz:
                        A[sz - 1], B[sz - 1] = 0x80, 0x7f
                    bytewise = (A > B) - (A < B)

                    def rd(a, it, A=A, B=B, sz=sz):
                        w = it.mem_width or 1
                        for base, arr in ((SELF_, A), (OBJ, B)):
                            if base <= a and a + w <= base + sz:
                                return sum(arr[a - base + j] << (8 * j) for j in range(w))
                        raise cint.NoEval('read outside the two objects')

                    def call(nm, e, it, same=same, sz=sz, inst=inst, events=events):
                        if nm is None:
                            events.append(('member', it.ev(e[1]), [it.ev(x) for x in e[2]]))
                            return MEMRET
                        if nm in ('instance', 'type_instance'):
                            return ('ep', 'inst', 0) if inst else 0
                        if nm == 'type_of':
                            v = it.ev(e[2][0])
                            return 8500 if (v == SELF_ or same) else 8600
                        if nm == 'size':
                            return sz if it.ev(e[2][0]) == 8500 else sz + 8
                        if nm == lib and lib == 'memcmp':
                            a_ = [it.ev(x) for x in e[2]]
                            events.append(('lib', a_))
                            # the real memcmp over the bytes it is pointed at (any magnitude)
                            x0, y0, n0 = a_
                            if not (SELF_ <= x0 <= SELF_ + sz and OBJ <= y0 <= OBJ + sz and x0 - SELF_ == y0 - OBJ and x0 - SELF_ + n0 <= sz):
                                raise cint.NoEval('memcmp of something else')
                            xa, yb = A[x0 - SELF_:x0 - SELF_ + n0], B[y0 - OBJ:y0 - OBJ + n0]
                            return LIBRET * ((xa > yb) - (xa < yb))
                        if nm == lib:
                            events.append(('lib', [it.ev(x) for x in e[2]]))
                            return it.ev(e[2][0])
                        if nm == 'memcpy' and lib == 'memcmp':
                            # bytes of one of the objects copied into a local (a word-at-a-time comparison)
                            d_, s_, n_ = it.ev(e[2][0]), it.ev(e[2][1]), it.ev(e[2][2])
                            if isinstance(d_, tuple) and d_[0] == 'lref' and isinstance(s_, int):
                                it.mem_width = n_
                                d_[1].locals[d_[2]] = rd(s_, it)
                                return d_
                        raise cint.NoEval('call %s' % nm)
                    atoms = {('global', 'NULL'): 0, ('elem', 'inst', 0, member): FN if has_member else 0}
                    r = cint.CInt(P, fn, atoms=atoms, call=call, mem=rd, N=util.Norm(P, fn, expand_locals=False, inline=False), strict=True).run([SELF_, OBJ])
                    label = '%s, %s types, size %d%s' % ('own %s' % member if (inst and has_member) else ('no instance' if not inst else 'instance with an empty member'),
                                                       'equal' if same else 'different', sz, (', bytes %s' % content) if content else '')
                    if r[0] == 'stuck':
                        unsup = unsup or '%s: %s' % (label, r[1])
                        continue
                    if inst and has_member:
                        good = r[0] == 'ret' and events == [('member', FN, [SELF_, OBJ])] and \
                            (ret != 'self' or r[1] == SELF_) and (ret not in ('lib', 'member') or r[1] == MEMRET)
                        which = 'dispatch'
                    elif same and sz and lib == 'memcmp':
                        # any route is fine as long as the sign is the sign of the byte-wise comparison of all size bytes
                        good = r[0] == 'ret' and isinstance(r[1], int) and ((r[1] > 0) - (r[1] < 0)) == bytewise
                        which = 'bytewise'
                    elif same and sz:
                        good = r[0] == 'ret' and events == [('lib', [SELF_, OBJ, sz])] and (ret != 'self' or r[1] == SELF_) and (ret != 'lib' or r[1] == LIBRET)
                        which = 'bytewise'
                    else:
                        good = r[0] == 'term' and r[1] == ('throw', 'TypeError') and not events
                        which = 'bytewise'
                    if not good and bad[which] is None:
                        did = ', '.join('%s%s' % (e_[0], tuple(e_[-1])) for e_ in events) or 'nothing is called'
                        bad[which] = '%s: %s; %s' % (label, did, 'returns %s' % (r[1],) if r[0] == 'ret' else 'raises %s' % (r[1][1] if isinstance(r[1], tuple) else r[1]))
    return bad, unsup


class Mismatch_(Exception):
    pass


def eval_type_cmp(P):
    """Type_Cmp / Type_Hash evaluated on pairs of type records given by their names (Type_Builtin_Name is the accessor, whatever it reads):
    cmp has the sign of the comparison of the two names as byte strings — in particular it is 0 exactly for equal names, whether or not
    the two records are the same object — and equal names hash equally.  Pairs: same object; two objects with the same name; names
    that differ in the first byte, in the last byte only, names longer than 16 / 32 bytes that differ only after that, one a prefix of
    the other, the empty name.
    -> (mismatch cmp, mismatch hash, unsupported, cases)"""
    fcmp = P.fn(P.slot('Type', 'Cmp', 'cmp'))
    fhash = P.fn(P.slot('Type', 'Hash', 'hash'))
    long1 = 'ConfigurationFileMissingError'
    long2 = 'ConfigurationFileCorruptError'
    long3 = 'A' * 40 + 'x'
    long4 = 'A' * 40 + 'y'
    names = [('Int', 'Int'), ('Int', 'Inu'), ('Int', 'Jnt'), ('Int', 'Integer'), ('Integer', 'Int'), ('', 'Int'), ('', ''), (long1, long2), (long2, long1), (long1, long1),
             (long3, long4), (long4, long3), ('KeyError', 'KeyError'), ('KeyError', 'ValueError'), ('b', 'a')]
    badc, badh, unsup, ncase = None, None, None, 0
    A, B = 5000, 6000

    def run(fn, args, na, nb, same):
        def call(nm, e, it):
            if nm == 'Type_Builtin_Name':
                v = it.ev(e[2][0])
                if v == A:
                    return ('str', na)
                if v == B:
                    return ('str', nb)
                raise cint.NoEval('name of something else')
            if nm == 'cast':
                return it.ev(e[2][0])
            if nm in ('strcmp', 'strncmp', 'memcmp'):
                x, y = it.ev(e[2][0]), it.ev(e[2][1])
                if not (isinstance(x, tuple) and x[0] == 'str' and isinstance(y, tuple) and y[0] == 'str'):
                    raise cint.NoEval('%s of something that is no name' % nm)
                xs, ys = x[1].encode(), y[1].encode()
                if nm != 'strcmp':
                    k = it.ev(e[2][2])
                    if nm == 'memcmp' and (k > len(xs) + 1 or k > len(ys) + 1):
                        raise cint.NoEval('memcmp beyond a name')
                    xs, ys = (xs + b'\0')[:k], (ys + b'\0')[:k]
                    if nm == 'strncmp':
                        xs, ys = xs.split(b'\0')[0], ys.split(b'\0')[0]
                return 3 * ((xs > ys) - (xs < ys))
            if nm == 'strlen':
                x = it.ev(e[2][0])
                if isinstance(x, tuple) and x[0] == 'str':
                    return len(x[1].encode())
                raise cint.NoEval('strlen of something that is no name')
            if nm == 'hash_data':
                x, k = it.ev(e[2][0]), it.ev(e[2][1])
                if isinstance(x, tuple) and x[0] == 'str' and k > len(x[1].encode()) + 1:
                    raise Mismatch_('hash_data is given %d bytes of the %d-byte name "%s": it reads what lies behind the name' % (k, len(x[1].encode()), x[1]))
                if isinstance(x, tuple) and x[0] == 'str' and 0 <= k <= len(x[1].encode()) + 1:
                    # an injective stand-in for a good hash of exactly these bytes
                    return int.from_bytes(x[1].encode()[:k][:7].ljust(7, b'\1'), 'little') ^ (len(x[1].encode()[:k]) << 56) ^ (sum(x[1].encode()[:k]) << 40 & 0xffffffffffffffff)
                raise cint.NoEval('hash_data of something that is no name (or beyond it)')
            raise cint.NoEval('call %s' % nm)
        it = cint.CInt(P, fn, atoms={('global', 'NULL'): 0}, call=call, recurse=True, max_steps=500, strict=True)
        return it.run(args)
    for na, nb in names:
        for same in ((True, False) if na == nb else (False,)):
            b = A if same else B
            label = 'types named "%s" and "%s"%s' % (na, nb, ' (one object)' if same else (' (two objects)' if na == nb else ''))
            ncase += 1
            r = run(fcmp, [A, b], na, na if same else nb, same)
            if r[0] == 'stuck':
                unsup = unsup or '%s: %s' % (label, r[1])
            elif r[0] != 'ret' or not isinstance(r[1], int):
                badc = badc or '%s: cmp does not return' % label
            else:
                xa, xb = na.encode(), nb.encode()
                want = (xa > xb) - (xa < xb)
                got = (r[1] > 0) - (r[1] < 0)
                if got != want:
                    badc = badc or '%s: cmp gives %d, the names compare %d' % (label, got, want)
            try:
                h1 = run(fhash, [A], na, nb, same)
                h2 = run(fhash, [b], na, na if same else nb, same)
            except Mismatch_ as x:
                badh = badh or '%s: %s' % (label, x)
                continue
            if h1[0] == 'stuck' or h2[0] == 'stuck':
                unsup = unsup or '%s: hash: %s' % (label, h1[1] if h1[0] == 'stuck' else h2[1])
            elif na == nb and h1[1] != h2[1]:
                badh = badh or '%s: equal names hash differently' % label
    return badc, badh, unsup, ncase


def report_type_cmp(P, ctx, rule, site, what=('cmp', 'hash')):
    badc, badh, unsup, ncase = eval_type_cmp(P)
    ctx.stats['paths'] += ncase
    for w, bad, fname, text in (('cmp', badc, P.slot('Type', 'Cmp', 'cmp'), 'two type records compare as their names do: 0 exactly for equal names (one object or two), otherwise the sign of the byte-wise order'),
                                ('hash', badh, P.slot('Type', 'Hash', 'hash'), 'a type hashes bytes of its name only (never what lies behind it): two records with equal names hash equally')):
        if w not in what:
            continue
        fn = P.fn(fname)
        ctx.fn(fn)
        if unsup and not bad:
            ctx.undecided(rule, fname, site(fn), 'leaves the evaluated fragment: ' + unsup)
        else:
            ctx.check(bad is None, rule, fname, site(fn), text + ' (%d pairs evaluated)' % ncase, [bad] if bad else None)
