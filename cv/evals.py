"""Evaluations (cint) shared by several rules: the generic functions `f(self, obj)` that call a type's own member when it has one and
fall back to a byte-wise library routine otherwise (assign -> memcpy, swap -> memswap, cmp -> memcmp)."""
from . import ir, util, cint


def eval_default_dispatch(P, fname, member, lib, ret):
    """ret: 'self' (returns self), 'void', 'lib' (returns what the library routine returned), 'member' (own member's result).
    Scenarios: the type has an instance of the class or not, the member is set or empty, the two objects have equal or different types,
    size(type) is 0 / 8 / 24.  Required: own member set -> it is called once with (self, obj) and nothing else happens; otherwise the
    library routine is called with (self, obj, size(type_of(self))) exactly when the types are equal and the size is non-zero, else
    TypeError is raised and nothing is copied or compared.
    Returns ({'bytewise': mismatch, 'dispatch': mismatch}, unsupported)."""
    fn = P.fn(fname)
    SELF_, OBJ, FN, LIBRET, MEMRET = 5000, 6000, 4242, 17, 23
    bad = {'bytewise': None, 'dispatch': None}
    unsup = None
    # byte contents of the two objects (only cmp looks at them): equal; first byte smaller but last byte larger (a comparison by machine
    # words orders these the other way round than memcmp); differing in the last byte only
    contents = [None] if lib != 'memcmp' else ['equal', 'first-smaller-last-larger', 'last-differs']
    for inst in (0, 1):
        for has_member in ((0, 1) if inst else (0,)):
            for same in (1, 0):
                for sz in (0, 8, 24):
                  for content in contents:
                    events = []
                    A = [((i * 7) + 3) & 0xff for i in range(sz)]
                    B = list(A)
                    if content == 'first-smaller-last-larger' and sz:
                        A[0], B[0] = 1, 2
                        A[7], B[7] = 9, 3
                    elif content == 'last-differs' and sz:
                        A[sz - 1], B[sz - 1] = 0x80, 0x7f
                    bytewise = (A > B) - (A < B)

                    def rd(a, it, A=A, B=B, sz=sz):
                        w = it.mem_width or 1
                        for base, arr in ((SELF_, A), (OBJ, B)):
                            if base <= a and a + w <= base + sz:
                                return sum(arr[a - base + j] << (8 * j) for j in range(w))
                        raise cint.NoEval('read outside the two objects')

                    def call(nm, e, it, same=same, sz=sz, inst=inst, events=events):
                        if nm is None:
                            events.append(('member', it.ev(e[1]), [it.ev(x) for x in e[2]]))
                            return MEMRET
                        if nm in ('instance', 'type_instance'):
                            return ('ep', 'inst', 0) if inst else 0
                        if nm == 'type_of':
                            v = it.ev(e[2][0])
                            return 8500 if (v == SELF_ or same) else 8600
                        if nm == 'size':
                            return sz if it.ev(e[2][0]) == 8500 else sz + 8
                        if nm == lib and lib == 'memcmp':
                            a_ = [it.ev(x) for x in e[2]]
                            events.append(('lib', a_))
                            # the real memcmp over the bytes it is pointed at (any magnitude)
                            x0, y0, n0 = a_
                            if not (SELF_ <= x0 <= SELF_ + sz and OBJ <= y0 <= OBJ + sz and x0 - SELF_ == y0 - OBJ and x0 - SELF_ + n0 <= sz):
                                raise cint.NoEval('memcmp of something else')
                            xa, yb = A[x0 - SELF_:x0 - SELF_ + n0], B[y0 - OBJ:y0 - OBJ + n0]
                            return LIBRET * ((xa > yb) - (xa < yb))
                        if nm == lib:
                            events.append(('lib', [it.ev(x) for x in e[2]]))
                            return it.ev(e[2][0])
                        raise cint.NoEval('call %s' % nm)
                    atoms = {('global', 'NULL'): 0, ('elem', 'inst', 0, member): FN if has_member else 0}
                    r = cint.CInt(P, fn, atoms=atoms, call=call, mem=rd, N=util.Norm(P, fn, expand_locals=False, inline=False), strict=True).run([SELF_, OBJ])
                    label = '%s, %s types, size %d%s' % ('own %s' % member if (inst and has_member) else ('no instance' if not inst else 'instance with an empty member'),
                                                       'equal' if same else 'different', sz, (', bytes %s' % content) if content else '')
                    if r[0] == 'stuck':
                        unsup = unsup or '%s: %s' % (label, r[1])
                        continue
                    if inst and has_member:
                        good = r[0] == 'ret' and events == [('member', FN, [SELF_, OBJ])] and \
                            (ret != 'self' or r[1] == SELF_) and (ret not in ('lib', 'member') or r[1] == MEMRET)
                        which = 'dispatch'
                    elif same and sz and lib == 'memcmp':
                        # any route is fine as long as the sign is the sign of the byte-wise comparison of all size bytes
                        good = r[0] == 'ret' and isinstance(r[1], int) and ((r[1] > 0) - (r[1] < 0)) == bytewise
                        which = 'bytewise'
                    elif same and sz:
                        good = r[0] == 'ret' and events == [('lib', [SELF_, OBJ, sz])] and (ret != 'self' or r[1] == SELF_) and (ret != 'lib' or r[1] == LIBRET)
                        which = 'bytewise'
                    else:
                        good = r[0] == 'term' and r[1] == ('throw', 'TypeError') and not events
                        which = 'bytewise'
                    if not good and bad[which] is None:
                        did = ', '.join('%s%s' % (e_[0], tuple(e_[-1])) for e_ in events) or 'nothing is called'
                        bad[which] = '%s: %s; %s' % (label, did, 'returns %s' % (r[1],) if r[0] == 'ret' else 'raises %s' % (r[1][1] if isinstance(r[1], tuple) else r[1]))
    return bad, unsup
