"""C02 — Table behaves as a finite map whatever the hashing does (structural necessary conditions)."""
import os
from . import ir, util, probe, poly, loops
from .report import site
from .front import AnalysisBroken
from .rules_c12 import guards_of, dominated_by_guard, throw_only, succ_of

UNITS = ['src/Table.c', 'src/GC.c', 'src/Exception.c']
LOOKUPS = ['Table_Get', 'Table_Mem', 'Table_Rem']
INSERT = 'Table_Set_Move'


def majority(forms):
    """{name: hashable form} -> (the most common form, name of one function that has it)"""
    from collections import Counter
    c = Counter(forms.values())
    best = c.most_common(1)[0][0]
    return best, [k for k, v in forms.items() if v == best][0]


def check_probe(P, ctx):
    rule = 'C02.probe-agreement'
    from . import tablemodel
    from .front import AnalysisBroken
    OPOF = {'Table_Get': 'get', 'Table_Mem': 'mem', 'Table_Rem': 'rem', INSERT: 'set'}
    fmbad, fmunsup, _n = tablemodel.finite_map(P)
    fr = {}
    for f in LOOKUPS + [INSERT]:
        try:
            if os.environ.get('CV_NOFRAG'):
                raise AnalysisBroken('fragments disabled')
            fr[f] = probe.lookup_fragments(P, f)
        except AnalysisBroken as x:
            # the probe loop of this function is not where the fragment reader looks (moved into a helper, say): the function is then
            # judged by the evaluation of the table as a finite map alone (C02.finite-map: every key found / refused, whatever the hashes)
            op = OPOF[f]
            if fmunsup or fmbad.get(op):
                raise
            for part in (('start', 'advance') + (('stop', 'hit', 'every-slot-compared') if f in LOOKUPS else ())):
                ctx.proved(rule, f + ':' + part, site(P.fn(f)), 'the probe loop is not in this function\'s own body; its behaviour is decided by evaluation (C02.finite-map Table.%s)' % op)
            fr[f] = None
    have = [f for f in LOOKUPS if fr.get(f) is not None]
    best, refname = majority({f: frozenset(probe.stop_set(fr[f])) for f in have}) if have else (None, None)
    ref = fr[refname] if refname else None
    for f in LOOKUPS + [INSERT]:
        F = fr[f]
        if F is None or ref is None:
            continue
        ctx.fn(F.fn)
        s = site(F.fn)
        st = {k: ir.fmt(v) for k, v in F.start.items()}
        rst = {k: ir.fmt(v) for k, v in ref.start.items()}
        ctx.check(st == rst and st.get('i') == '(hash(arg1) % arg0->nslots)' and st.get('j') == '0', rule, f + ':start', s,
                  'the probe starts at hash(key) modulo the slot count with distance 0', ['here: %s' % st])
        adv = {a for a in probe.advance_set(F) if not (a[0] == 'j' and a[1] == '=')}
        radv = {a for a in probe.advance_set(ref) if not (a[0] == 'j' and a[1] == '=')}
        ctx.check(adv == radv, rule, f + ':advance', s, 'each step moves to (i+1) modulo the slot count and increments the distance',
                  ['here: %s' % sorted(adv, key=str), '%s: %s' % (refname, sorted(radv, key=str))])
        if f in LOOKUPS:
            ctx.check(probe.stop_set(F) == probe.stop_set(ref) and len(probe.stop_set(F)) == 2, rule, f + ':stop', s,
                      'a lookup stops exactly at an empty slot or when its distance exceeds the resident\'s probe distance',
                      ['here: %s' % sorted(probe.stop_set(F)), '%s: %s' % (refname, sorted(probe.stop_set(ref)))])
            hits = [(n, c) for n, c in F.conds if ir.fmt(c) == 'eq(Table_Key(arg0, I), arg1)']
            ctx.check(len(hits) == 1, rule, f + ':hit', s, 'the hit test is eq(stored key of the probed slot, sought key)')
            # every occupied slot within reach is compared: the probe moves on only over the miss edge of that test
            if len(hits) == 1:
                hn = hits[0][0]
                advn = [n for (n, var, op, rhs) in F.writes if var == 'i']
                g = F.g
                skipped = [a for a in advn if a['id'] in g.reach_from(F.hnode['id'], cut_edges=[(hn['id'], False)], cut_nodes=[x['id'] for x in advn if x is not a])]
                ctx.check(bool(advn) and not skipped, rule, f + ':every-slot-compared', s,
                          'the probe advances to the next slot only after the stored key of the current slot was compared and differed '
                          '(a slot skipped without comparison hides a present key)',
                          ['the advance at %s is reachable without the comparison' % g.describe(skipped[0])] if skipped else None)
    why = probe.probe_function_eval(P, 'Table_Probe')
    ctx.check(why is None, rule, 'Table_Probe', site(P.fn('Table_Probe')),
              'the probe distance of a resident is (slot - home) modulo the slot count, non-negative also for entries that wrapped past the end of the table '
              '(evaluated with exact C conversions for table sizes 1..7)', [why] if why else None)
    ctx.floor(rule, 15)
    return fr


def check_insert(P, ctx, fr):
    F = fr[INSERT]
    if F is None:
        # the insertion loop is not where the fragment reader looks: a key is never stored twice and every stored key is found again
        # on the finite map (C02.finite-map Table.set, which check_probe required to be decided)
        fn0 = P.fn(INSERT)
        ctx.proved('C02.hit-before-displacement', INSERT, site(fn0), 'decided by evaluation (C02.finite-map Table.set): no key is ever stored twice')
        ctx.proved('C02.count-pairing', INSERT + ':stored-hash', site(fn0), 'decided by evaluation (C02.finite-map Table.set): every stored key is found from its home slot')
        return
    g, fn = F.g, F.fn
    s = site(fn)
    rule = 'C02.hit-before-displacement'
    disp = [(n, c) for n, c in F.conds if ir.fmt(c) in ('(P <= J)', '(P < J)')]
    hit = [(n, c) for n, c in F.conds if c[0] == 'call' and ir.callee_name(c) == 'eq']
    if len(disp) != 1 or len(hit) != 1:
        ctx.undecided(rule, INSERT, s, 'insertion loop no longer has one displacement test and one replace-on-equal test')
    else:
        strict = ir.fmt(disp[0][1]) == '(P < J)'
        other = [ir.fmt(a) for a in hit[0][1][2] if ir.fmt(a) != 'Table_Key(arg0, I)']
        invariant_operand = other == ['arg1']
        ctx.check(strict or invariant_operand, rule, INSERT, site(fn, disp[0][0]['line']),
                  'the replace-on-equal test must not be able to miss a resident equal to the inserted key: either it compares with the key being '
                  'inserted (loop-invariant) or displacement is strict (distance > resident\'s). Here it compares with the *carried* entry and displaces '
                  'on >=, so an equal-distance resident is displaced before the equal key behind it is reached: the key ends up stored twice',
                  ['replace test: %s' % ir.fmt(hit[0][1]), 'displacement test: %s (non-strict)' % ir.fmt(disp[0][1])])
        # stored hash is home + 1 in both branches
    rule = 'C02.count-pairing'
    # stored hash: ihash = i + 1 copied to the head of the carried record (both branches)
    ih = [n for n in g.live() if n.get('decl') and n['decl']['init'] is not None and ir.fmt(F.rc(n['decl']['init'])) == '(1 + I)']
    ihv = {('local', n['decl']['name'], n['decl']['id']) for n in ih}
    cp = [(n, c) for n in g.live() if n['expr'] is not None for c in ir.calls(n['expr']) if ir.callee_name(c) == 'memcpy' and
          ir.top_nocast(c[2][1])[0] == 'un' and ir.top_nocast(c[2][1])[1] == '&' and ir.top_nocast(ir.top_nocast(c[2][1])[2]) in ihv and
          util.Norm(P, fn).canon(c[2][0]) == ('arrow', ('param', 0), 'sspace0')]
    # on every path to the probe loop the head word of the carried record receives home slot + 1, after the record was cleared
    ok = bool(ih) and bool(cp) and g.must_pass(F.hnode['id'], [n['id'] for n, c in cp])
    clr = [n for n in g.live() if n['expr'] is not None and any(ir.callee_name(c) == 'memset' and util.Norm(P, fn).canon(c[2][0]) == ('arrow', ('param', 0), 'sspace0') for c in ir.calls(n['expr']))]
    ok = ok and all(n['id'] not in g.reach_from(x['id']) or True for n in clr for x, c in cp) and all(not any(c_['id'] in g.reach_from(x['id']) for c_ in clr) for x, c in cp)
    ctx.check(ok, rule, INSERT + ':stored-hash', s, 'on both the move and the copy branch the carried record starts with home slot + 1 as its hash (0 = empty), written before probing starts')
    return


def check_miss(P, ctx, fr):
    rule = 'C02.miss-raises'
    from . import tablemodel
    fmbad, fmunsup, _n = tablemodel.finite_map(P)
    for f, want in (('Table_Get', 'KeyError'), ('Table_Rem', 'KeyError'), ('Table_Mem', False)):
        F = fr[f]
        if F is None:
            ctx.proved(rule, f, site(P.fn(f)), 'decided by evaluation (C02.finite-map): an unbound key %s, also in a table without slots' % ('raises KeyError' if want else 'yields false'))
            continue
        g = F.g
        s = site(F.fn)
        stops = [(n, c) for n, c in F.conds if util.mentions(c, lambda y: y in (('local', 'H'), ('local', 'J'))) and c[0] == 'bin']
        ok = bool(stops)
        for n, c in stops:
            tgt = succ_of(n, True)
            # the miss exit: reached only through a stop condition
            if want is False:
                reach = g.reach_from(tgt, cut_nodes=[x['id'] for x, _ in stops if x is not n])
                rets = [g.nodes[i] for i in reach if g.nodes[i]['kind'] == 'ret']
                first = g.nodes[tgt]
                ok = ok and (first['kind'] == 'ret' and util.const_int(first['expr']) == 0 or (first['kind'] == 'cond'))
            else:
                first = g.nodes[tgt]
                ok = ok and (first['kind'] == 'cond' or (first['kind'] == 'term' and first['why'] == ('throw', want)))
        # empty table
        N = util.Norm(P, F.fn, inline=False)
        zg = guards_of(g, lambda c, n: True if N.canon(n['expr']) == ir.canon(('bin', '==', ('arrow', ('param', 'self', 0), 'nslots'), ('int', 0))) else None)
        if want is False:
            okz = len(zg) == 1 and g.nodes[succ_of(zg[0][0], True)]['kind'] == 'ret' and util.const_int(g.nodes[succ_of(zg[0][0], True)]['expr']) == 0
        else:
            okz = len(zg) == 1 and throw_only(g, succ_of(zg[0][0], True)) and g.nodes[succ_of(zg[0][0], True)]['why'] == ('throw', want)
        ctx.check(ok and okz, rule, f, s, 'an absent key %s, both when the probe gives up and when the table has no slots' % ('raises KeyError' if want else 'yields false'))
    ctx.floor(rule, 3)


def check_modulo_guard(P, ctx):
    """every `% nslots` reachable from an entry point is dominated by a test that nslots is non-zero whose zero branch
    leaves or re-establishes slots"""
    rule = 'C02.modulo-guard'
    entries = [('Table_Get', 'get'), ('Table_Set', 'set'), ('Table_Mem', 'mem'), ('Table_Rem', 'rem')]
    for fname, what in entries:
        # the function (or the helper it delegates to) that takes the modulo
        todo = [fname]
        seen = set()
        found = 0
        bad = None
        while todo:
            f = todo.pop()
            if f in seen:
                continue
            seen.add(f)
            fn = P.fn(f)
            g = P.cfg(fn)
            N = util.Norm(P, fn, inline=False)
            ns = ('arrow', ('param', 0), 'nslots')
            for n in g.live():
                if n['expr'] is None:
                    continue
                mods = [x for x in ir.walk(N.canon(n['expr'])) if x[0] == 'bin' and x[1] == '%' and x[3] == ns and
                        util.mentions(x[2], lambda y: y[0] == 'call' and ir.callee_name(y) == 'hash')]
                if not mods:
                    continue
                found += 1
                def zpred(c, m, N=N, ns=ns):
                    c = N.canon(m['expr'])
                    if c[0] == 'bin' and c[1] in ('==', '!=') and ns in (c[2], c[3]) and ('int', 0) in (c[2], c[3]):
                        return c[1] == '=='
                    return None
                zg = guards_of(g, zpred)
                ok = False
                for (gn, badpol) in zg:
                    if not g.must_pass(n['id'], [gn['id']]):
                        continue
                    zb = succ_of(gn, badpol)
                    # zero branch: never reaches the modulo ...
                    if n['id'] not in g.reach_from(zb):
                        ok = True
                    else:
                        # ... or passes a call that gives the table slots again (rehash to an ideal size)
                        rh = [x['id'] for (x, c) in g.nodes_calling('Table_Rehash') if ir.top_nocast(c[2][1])[0] == 'call' and ir.callee_name(ir.top_nocast(c[2][1])) == 'Table_Ideal_Size']
                        if rh and g.must_pass(n['id'], rh, start=zb):
                            ok = True
                if not ok:
                    bad = (fn, n)
            # helpers that receive self and take the modulo
            for c, ln in ir.all_calls(fn['body']):
                nm = ir.callee_name(c)
                if nm in P.functions and P.functions[nm]['unit'] == fn['unit'] and nm not in ('Table_Rehash',) and c[2] and \
                        ir.top_nocast(c[2][0]) in ({('param', fn['params'][0][0], 0)} | util.aliases_of_param(fn, 0)):
                    if any(x[0] == 'bin' and x[1] == '%' for e, _ in ir.all_exprs(P.fn(nm)['body']) for x in ir.walk(e)):
                        todo.append(nm)
        key = 'Table.Get.%s' % what
        if found == 0:
            ctx.undecided(rule, key, site(P.fn(fname)), 'no `hash(key) %% nslots` found for this entry point')
        elif bad:
            ctx.refuted(rule, key, site(bad[0], bad[1]['line']),
                        '`hash(key) %% nslots` is reachable from %s with nslots == 0 (after the table was emptied with resize(t, 0) / assign from an empty '
                        'container): division by zero. The three lookups test for an empty table first; this path does not' % what,
                        ['site: %s' % P.cfg(bad[0]).describe(bad[1])])
        else:
            ctx.proved(rule, key, site(P.fn(fname)), 'the modulo by the slot count is dominated by a zero test whose zero branch leaves or re-creates the slots')
    ctx.floor(rule, 4)


def check_counts(P, ctx, fr):
    rule = 'C02.count-pairing'
    # Table_Rem: the count follows the bindings (evaluated: C02.finite-map checks the count after every set and rem)
    from . import tablemodel
    from .absmodel import Unsupported
    fmbad, fmunsup, _n = tablemodel.finite_map(P)
    fn = P.fn('Table_Rem')
    if fmunsup and not fmbad.get('rem'):
        ctx.undecided(rule, 'Table_Rem', site(fn), 'the table leaves the evaluated fragment: ' + fmunsup)
    else:
        ctx.check(fmbad.get('rem') is None, rule, 'Table_Rem', site(fn), 'a found key is removed with the count decremented exactly once (evaluated: after every rem the count equals the number of bindings)',
                  [fmbad['rem']] if fmbad.get('rem') else None)
    # Table_Rehash evaluated on populated tables: same bindings afterwards, count equal to them, old store freed
    fn = P.fn('Table_Rehash')
    ctx.fn(fn)
    try:
        rbad, runsup, rn = tablemodel.eval_table_rehash(P)
    except Unsupported as x:
        rbad, runsup, rn = None, str(x), 0
    ctx.stats['paths'] += rn
    if runsup and not rbad:
        ctx.undecided(rule, 'Table_Rehash', site(fn), 'rehash leaves the evaluated fragment: ' + runsup)
    else:
        ctx.check(rbad is None, rule, 'Table_Rehash', site(fn), 'rehash resets the count, then re-inserts every occupied slot of the old store, so the new store binds what the old one did and the count '
                  'equals the number of entries; the old store is freed (%d tables evaluated, growing and shrinking)' % rn, [rbad] if rbad else None)
    # set and rem that cross a resize threshold: the rehash on the way and the count update must not interfere
    check_resizing_ops(P, ctx, rule)
    # Table_Clear sets count, slots and data together
    fn = P.fn('Table_Clear')
    g = P.cfg(fn)
    N = util.Norm(P, fn, inline=False)
    st = {}
    for n in g.live():
        if n['expr'] is not None and n['kind'] == 'stmt':
            e = N.canon(n['expr'])
            if e[0] == 'assign' and e[2][0] == 'arrow' and e[2][1] == ('param', 0):
                st[e[2][2]] = (n, e[3])
    ok = set(st) >= {'nitems', 'nslots', 'data'} and util.const_int(st['nitems'][1]) == 0 and util.const_int(st['nslots'][1]) == 0 and ir.is_null(st['data'][1]) and \
        all(g.must_pass(g.exit, [st[k][0]['id']]) for k in ('nitems', 'nslots', 'data'))
    ctx.check(ok, rule, 'Table_Clear', site(fn), 'clearing resets count, slot count and data pointer together on every path')
    # set grows after inserting; the two resize helpers rehash to the ideal size exactly when needed (evaluated with cint)
    from . import cint

    def resize_eval(fname, args, want_insert, grows):
        fn = P.fn(fname)
        bad, unsup = None, None
        for nslots in (0, 53, 101):
            for ideal in (0, 53, 101, 211):
                for nitems in (0, 7):
                    events = []

                    def call(nm, e, it, events=events, ideal=ideal, nitems=nitems):
                        if nm == 'Table_Set_Move':
                            events.append(('insert',))
                            return 0
                        if nm == 'Table_Ideal_Size':
                            if it.ev(e[2][0]) != nitems:
                                events.append(('ideal size of something that is not the count',))
                            return ideal
                        if nm == 'Table_Rehash':
                            events.append(('rehash', it.ev(e[2][1])))
                            return 0
                        raise cint.NoEval('call %s' % nm)
                    def build(oracle, call=call, events=events):
                        del events[:]
                        atoms = {('elem', 'self', 0, 'nslots'): nslots, ('elem', 'self', 0, 'nitems'): nitems}
                        it = cint.CInt(P, fn, atoms=atoms, call=call, recurse=True)
                        it.unknown = oracle          # a field the model does not know may hold anything
                        r = it.run([('ep', 'self', 0)] + args)
                        return r, list(events)
                    for assign, (r, evs) in cint.all_unknown(build):
                        if r[0] != 'ret':
                            unsup = '%s' % (r[1],)
                            continue
                        # necessary for the map: growth happens when the ideal size exceeds the slots; any rehash goes to the ideal size
                        # (a rehash that is not needed is harmless, a missed shrink only wastes memory)
                        need = grows and ideal > nslots
                        want = ([('insert',)] if want_insert else []) + ([('rehash', ideal)] if need else [])
                        okev = evs == want or (not need and evs == want + [('rehash', ideal)])
                        if not okev and bad is None:
                            bad = '%d slots, ideal size %d for the count%s: %s' % (nslots, ideal, ''.join(', %s = %d' % (k_[3], v_) for k_, v_ in assign.items()),
                                                                             ', '.join('%s%s' % (e_[0], e_[1:] if len(e_) > 1 else '') for e_ in evs) or 'nothing happens')
        return fn, bad, unsup
    fn, bad, unsup = resize_eval(P.slot('Table', 'Get', 'set'), [8000, 8001], True, True)
    if unsup and not bad:
        ctx.undecided('C02.grow-before-full', 'Table_Set', site(fn), 'set leaves the evaluated fragment: ' + unsup)
    else:
        ctx.check(bad is None, 'C02.grow-before-full', 'Table_Set', site(fn), 'every set is followed by the growth check (rehash to the ideal size when that exceeds the slot count), so a free slot always '
                  'remains for the next insertion', [bad] if bad else None)
    for f, grows in (('Table_Resize_More', True), ('Table_Resize_Less', False)):
        if P.fn(f, required=False) is None:
            ctx.proved('C02.grow-before-full', f, site(fn), 'no separate helper: the size test is part of its caller (%s)' % (
                'the growth test is evaluated with set' if grows else 'a shrink is not needed for the map; the rehash it would call is evaluated on its own'))
            continue
        fn2, bad, unsup = resize_eval(f, [], False, grows)
        if unsup and not bad:
            ctx.undecided('C02.grow-before-full', f, site(fn2), 'leaves the evaluated fragment: ' + unsup)
        else:
            ctx.check(bad is None, 'C02.grow-before-full', f, site(fn2), ('rehashes to the ideal size for the current count whenever that is larger than the slot count' if grows else 'a shrink rehashes to the ideal size for the current count, never to anything else'),
                      [bad] if bad else None)
    ctx.floor(rule, 4)
    ctx.floor('C02.grow-before-full', 3)


def check_backshift(P, ctx):
    """after a removal the entries behind the gap are shifted back exactly while they are away from home, wrap-around included: decided
    by the evaluation of the table as a finite map (tablemodel) — removals from collision chains that wrap past the last slot, followed by
    the library's own lookups of every remaining key.  (The registry of the collector has the same loop; there it is still read as a
    truth table, C17.)"""
    from . import tablemodel
    rule = 'C02.back-shift'
    fn = P.fn('Table_Rem')
    fmbad, fmunsup, _n = tablemodel.finite_map(P)
    if fmunsup and not fmbad.get('rem'):
        ctx.undecided(rule, 'Table_Rem', site(fn), 'the table leaves the evaluated fragment: ' + fmunsup)
    else:
        ctx.check(fmbad.get('rem') is None, rule, 'Table_Rem', site(fn), 'after a removal the following entries are shifted back one slot, each moved as a whole record, exactly while the next slot is occupied and its '
                  'entry is away from home (which accounts for wrap-around); the vacated slot is cleared — evaluated: every remaining key is found afterwards, none twice', [fmbad['rem']] if fmbad.get('rem') else None)
    ctx.floor(rule, 1)


def check_layout(P, ctx, H=None):
    """the record layout is whatever the accessors say; what must hold is agreement: hash word, key (with header) and value (with header)
    lie inside one step without overlapping, the scratch-record accessors use the same offsets as the slot accessors, and every site
    that moves or reads record parts (insertion, displacement, rehash, hash, cursors) is decided by evaluating it on the memory the
    accessors lay out (tablemodel, absmodel)"""
    from . import cint, absmodel, tablemodel
    rule = 'C02.layout'
    SELF = absmodel.SELF
    HDR = 8 * len(P.records['Header']['fields']) if 'Header' in P.records else 24
    geo = None
    unsup = None
    try:
        for ksize, vsize in ((8, 16), (24, 8), (16, 40)):
            atoms = {('global', 'NULL'): 0}
            for f, v in (('ktype', 8500), ('vtype', 8501), ('ksize', ksize), ('vsize', vsize), ('nitems', 0), ('nslots', 4), ('data', 600000), ('sspace0', 610000), ('sspace1', 620000)):
                atoms[('elem', 'self', 0, f)] = v
            step = absmodel.sub(P, 'Table_Step', [SELF], atoms)
            for i in (0, 1, 3):
                base = 600000 + i * step
                hw = absmodel.probe_read(P, 'Table_Key_Hash', [SELF, i], atoms)
                key = absmodel.sub(P, 'Table_Key', [SELF, i], atoms)
                val = absmodel.sub(P, 'Table_Val', [SELF, i], atoms)
                msg = None
                if hw != base:
                    msg = ('Table_Key_Hash', 'slot %d: the hash word is read at offset %d of the record' % (i, hw - base))
                elif not (base + 8 + HDR <= key and key + ksize <= base + step):
                    msg = ('Table_Key', 'key size %d: the key of slot %d (with its header) occupies offsets %d..%d of a %d-byte record that starts with the 8-byte hash word' % (ksize, i, key - HDR - base, key + ksize - base, step))
                elif not (key + ksize + HDR <= val and val + vsize <= base + step):
                    msg = ('Table_Val', 'sizes %d/%d: the value of slot %d (with its header) occupies offsets %d..%d; the key ends at %d and the record has %d bytes' % (
                        ksize, vsize, i, val - HDR - base, val + vsize - base, key + ksize - base, step))
                if msg:
                    geo = geo or msg
            for f, slotf in (('Table_Swapspace_Key', 'Table_Key'), ('Table_Swapspace_Val', 'Table_Val')):
                a_ = absmodel.sub(P, f, [SELF, 610000], atoms) - 610000
                b_ = absmodel.sub(P, slotf, [SELF, 0], atoms) - 600000
                if a_ != b_:
                    geo = geo or (f, 'sizes %d/%d: the scratch record accessor uses offset %d, the slot accessor %d' % (ksize, vsize, a_, b_))
    except absmodel.Unsupported as x:
        unsup = str(x)
    texts = {'Table_Key': 'key is at offset key of its record (records are `step` bytes apart)', 'Table_Val': 'val is at offset val of its record (records are `step` bytes apart)',
             'Table_Swapspace_Key': 'key is at offset key of its record (records are `step` bytes apart)', 'Table_Swapspace_Val': 'val is at offset val of its record (records are `step` bytes apart)',
             'Table_Step': 'a record is 8 (hash) + header + ksize + header + vsize bytes', 'Table_Key_Hash': 'the hash word is the first word of the record'}
    for f in ('Table_Key', 'Table_Val', 'Table_Swapspace_Key', 'Table_Swapspace_Val', 'Table_Step', 'Table_Key_Hash'):
        fn = P.fn(f, required=False) or P.fn('Table_Set_Move')
        if unsup:
            ctx.undecided(rule, f, site(fn), 'the accessors leave the evaluated fragment: ' + unsup)
        else:
            mine = geo is not None and (geo[0] == f or (f == 'Table_Step' and geo[0] in ('Table_Key', 'Table_Val')))
            ctx.check(not mine, rule, f, site(fn), texts[f] + ' (accessors evaluated for three key/value sizes: hash word, key and value with their headers fit one step without overlap)',
                      [geo[1]] if mine else None)
    # insertion, displacement and rehash move record parts with memcpy: carried out on the model by the finite-map evaluation
    fmbad, fmunsup, _n = tablemodel.finite_map(P)
    fn = P.fn('Table_Set_Move')
    for key_, text in (('Table_Set_Move:carried-record', 'headers, key and value of the carried record are written at the offsets of the record layout (move and copy branches)'),
                       ('Table_Set_Move:record-moves', 'inside the probe loop records are copied as a whole (Table_Step bytes)')):
        if fmunsup and not fmbad.get('set'):
            ctx.undecided(rule, key_, site(fn), 'the table leaves the evaluated fragment: ' + fmunsup)
        else:
            ctx.check(fmbad.get('set') is None, rule, key_, site(fn), text + ' — every copy covers whole parts of a record and the table afterwards holds the right bindings (C02.finite-map)',
                      [fmbad['set']] if fmbad.get('set') else None)
    fn = P.fn('Table_Rehash')
    try:
        rbad, runsup, rn = tablemodel.eval_table_rehash(P)
    except absmodel.Unsupported as x:
        rbad, runsup, rn = None, str(x), 0
    if runsup and not rbad:
        ctx.undecided(rule, 'Table_Rehash', site(fn), 'rehash leaves the evaluated fragment: ' + runsup)
    else:
        ctx.check(rbad is None, rule, 'Table_Rehash', site(fn), 'rehash locates hash, key and value of old records with the layout offsets (evaluated: the new store binds what the old one did)', [rbad] if rbad else None)
    fn = P.fn(P.slot('Table', 'Hash', 'hash'))
    try:
        hbad, hunsup, hn = absmodel.eval_visits(P, 'Table', fn['name'], 'hash')
    except absmodel.Unsupported as x:
        hbad, hunsup, hn = None, str(x), 0
    if hunsup and not hbad:
        ctx.undecided(rule, 'Table_Hash', site(fn), 'the hash leaves the evaluated fragment: ' + hunsup)
    else:
        ctx.check(hbad is None, rule, 'Table_Hash', site(fn), 'the value of an entry is found ksize + header bytes behind its key (evaluated: every key and value hashed once)', [hbad] if hbad else None)
    # the cursors, evaluated over slot memory laid out by the accessors: a wrong stride or hash-word offset reads an address that holds
    # no hash word, or yields the wrong sequence
    from . import absmodel
    try:
        wbad, wunsup, wn = absmodel.eval_cursor_walk(P, 'Table', which=('iter_init', 'iter_next', 'iter_last', 'iter_prev'))
    except absmodel.Unsupported as x:
        wbad, wunsup, wn = {}, str(x), 0
    ctx.stats['paths'] += wn
    for f, m in (('Table_Iter_Next', 'iter_next'), ('Table_Iter_Prev', 'iter_prev')):
        fn = P.fn(P.slot('Table', 'Iter', m))
        if wunsup and not wbad.get(m):
            ctx.undecided(rule, f, site(fn), 'the cursor function leaves the evaluated fragment: ' + wunsup)
        else:
            ctx.check(wbad[m] is None, rule, f, site(fn), 'the cursor moves by one record and reads the hash word header + 8 bytes before the key '
                      '(evaluated on every occupancy of up to 4 slots)', [wbad[m]] if wbad[m] else None)
    ctx.floor(rule, 12)


def check_scratch(P, ctx):
    """the two scratch records live as long as the table: released only by the destructor"""
    rule = 'C02.scratch-lifetime'
    u = P.units['src/Table.c']
    delf = P.slot('Table', 'New', 'destruct')
    n = 0
    for fname, fn in sorted(u['functions'].items()):
        N = util.Norm(P, fn, inline=False)
        for c, ln in ir.all_calls(fn['body']):
            if ir.callee_name(c) == 'free' and c[2]:
                t = N.canon(c[2][0])
                if t[0] == 'arrow' and t[2] in ('sspace0', 'sspace1'):
                    n += 1
                    ctx.check(fname == delf, rule, '%s:%s' % (fname, t[2]), site(fn, ln),
                              'the scratch records used by every insertion are freed only when the table itself is destroyed (an emptied table must keep working)')
        for e, ln in ir.all_exprs(fn['body']):
            for ev in util.expr_events(e, None):
                if ev['t'] == 'write':
                    l = N.canon(ev['lhs'])
                    if l[0] == 'arrow' and l[2] in ('sspace0', 'sspace1') and ev['rhs'] is not None and ir.is_null(ev['rhs']):
                        ctx.refuted(rule, '%s:%s:nulled' % (fname, l[2]), site(fn, ln), 'a scratch record pointer is cleared while the table stays alive')
    ctx.floor(rule, 2)


def check_finite_map(P, ctx):
    """the Table evaluated as a finite map on small instances with colliding, wrapping hashes (cv/tablemodel.py)"""
    from . import tablemodel
    from .absmodel import Unsupported
    rule = 'C02.finite-map'
    try:
        bad, unsup, ncase = tablemodel.finite_map(P)
    except Unsupported as x:
        bad, unsup, ncase = {}, str(x), 0
    ctx.stats['paths'] += ncase
    what = {'set': 'after every set — new key, colliding key, displaced resident, replaced binding, set into an emptied table — the slots hold exactly the bindings of the map, the count '
                   'matches, and what left the table was destructed once',
            'rem': 'after every rem the slots hold exactly the remaining bindings (back-shift included), the count matches, the removed key and value were destructed once; an unbound key raises KeyError',
            'get': 'get finds the value of every bound key, whatever the hash collisions and wrap-around, and raises KeyError for an unbound one',
            'mem': 'mem answers true exactly for the bound keys'}
    for m in ('set', 'rem', 'get', 'mem'):
        fn = P.fn(P.slot('Table', 'Get', m))
        ctx.fn(fn)
        if unsup and not bad.get(m):
            ctx.undecided(rule, 'Table.' + m, site(fn), 'the table leaves the evaluated fragment: ' + unsup)
        else:
            ctx.check(bad[m] is None, rule, 'Table.' + m, site(fn), what[m] + ' (%d operations evaluated on a 5-slot table, 30 hash patterns)' % ncase, [bad[m]] if bad[m] else None)
    ctx.floor(rule, 4)


def check_resizing_ops(P, ctx, rule):
    from . import tablemodel
    from .absmodel import Unsupported
    fn = P.fn(P.slot('Table', 'Get', 'rem'))
    ctx.fn(fn)
    try:
        zbad, zunsup, zn = tablemodel.eval_table_resizing_ops(P)
    except Unsupported as x:
        zbad, zunsup, zn = None, str(x), 0
    ctx.stats['paths'] += zn
    if zunsup and not zbad:
        ctx.undecided(rule, 'resize-on-the-way', site(fn), 'leaves the evaluated fragment: ' + zunsup)
    else:
        ctx.check(zbad is None, rule, 'resize-on-the-way', site(fn), 'a set that grows and a rem that shrinks the table on the way leave exactly the abstract map bound, the count equal '
                  'to it and every key findable (%d cases evaluated)' % zn, [zbad] if zbad else None)


def check_size_round(P, ctx, helper='Table_Size_Round', rule='C02.layout'):
    """the slot size of a key / value is its type's size rounded *up* to whole words: a slot smaller than the object lets it run into the
    next header (a type whose size is no multiple of 8 then corrupts its neighbours); evaluated for sizes 0..40"""
    from . import cint
    fn = P.fn(helper, required=False)
    if fn is None:
        ctx.proved(rule, helper, 'src/', 'no separate rounding helper')
        return
    ctx.fn(fn)
    bad, unsup = None, None
    for s_ in range(0, 41):
        r = cint.CInt(P, fn, atoms={}, strict=True).run([s_])
        if r[0] != 'ret' or not isinstance(r[1], int):
            unsup = unsup or 'size %d: %s' % (s_, r[1])
        elif r[1] < s_ or r[1] % 8 or r[1] >= s_ + 8:
            bad = bad or 'an object of %d bytes gets a slot of %d bytes' % (s_, r[1])
    if unsup and not bad:
        ctx.undecided(rule, helper, site(fn), 'leaves the evaluated fragment: ' + unsup)
    else:
        ctx.check(bad is None, rule, helper, site(fn), 'the slot size is the object size rounded up to the next multiple of 8 (sizes 0..40 evaluated)', [bad] if bad else None)


def run(ctx, load):
    P = load(UNITS, 'default')
    ctx.stats['units'] = set(UNITS)
    ctx.stats['configs'] = ['default']
    check_finite_map(P, ctx)
    fr = check_probe(P, ctx)
    check_insert(P, ctx, fr)
    check_miss(P, ctx, fr)
    check_modulo_guard(P, ctx)
    check_counts(P, ctx, fr)
    check_backshift(P, ctx)
    check_layout(P, ctx)
    check_size_round(P, ctx)
    check_scratch(P, ctx)
    from .rules_c03 import check_assign_rebuilds
    check_assign_rebuilds(P, ctx, 'Table', 'Table_Clear', 'Table_Set_Move', 'C02.assign-rebuilds')
    if ctx.tier == 'thorough':
        for cfg in ('ndebug',):
            Pc = load(UNITS, cfg)
            ctx.stats['configs'].append(cfg)
            check_layout(Pc, ctx)
            fr2 = check_probe(Pc, ctx)
            check_backshift(Pc, ctx)
        ctx.config = 'default'


EXPLANATION = (
    'Decided: probe-agreement (get/mem/rem/insert share home slot, stop, advance and hit fragments; probe-distance function equals the '
    'registry\'s); hit-before-displacement (the replace-on-equal test cannot miss an equal resident); miss-raises (absent key -> KeyError / '
    'false, also for an empty table); modulo-guard (no `% nslots` reachable with zero slots); count-pairing (insert/replace/remove/rehash/'
    'clear keep count and slots consistent; growth check after every set); back-shift (whole records, exactly while displaced, wrap-aware); '
    'layout (hash/key/value offsets and record size agree at every site, symbolically in sizeof(struct Header), ksize, vsize); scratch '
    'records live as long as the table. Not decided: the robin-hood ordering invariant itself and its preservation over all key sets '
    '(value-level), hash quality, order-independence of outcomes.')
