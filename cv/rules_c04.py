"""C04 — Array, List and Tuple behave as sequences (structural necessary conditions)."""
from . import ir, util, loops, poly, mirror
from .report import site
from .front import AnalysisBroken
from .loops import NoEval
from .rules_c12 import guards_of, throw_only, succ_of

UNITS = ['src/Array.c', 'src/List.c', 'src/Tuple.c', 'src/Assign.c', 'src/Exception.c']


# ---------------------------------------------------------------------------
# index acceptance: abstract walk of the index arithmetic

class Walk:
    """follows one function's CFG for a concrete key value k and length n, interpreting only the integer index arithmetic
    — with exact C conversions (cint: a negative index compared with an unsigned length is a huge number, as compiled) —
    everything else is skipped. Returns ('refuse', kind) | ('accept', index) | ('unknown', why)"""

    def __init__(self, P, T):
        self.P = P
        self.T = T

    def interp(self, fn, n, k):
        from . import cint

        def call(nm, e, it):
            if nm == 'c_int' and e[2] and ir.top_nocast(e[2][0])[0] == 'param' and ir.top_nocast(e[2][0])[2] >= 1:
                return k
            if nm == 'Tuple_Len':
                return n
            raise cint.NoEval('call %s' % nm)
        return cint.CInt(self.P, fn, atoms={('arrow', ('param', 0), 'nitems'): n}, call=call)

    def run(self, fname, k, n, args=None, depth=0):
        from . import cint
        P = self.P
        fn = P.fn(fname)
        g = P.cfg(fn, lower_ternary=True)        # `x = c ? a : H(k)` calls H only on that arm
        it = self.interp(fn, n, k)
        for i, (pn, pt) in enumerate(fn['params']):
            if args and i in args:
                it.params[i] = args[i]
        node = g.nodes[g.entry]
        steps = 0
        idx_var = None              # id of the local that is tested against the bounds
        keyish = set()              # ids of locals whose value derives from the key

        def from_key(e):
            for x in ir.walk(e):
                if x[0] == 'local' and x[2] in keyish:
                    return True
                if x[0] == 'call' and ir.callee_name(x) == 'c_int' and x[2] and ir.top_nocast(x[2][0])[0] == 'param' and ir.top_nocast(x[2][0])[2] >= 1:
                    return True
            return False

        def index():
            return it.locals.get(idx_var) if idx_var is not None else None
        while steps < 200:
            steps += 1
            kind = node['kind']
            if kind == 'term':
                if node['why'][0] == 'throw':
                    return ('refuse', node['why'][1])
                return ('unknown', 'terminator %s' % (node['why'],))
            if kind in ('ret', 'exit'):
                if kind == 'ret' and node['expr'] is not None:
                    r = self.helper_call(fn, it, node['expr'], k, n, depth)
                    if r is not None:
                        return r
                return ('accept', index())
            if kind == 'cond':
                try:
                    v = it.ev(node['expr'])
                except cint.NoEval:
                    # past the index arithmetic (walk loops etc.): the index has been accepted
                    return ('accept', index())
                tb = succ_of(node, True)
                if tb is not None and throw_only(g, tb):
                    lv = [x for x in ir.walk(node['expr']) if x[0] == 'local' and x[2] in keyish]
                    if lv:
                        idx_var = lv[0][2]
                node = g.nodes[succ_of(node, bool(v))]
                continue
            if kind == 'stmt' and node['expr'] is not None:
                r = self.helper_call(fn, it, node['expr'], k, n, depth)
                if r is not None and r[0] == 'refuse':
                    return r
                if r is not None and r[0] == 'accept' and idx_var is None:
                    return r
                for ev in util.expr_events(node['expr'], node):
                    if ev['t'] == 'write':
                        lhs = ir.top_nocast(ev['lhs'])
                        if lhs[0] == 'local' and ev['rhs'] is not None and from_key(ev['rhs']):
                            keyish.add(lhs[2])
                try:
                    it.ev(node['expr'])
                except cint.NoEval:
                    for ev in util.expr_events(node['expr'], node):
                        if ev['t'] == 'write':
                            lhs = ir.top_nocast(ev['lhs'])
                            if lhs[0] == 'local':
                                it.locals.pop(lhs[2], None)
            if not node['succ']:
                return ('accept', index())
            node = g.nodes[node['succ'][0][0]]
        return ('unknown', 'walk did not finish')

    def helper_call(self, fn, it, e, k, n, depth):
        """index helpers of the same unit (List_At) are walked with evaluated integer arguments"""
        from . import cint
        if depth > 2:
            return None
        for c in ir.calls(e):
            nm = ir.callee_name(c)
            h = self.P.functions.get(nm)
            if h is None or h['unit'] != fn['unit'] or nm == fn['name']:
                continue
            if nm not in ('List_At',):
                continue
            args = {}
            for i, a in enumerate(c[2]):
                try:
                    v = it.ev(a)
                    if isinstance(v, int):
                        args[i] = v
                except cint.NoEval:
                    pass
            if 1 in args:
                return self.run_at(nm, args, it.atoms.get(('arrow', ('param', 0), 'nitems'), n), depth + 1)
        return None

    def run_at(self, fname, args, n, depth):
        from . import cint
        P = self.P
        fn = P.fn(fname)
        g = P.cfg(fn, lower_ternary=True)
        it = self.interp(fn, n, None)
        for i, v in args.items():
            it.params[i] = v
        node = g.nodes[g.entry]
        passed = [None]        # the index as it stood when the last refusal test was passed

        def index():
            return passed[0] if passed[0] is not None else it.params.get(1)
        for _ in range(100):
            if node['kind'] == 'term':
                return ('refuse', node['why'][1]) if node['why'][0] == 'throw' else ('unknown', 'term')
            if node['kind'] in ('ret', 'exit'):
                return ('accept', index())
            if node['kind'] == 'cond':
                try:
                    v = it.ev(node['expr'])
                except cint.NoEval:
                    return ('accept', index())
                tb, fb = succ_of(node, True), succ_of(node, False)
                guard = (tb is not None and throw_only(g, tb)) or (fb is not None and throw_only(g, fb))
                node = g.nodes[succ_of(node, bool(v))]
                if guard and node['kind'] != 'term':
                    passed[0] = it.params.get(1)
                continue
            if node['kind'] == 'stmt' and node['expr'] is not None:
                writes_idx = any(ev['t'] == 'write' and ir.top_nocast(ev['lhs'])[0] == 'param' and ir.top_nocast(ev['lhs'])[2] == 1
                                 for ev in util.expr_events(node['expr'], node))
                try:
                    it.ev(node['expr'])
                except cint.NoEval:
                    if writes_idx and passed[0] is None:
                        return ('unknown', 'index arithmetic not evaluable')
                    # the walk over the links starts: the index is what passed the refusal test
                    return ('accept', index())
            if not node['succ']:
                return ('accept', index())
            node = g.nodes[node['succ'][0][0]]
        return ('unknown', 'no end')


def reference(op, T, k, n):
    """the sequence contract: (accepted?, effective index)"""
    if op in ('get', 'set', 'pop_at'):
        if -n <= k < n:
            return True, k % n if n else None
        return False, None
    # push_at: insertion positions as implemented per container (confirmed by reading; see DESIGN.md)
    if T == 'Array':
        if -(n + 1) <= k <= n:
            return True, k if k >= 0 else n + 1 + k
        return False, None
    if T == 'List' and k == 0:
        return True, 0
    if -n <= k < n:
        return True, k % n if n else None
    return False, None


def check_index(P, ctx):
    rule = 'C04.index-idiom'
    big = 1 << 40
    for T in ('Array', 'List', 'Tuple'):
        W = Walk(P, T)
        for (C, m) in (('Get', 'get'), ('Get', 'set'), ('Push', 'pop_at'), ('Push', 'push_at')):
            fname = P.slot(T, C, m)
            fn = P.fn(fname)
            ctx.fn(fn)
            bad = None
            ncase = 0
            for n in (0, 1, 2, 3, 4):
                ks = list(range(-2 * n - 3, 2 * n + 4)) + [big, -big, (1 << 63) - 1, -(1 << 63)]
                for k in ks:
                    ncase += 1
                    got = W.run(fname, k, n)
                    acc, idx = reference(m, T, k, n)
                    if got[0] == 'unknown':
                        bad = bad or ('UNDECIDED', 'index arithmetic left the evaluable fragment for key %d, length %d: %s' % (k, n, got[1]))
                        continue
                    if acc and (got[0] != 'accept' or (got[1] is not None and idx is not None and got[1] != idx)):
                        bad = bad or ('R', 'length %d, key %d: must address element %s, but %s' % (n, k, idx, 'is refused with %s' % got[1] if got[0] == 'refuse' else 'addresses element %s' % got[1]))
                    elif not acc and got[0] != 'refuse':
                        bad = bad or ('R', 'length %d, key %d is out of range and must raise IndexOutOfBoundsError, but element %s is addressed' % (n, k, got[1]))
                    elif not acc and got[1] != 'IndexOutOfBoundsError':
                        bad = bad or ('R', 'length %d, key %d raises %s instead of IndexOutOfBoundsError' % (n, k, got[1]))
            ctx.stats['paths'] += ncase
            key = '%s.%s' % (T, m)
            if bad and bad[0] == 'UNDECIDED':
                ctx.undecided(rule, key, site(fn), bad[1])
            elif bad:
                ctx.refuted(rule, key, site(fn), 'negative keys count from the end exactly once and every key outside the range is refused before an element is touched: ' + bad[1])
            else:
                ctx.proved(rule, key, site(fn), 'index normalisation and bounds test agree with the sequence contract on all %d (length, key) cases evaluated' % ncase)
    ctx.floor(rule, 12)


# ---------------------------------------------------------------------------

class ShiftMismatch(Exception):
    pass


def eval_shift(P, T, op):
    """push_at / pop_at of Array and Tuple evaluated (cint) on instances of 1..4 elements for every valid index, negative ones included.
    memmove is carried out on the model (whole element slots for Array, words for Tuple); afterwards the storage must hold exactly the
    abstract sequence with the element removed / the new one inserted at the position.  Returns (mismatch, unsupported, cases)."""
    from . import cint, absmodel
    SELF = absmodel.SELF
    fn = P.fn(P.slot(T, 'Push', op))
    bad, unsup, ncase = None, None, 0
    OBJ = 31337
    for n in range(0 if op == 'push_at' else 1, 5):
        valid = list(range(n + 1)) if (op == 'push_at' and T == 'Array') else list(range(n))
        keys = [(i, i) for i in valid] + [((i - n - 1) if (op == 'push_at' and T == 'Array') else (i - n), i) for i in valid]
        for key, pos in keys:
            M = absmodel.build(P, T, n)
            atoms = M.atoms
            events = []
            if T == 'Array':
                DATA = atoms[('elem', 'self', 0, 'data')]
                step = absmodel.sub(P, 'Array_Step', [SELF], atoms)
                hdr = M.elems[0] - DATA if n else absmodel.sub(P, 'Array_Item', [SELF, 0], atoms) - DATA
                # capacity is exact: the slots the count guarantees (after the reservation for the new element on push_at), nothing more
                slots = ['e%d' % k for k in range(n)] + (['free0'] if op == 'push_at' else [])
                atoms[('elem', 'self', 0, 'nslots')] = len(slots)

                def slot_of(addr, what):
                    off = addr - DATA
                    if off % step != 0 or not 0 <= off // step <= len(slots):
                        raise ShiftMismatch('%s %d bytes into the storage: not an element boundary inside the reserved slots' % (what, off))
                    return off // step
            else:
                words = ['e%d' % k for k in range(n)] + ['TERM'] + ['junk%d' % k for k in range(3)]
                for k in range(len(words)):
                    atoms[('elem', 'items', k, None)] = (M.elems[k] if k < n else (absmodel.TERM if k == n else 6660 + k))
                cap = [n + 1]

            def call(nm, e, it):
                if nm == 'c_int':
                    return key
                if nm == 'header':
                    return ('ep', 'hdr', 0)
                if nm in ('destruct',):
                    events.append(('destruct', it.ev(e[2][0])))
                    return it.ev(e[2][0])
                if nm in ('Array_Reserve_More', 'Array_Reserve_Less'):
                    return 0
                if nm == 'Array_Alloc':
                    k = it.ev(e[2][1])
                    if not 0 <= k < len(slots):
                        raise ShiftMismatch('initialises slot %d' % k)
                    slots[k] = 'fresh'
                    return 0
                if nm == 'assign':
                    events.append(('assign', it.ev(e[2][0]), it.ev(e[2][1])))
                    return it.ev(e[2][0])
                if nm == 'realloc':
                    if T == 'Tuple':
                        sz = it.ev(e[2][1])
                        if sz % 8:
                            raise ShiftMismatch('realloc to %d bytes' % sz)
                        cap[0] = sz // 8
                        return it.ev(e[2][0])
                    return it.ev(e[2][0])
                if nm in ('memmove', 'memcpy'):
                    d, s_, ln = it.ev(e[2][0]), it.ev(e[2][1]), it.ev(e[2][2])
                    if T == 'Array':
                        if not (isinstance(d, int) and isinstance(s_, int)):
                            raise cint.NoEval('memmove operands')
                        if ln % step:
                            raise ShiftMismatch('moves %d bytes: not a whole number of elements' % ln)
                        k = ln // step
                        ds, ss = slot_of(d, 'moves to'), slot_of(s_, 'moves from')
                        if k and (ds + k > len(slots) or ss + k > len(slots)):
                            raise ShiftMismatch('moves %d elements from slot %d to slot %d: beyond the reserved slots' % (k, ss, ds))
                        if nm == 'memcpy' and k and abs(ds - ss) < k:
                            raise ShiftMismatch('memcpy of overlapping ranges')
                        chunk = slots[ss:ss + k]
                        slots[ds:ds + k] = chunk
                    else:
                        if not (isinstance(d, tuple) and isinstance(s_, tuple) and d[1] == 'items' and s_[1] == 'items'):
                            raise cint.NoEval('memmove operands')
                        if ln % 8:
                            raise ShiftMismatch('moves %d bytes: not whole words' % ln)
                        k = ln // 8
                        if k and (d[2] < 0 or s_[2] < 0 or d[2] + k > cap[0] or s_[2] + k > cap[0]):
                            raise ShiftMismatch('moves %d words from index %d to index %d: the block holds %d' % (k, s_[2], d[2], cap[0]))
                        if nm == 'memcpy' and k and abs(d[2] - s_[2]) < k:
                            raise ShiftMismatch('memcpy of overlapping ranges')
                        chunk = [it.atoms[('elem', 'items', s_[2] + j, None)] for j in range(k)]
                        for j in range(k):
                            it.atoms[('elem', 'items', d[2] + j, None)] = chunk[j]
                    return d
                raise cint.NoEval('call %s' % nm)
            atoms[('elem', 'hdr', 0, 'alloc')] = P.enums.get('AllocHeap', 3)
            it = cint.CInt(P, fn, atoms=atoms, call=call, recurse=True, mem=M.mem, max_steps=3000)
            it.atoms = atoms
            label = '%s of %d elements, %s with key %d' % (T, n, op, key)
            try:
                r = it.run([SELF, 9000] if op == 'pop_at' else [SELF, OBJ, 9000])
            except (ShiftMismatch, absmodel.Mismatch) as x:
                bad = bad or '%s: %s' % (label, x)
                continue
            ncase += 1
            if r[0] == 'stuck':
                unsup = unsup or '%s: %s at %s' % (label, r[1], P.cfg(fn).describe(r[2]))
                continue
            if r[0] != 'ret':
                bad = bad or '%s: a valid index is refused (%s)' % (label, r[1][1] if isinstance(r[1], tuple) else r[1])
                continue
            if T == 'Array':
                cnt = atoms[('elem', 'self', 0, 'nitems')]
                if op == 'pop_at':
                    want = ['e%d' % k for k in range(n) if k != pos]
                    okd = ('destruct', M.elems[pos]) in events
                else:
                    want = ['e%d' % k for k in range(pos)] + ['fresh'] + ['e%d' % k for k in range(pos, n)]
                    tgt = DATA + step * pos + hdr
                    okd = ('assign', tgt, OBJ) in events
                got = slots[:cnt] if 0 <= cnt <= len(slots) else None
                if got != want:
                    bad = bad or '%s: the first %s slots hold %s, the sequence is %s' % (label, cnt, got, want)
                elif not okd:
                    bad = bad or '%s: %s' % (label, 'the removed element is not destructed' if op == 'pop_at' else 'the new element is not assigned into its slot')
            else:
                got = []
                k = 0
                while k < cap[0] + 2 and atoms.get(('elem', 'items', k, None)) != absmodel.TERM:
                    got.append(atoms.get(('elem', 'items', k, None)))
                    k += 1
                want = [M.elems[j] for j in range(n) if j != pos] if op == 'pop_at' else M.elems[:pos] + [OBJ] + M.elems[pos:]
                if got != want or k >= cap[0]:
                    bad = bad or '%s: the items up to Terminal are %s, the sequence is %s%s' % (label, got, want, '' if k < cap[0] else ' (no Terminal inside the block)')
    return bad, unsup, ncase


def check_shift_extent(P, ctx):
    rule = 'C04.shift-extent'
    for T, op, fname, what in (('Array', 'pop_at', 'Array_Pop_At', 'the memmove shifts exactly the tail behind position i by one slot (offsets and length in units of the element step), with the count still including the removed element'),
                               ('Array', 'push_at', 'Array_Push_At', 'the memmove shifts exactly the tail behind position i by one slot (offsets and length in units of the element step), with the count already including the new one'),
                               ('Tuple', 'pop_at', 'Tuple_Pop_At', 'the memmove shifts the items behind position i together with the Terminal sentinel by one slot'),
                               ('Tuple', 'push_at', 'Tuple_Push_At', 'the memmove shifts the items behind position i together with the Terminal sentinel by one slot')):
        fn = P.fn(P.slot(T, 'Push', op))
        ctx.fn(fn)
        try:
            bad, unsup, ncase = eval_shift(P, T, op)
        except Exception as x:
            from . import absmodel
            if not isinstance(x, absmodel.Unsupported):
                raise
            bad, unsup, ncase = None, str(x), 0
        ctx.stats['paths'] += ncase
        if unsup and not bad:
            ctx.undecided(rule, fname, site(fn), 'leaves the evaluated fragment: ' + unsup)
        else:
            ctx.check(bad is None, rule, fname, site(fn), what + ' (evaluated for 1..4 elements, every valid index: the storage afterwards holds the expected sequence)', [bad] if bad else None)
    ctx.floor(rule, 4)


def check_capacity(P, ctx):
    rule = 'C04.capacity'
    # Array: every function that raises nitems reserves before a slot is written
    from . import seqmodel, cint, absmodel
    for fname, op in (('Array_Push', 'push'), ('Array_Push_At', 'push_at')):
        # evaluated (seqmodel.eval_array_op): with no spare capacity every slot written must have been reserved first
        fn = P.fn(P.slot('Array', 'Push', op))
        ctx.fn(fn)
        badv, badr, unsup_, _n = seqmodel.list_ops(P, 'Array')[op]
        if unsup_ and not badv:
            ctx.undecided(rule, fname, site(fn), 'leaves the evaluated fragment: ' + unsup_)
        else:
            ctx.check(badv is None, rule, fname, site(fn), 'the count is raised, the backing store is grown for it, and only then a slot is written (evaluated on arrays with no spare capacity)',
                      [badv] if badv else None)
    for fname in ('Array_Concat',):
        fn = P.fn(fname)
        g = P.cfg(fn)
        ctx.fn(fn)
        N = util.Norm(P, fn, inline=False)
        inc = [n for n in g.live() if n['expr'] is not None and N.canon(n['expr'])[0] in ('un', 'assign') and
               (N.canon(n['expr']) in (('un', 'post++', ('arrow', ('param', 0), 'nitems')), ('un', 'pre++', ('arrow', ('param', 0), 'nitems'))) or
                (N.canon(n['expr'])[0] == 'assign' and N.canon(n['expr'])[1] == '+=' and N.canon(n['expr'])[2] == ('arrow', ('param', 0), 'nitems')))]
        res = [n for (n, c) in g.nodes_calling('Array_Reserve_More')]
        wr = [n for n in g.live() if n['expr'] is not None and any(ir.callee_name(c) in ('Array_Alloc', 'memmove', 'assign') for c in ir.calls(n['expr']))]
        ok = len(inc) == 1 and len(res) == 1 and g.must_pass(res[0]['id'], [inc[0]['id']]) and all(g.must_pass(w['id'], [res[0]['id']]) for w in wr) and bool(wr)
        ctx.check(ok, rule, fname, site(fn), 'the count is raised, the backing store is grown for it, and only then a slot is written (%d write sites)' % len(wr))
    # Array_Reserve_More evaluated: afterwards the store holds at least `count` slots and the recorded slot count is what was reserved
    fn = P.fn('Array_Reserve_More', required=False)
    if fn is None:
        ctx.proved(rule, 'Array_Reserve_More', site(P.fn(P.slot('Array', 'Push', 'push'))), 'no separate helper: growth is evaluated as part of push / push_at')
    else:
        ctx.fn(fn)
        bad, unsup_ = None, None
        for nitems in (0, 1, 2, 3, 10, 1000):
            for nslots in (0, 1, 3, 10, 2000):
                st = {'cap': nslots}
                atoms = {('global', 'NULL'): 0, ('elem', 'self', 0, 'nitems'): nitems, ('elem', 'self', 0, 'nslots'): nslots, ('elem', 'self', 0, 'tsize'): 8,
                         ('elem', 'self', 0, 'data'): 600000, ('elem', 'self', 0, 'type'): 8500}
                step = absmodel.sub(P, 'Array_Step', [absmodel.SELF], atoms) if P.fn('Array_Step', required=False) else None

                def call(nm, e, it, st=st, step=step):
                    if nm == 'realloc':
                        b_ = it.ev(e[2][1])
                        st['cap'] = (b_ // step) if step and b_ % step == 0 else -1
                        return 600000
                    raise cint.NoEval('call %s' % nm)
                it = cint.CInt(P, fn, atoms=atoms, call=call, recurse=True, strict=True)
                it.atoms = atoms
                r = it.run([absmodel.SELF])
                if r[0] != 'ret':
                    unsup_ = unsup_ or '%s' % (r[1],)
                    continue
                if st['cap'] < nitems or atoms[('elem', 'self', 0, 'nslots')] != st['cap']:
                    bad = bad or 'count %d, %d slots: afterwards %s slots are reserved and the slot count says %s' % (nitems, nslots, st['cap'] if st['cap'] >= 0 else 'a fraction of', atoms[('elem', 'self', 0, 'nslots')])
        if unsup_ and not bad:
            ctx.undecided(rule, 'Array_Reserve_More', site(fn), 'leaves the evaluated fragment: ' + unsup_)
        else:
            ctx.check(bad is None, rule, 'Array_Reserve_More', site(fn), 'when the count exceeds the slot count, the slot count becomes at least the count and the store is reallocated to step × slots bytes (evaluated)',
                      [bad] if bad else None)
    # the element size of an Array changes only while it has no slots: a store whose slot count was measured in the old step must not be reused
    fn = P.fn(P.slot('Array', 'Assign', 'assign'))
    g = P.cfg(fn)
    ctx.fn(fn)
    N = util.Norm(P, fn, inline=False)
    ts = [n for n in g.live() if n['kind'] == 'stmt' and n['expr'] is not None and N.canon(n['expr'])[0] == 'assign' and N.canon(n['expr'])[2] == ('arrow', ('param', 0), 'tsize')]
    ok = len(ts) == 1
    if ok:
        def zeroes_slots(fname, depth=1):
            f2 = P.fn(fname)
            g2 = P.cfg(f2)
            N2 = util.Norm(P, f2, inline=False)
            z = [x for x in g2.live() if x['kind'] == 'stmt' and x['expr'] is not None and N2.canon(x['expr']) == ('assign', '=', ('arrow', ('param', 0), 'nslots'), ('int', 0))]
            return bool(z) and g2.must_pass(g2.exit, [x['id'] for x in z])
        zero_nodes = [x for x in g.live() if x['kind'] == 'stmt' and x['expr'] is not None and N.canon(x['expr']) == ('assign', '=', ('arrow', ('param', 0), 'nslots'), ('int', 0))]
        for x in g.live():
            if x['expr'] is None:
                continue
            for c in ir.calls(x['expr']):
                nm = ir.callee_name(c)
                if nm in P.functions and P.functions[nm]['unit'] == fn['unit'] and c[2] and N.canon(c[2][0]) == ('param', 0) and zeroes_slots(nm):
                    zero_nodes.append(x)
        ok = bool(zero_nodes) and g.must_pass(ts[0]['id'], [x['id'] for x in zero_nodes])
        # no non-zero slot count is established between the reset and the retype
        if ok:
            setters = [x for x in g.live() if x['kind'] == 'stmt' and x['expr'] is not None and N.canon(x['expr'])[0] == 'assign' and N.canon(x['expr'])[2] == ('arrow', ('param', 0), 'nslots') and x not in zero_nodes]
            ok = all(ts[0]['id'] not in g.reach_from(x['id']) or g.must_pass(x['id'], [ts[0]['id']]) for x in setters)
    ctx.check(ok, rule, 'Array_Assign:retype-on-empty-store', site(fn), 'the element size is changed only after the slot count was reset to 0 (by the clear routine or directly): capacity counted in the old element step is never reused for wider elements')
    # Tuple: realloc sizes cover the items written plus the sentinel
    W = poly.Poly.const(8)
    nn = poly.Poly.atom('nitems')
    for fname, want, last in (('Tuple_Push', nn + poly.Poly.const(2), nn + poly.Poly.const(1)), ('Tuple_Push_At', nn + poly.Poly.const(2), None),
                              ('Tuple_Pop', nn, nn - poly.Poly.const(1)), ('Tuple_Pop_At', nn, None),
                              ('Tuple_Concat', nn + poly.Poly.const(1) + poly.Poly.atom('objlen'), nn + poly.Poly.atom('objlen'))):
        fn = P.fn(fname)
        g = P.cfg(fn)
        ctx.fn(fn)
        N = util.Norm(P, fn, inline=False)
        re = [(n, c) for n in g.live() if n['expr'] is not None for c in ir.calls(n['expr']) if ir.callee_name(c) == 'realloc']
        ok = len(re) == 1 and poly.from_expr(N.canon(re[0][1][2][1])) == W * want
        detail = ['requested %r' % poly.from_expr(N.canon(re[0][1][2][1]))] if re else []
        if ok and last is not None:
            # the sentinel is stored at the last slot of the new block, after the reallocation
            st = []
            for n in g.live():
                if n['expr'] is None:
                    continue
                for ev in util.expr_events(n['expr'], n):
                    if ev['t'] == 'write' and N.canon(ev['lhs'])[0] == 'idx' and N.canon(ev['lhs'])[1] == ('arrow', ('param', 0), 'items') and N.canon(ev['rhs']) == ('global', 'Terminal'):
                        st.append((n, poly.from_expr(N.canon(ev['lhs'])[2])))
            ok = len(st) == 1 and st[0][1] == last and g.must_pass(st[0][0]['id'], [re[0][0]['id']])
            detail.append('sentinel at %s' % [repr(x[1]) for x in st])
        ctx.check(ok, rule, fname, site(fn), 'the item array is reallocated to %r pointers and the Terminal sentinel lands in its last slot' % want, detail)
    ctx.floor(rule, 10)


def check_list_links(P, ctx):
    """List_Link / List_Unlink keep forward and backward links and head/tail consistent: the set of per-path store
    sets is closed under the mirror map (head<->tail, next<->prev)"""
    rule = 'C04.link-pairing'
    swap = {'head': 'tail', 'tail': 'head', 'List_Next': 'List_Prev', 'List_Prev': 'List_Next'}
    for fname, pswap in (('List_Unlink', {}), ('List_Link', {2: 3, 3: 2})):
        fn = P.fn(fname)
        g = P.cfg(fn)
        ctx.fn(fn)
        N = util.Norm(P, fn, inline=False)
        names = {}
        # locals initialised from *List_Next / *List_Prev of the item are `next` / `prev`
        for n in g.live():
            d = n.get('decl')
            if d and d['init'] is not None:
                c = N.canon(d['init'])
                if c[0] == 'un' and c[1] == '*' and c[2][0] == 'call':
                    names[('local', d['name'])] = ('sym', 'NEXT' if ir.callee_name(c[2]) == 'List_Next' else 'PREV')

        def norm(e, mirrored):
            def f(x):
                if x in names:
                    s = names[x][1]
                    if mirrored:
                        s = 'PREV' if s == 'NEXT' else 'NEXT'
                    return ('sym', s)
                if x[0] == 'param' and mirrored and len(x) == 2 and x[1] in pswap:
                    return ('param', pswap[x[1]])
                if x[0] == 'func' and mirrored:
                    return ('func', swap.get(x[1], x[1]))
                if x[0] in ('arrow', 'dot') and mirrored:
                    return (x[0], x[1], swap.get(x[2], x[2]))
                return x
            return ir.fmt(ir.rebuild(e, f))
        sets = []
        for path in g.paths():
            if util.path_end(path)[0] == 'term':
                continue
            ws, wm = set(), set()
            for ev in util.path_events(path):
                if ev['t'] == 'write' and ir.top_nocast(ev['lhs'])[0] != 'local':
                    l, r = N.canon(ev['lhs']), N.canon(ev['rhs'])
                    ws.add((norm(l, False), norm(r, False)))
                    wm.add((norm(l, True), norm(r, True)))
            sets.append((frozenset(ws), frozenset(wm)))
        plain = {a for a, b in sets}
        missing = [b for a, b in sets if b not in plain]
        ctx.check(not missing and len(plain) >= 4, rule, fname, site(fn),
                  'every case updates the forward and the backward link (or head/tail) together: the cases are mirror images of each other under head<->tail, next<->prev',
                  ['a case stores %s; its mirror image %s is not among the cases' % (sorted([a for a, b in sets if b == m][0]), sorted(m)) for m in missing[:2]])
    ctx.floor(rule, 2)


def check_sort(P, ctx):
    rule = 'C04.sort-permutes'
    # Array sort: element storage is only touched through swap
    for T, fns, swapper in (('Array', ('Array_Sort_Partition', 'Array_Sort_Part', 'Array_Sort_By'), 'swap'), ('Tuple', ('Tuple_Sort_Partition', 'Tuple_Sort_Part', 'Tuple_Sort_By'), 'Tuple_Swap')):
        bad = None
        nsw = 0
        for f in fns:
            fn = P.fn(f)
            ctx.fn(fn)
            for e, ln in ir.all_exprs(fn['body']):
                for ev in util.expr_events(e, None):
                    if ev['t'] == 'write' and ir.top_nocast(ev['lhs'])[0] not in ('local', 'param'):
                        bad = bad or (fn, ln, 'store %s' % ir.fmt(ev['lhs']))
                    if ev['t'] == 'call' and ev['name'] in ('memcpy', 'memmove', 'memset', 'assign', 'destruct', 'realloc', 'free'):
                        bad = bad or (fn, ln, 'call %s' % ev['name'])
                    if ev['t'] == 'call' and ev['name'] == swapper:
                        nsw += 1
        ctx.check(bad is None and nsw >= 3, rule, T, site(P.fn(fns[0])), 'sorting rearranges the elements only by exchanging two of them (%s): the result is a permutation of the contents' % swapper,
                  ['%s:%s %s' % (bad[0]['file'], bad[1], bad[2])] if bad else None)
    # Tuple_Swap is a true exchange
    fn = P.fn('Tuple_Swap')
    g = P.cfg(fn)
    N = util.Norm(P, fn, inline=False)
    seq = []
    for n in g.live():
        if n['expr'] is not None:
            e = N.canon(n['expr'])
            if e[0] == 'assign':
                seq.append((ir.fmt(e[2]), ir.fmt(e[3])))
    a, b = 'arg0->items[arg1]', 'arg0->items[arg2]'
    ok = len(seq) == 3 and seq[0][1] in (a, b) and seq[1] == (seq[0][1], b if seq[0][1] == a else a) and seq[2] == (b if seq[0][1] == a else a, seq[0][0])
    ctx.check(ok, rule, 'Tuple_Swap', site(fn), 'Tuple_Swap exchanges items[i] and items[j] through a temporary')
    ctx.floor(rule, 3)


def check_rem_first(P, ctx):
    rule = 'C04.rem-first'
    from . import seqmodel
    for T in ('Array', 'List', 'Tuple'):
        fn = P.fn(P.slot(T, 'Get', 'rem'))
        g = P.cfg(fn)
        ctx.fn(fn)
        if T in ('Array', 'List'):
            # evaluated on small instances, including an argument equal to both the first and the last element (seqmodel)
            badv, badr, unsup_, _n = seqmodel.list_ops(P, T)['rem']
            if unsup_ and not badv:
                ctx.undecided(rule, T, site(fn), 'rem leaves the evaluated fragment: ' + unsup_)
            else:
                ctx.check(badv is None, rule, T, site(fn), 'rem removes the first element equal to its argument and nothing else (evaluated)', [badv] if badv else None)
            continue
        N = util.Norm(P, fn, inline=False)
        hits = [n for n in g.live() if n['kind'] == 'cond' and any(ir.callee_name(c) == 'eq' for c in ir.calls(n['expr']))]
        ok = len(hits) == 1
        if ok:
            # after a hit the function returns without testing another element
            tb = succ_of(hits[0], True)
            ok = hits[0]['id'] not in g.reach_from(tb)
            # the scan starts at the first element
            if T == 'List':
                init = [n for n in g.live() if n.get('decl') and N.canon(n['decl']['init']) == ('arrow', ('param', 0), 'head')]
                ok = ok and len(init) == 1
            else:
                lpc = [n for n in g.live() if n['kind'] == 'cond' and loops.counted_loop(g, None, n) is not None]
                okl = False
                for c in lpc:
                    lp = loops.counted_loop(g, None, c)
                    if len(lp['inits']) == 1 and util.const_int(lp['inits'][0][1]['rhs']) == 0 and len(lp['writes']) == 1 and lp['writes'][0][1]['op'] == '++':
                        okl = True
                ok = ok and okl
        # every removal inside rem happens on the equality-hit edge of that scan (no other way to pick the victim)
        removers = [n for n in g.live() if n['expr'] is not None and any(ir.callee_name(c) in ('Array_Pop_At', 'Tuple_Pop_At', 'List_Unlink', 'List_Free', 'List_Remove_Item', 'memmove') for c in ir.calls(n['expr']))]
        if ok and removers:
            ok = all(g.must_pass(r['id'], through_edges=[(hits[0]['id'], True)]) for r in removers)
        ctx.check(ok and bool(removers), rule, T, site(fn), 'rem scans from the first element in order, removes only the element on which the equality test hit, and stops there')
    ctx.floor(rule, 3)


def check_seq_layout(P, ctx, rule='C04.layout'):
    """element addressing of Array and List agrees between allocation, access and release (evaluated with cint; the accessors are the
    definition of the layout, header size from the configuration's struct Header)"""
    from . import cint, absmodel
    SELF = absmodel.SELF
    HDR = 8 * len(P.records['Header']['fields']) if 'Header' in P.records else 24
    # --- Array: slots do not overlap; a fresh slot is zeroed over header + element and stamped directly in front of the element
    fn = P.fn('Array_Item')
    ctx.fn(fn)
    bad = None
    unsup = None
    try:
        for tsize in (8, 24):
            atoms = {('global', 'NULL'): 0, ('elem', 'self', 0, 'data'): 600000, ('elem', 'self', 0, 'tsize'): tsize, ('elem', 'self', 0, 'type'): 8500,
                     ('elem', 'self', 0, 'nitems'): 4, ('elem', 'self', 0, 'nslots'): 4}
            items = [absmodel.sub(P, 'Array_Item', [SELF, i], atoms) for i in range(4)]
            step = absmodel.sub(P, 'Array_Step', [SELF], atoms) if P.fn('Array_Step', required=False) else items[1] - items[0]
            for i in range(4):
                lo, hi = items[i] - HDR, items[i] + tsize
                if lo < 600000 + i * step or hi > 600000 + (i + 1) * step:
                    bad = bad or 'element size %d: element %d with its header occupies offsets %d..%d, its slot is %d..%d (reallocations and shifts work in whole slots of %d bytes)' % (
                        tsize, i, lo - 600000, hi - 600000, i * step, (i + 1) * step, step)
    except absmodel.Unsupported as x:
        unsup = str(x)
    if unsup:
        ctx.undecided(rule, 'Array_Item', site(fn), 'the accessor leaves the evaluated fragment: ' + unsup)
    else:
        ctx.check(bad is None, rule, 'Array_Item', site(fn), 'element i with its header lies inside slot i (data + i*step .. data + (i+1)*step)', [bad] if bad else None)
    fn = P.fn('Array_Alloc')
    ctx.fn(fn)
    bad, unsup = None, None
    for tsize in (8, 24):
        for i in (0, 2):
            atoms = {('global', 'NULL'): 0, ('elem', 'self', 0, 'data'): 600000, ('elem', 'self', 0, 'tsize'): tsize, ('elem', 'self', 0, 'type'): 8500,
                     ('elem', 'self', 0, 'nitems'): 4, ('elem', 'self', 0, 'nslots'): 4}
            ev_ = []

            def call(nm, e, it, ev_=ev_):
                if nm == 'memset':
                    ev_.append(('zero', it.ev(e[2][0]), it.ev(e[2][1]), it.ev(e[2][2])))
                    return it.ev(e[2][0])
                if nm == 'header_init':
                    ev_.append(('stamp', it.ev(e[2][0]), it.ev(e[2][1]), it.ev(e[2][2])))
                    return it.ev(e[2][0]) + HDR
                if nm == 'size':
                    return tsize
                raise cint.NoEval('call %s' % nm)
            r = cint.CInt(P, fn, atoms=atoms, call=call, recurse=True).run([SELF, i])
            if r[0] != 'ret':
                unsup = '%s' % (r[1],)
                continue
            item = absmodel.sub(P, 'Array_Item', [SELF, i], atoms)
            stamps = [x for x in ev_ if x[0] == 'stamp']
            zeros = [x for x in ev_ if x[0] == 'zero']
            if stamps != [('stamp', item - HDR, 8500, P.enums.get('AllocData', 2))]:
                bad = bad or 'slot %d: header initialised as %s, the element needs (offset %d, the element type, AllocData)' % (i, [(x[1] - 600000,) + x[2:] for x in stamps], item - HDR - 600000)
            elif not any(z[2] == 0 and z[1] <= item - HDR and z[1] + z[3] >= item + tsize for z in zeros) or (zeros and ev_.index(zeros[0]) > ev_.index(stamps[0])):
                bad = bad or 'slot %d: the new element (header and %d bytes) is not zeroed before it is stamped' % (i, tsize)
    if unsup and not bad:
        ctx.undecided(rule, 'Array_Alloc', site(fn), 'leaves the evaluated fragment: ' + unsup)
    else:
        ctx.check(bad is None, rule, 'Array_Alloc', site(fn), 'a new slot is zeroed over header and element and stamped directly in front of the element', [bad] if bad else None)
    # --- List: the block covers links, header and element without overlap; List_Free releases that block
    fn = P.fn('List_Alloc')
    ctx.fn(fn)
    try:
        bad, unsup = absmodel.eval_node_alloc(P, 'List')
    except absmodel.Unsupported as x:
        bad, unsup = None, str(x)
    if unsup and not bad:
        ctx.undecided(rule, 'List_Alloc', site(fn), 'the allocator leaves the evaluated fragment: ' + unsup)
    else:
        ctx.check(bad is None, rule, 'List_Alloc', site(fn), 'a List node is two link words, a header and the element: the block covers them where List_Next/List_Prev place the links, '
                  'without overlap; the header sits directly in front of the element', [bad] if bad else None)
    fn = P.fn('List_Free')
    ctx.fn(fn)
    bad, unsup = None, None
    for tsize in (8, 24):
        atoms = {('global', 'NULL'): 0, ('elem', 'self', 0, 'tsize'): tsize, ('elem', 'self', 0, 'type'): 8500}
        st = {}

        def call(nm, e, it, st=st):
            if nm in ('calloc', 'malloc'):
                return 100000
            if nm == 'header_init':
                return it.ev(e[2][0]) + HDR
            if nm == 'free':
                st['freed'] = it.ev(e[2][0])
                return 0
            raise cint.NoEval('call %s' % nm)
        r = cint.CInt(P, P.fn('List_Alloc'), atoms=atoms, call=call, recurse=True, mem=lambda a, it: 0, memw=lambda a, v, w, it: None).run([SELF])
        if r[0] != 'ret' or not isinstance(r[1], int):
            unsup = 'List_Alloc: %s' % (r[1],)
            continue
        r2 = cint.CInt(P, fn, atoms=atoms, call=call, recurse=True).run([SELF, r[1]])
        if r2[0] != 'ret':
            unsup = '%s' % (r2[1],)
        elif st.get('freed') != 100000:
            bad = bad or 'element size %d: releases the address %s bytes into the block List_Alloc obtained' % (tsize, (st['freed'] - 100000) if isinstance(st.get('freed'), int) else '?')
    if unsup and not bad:
        ctx.undecided(rule, 'List_Free', site(fn), 'leaves the evaluated fragment: ' + unsup)
    else:
        ctx.check(bad is None, rule, 'List_Free', site(fn), 'the node block freed is the block List_Alloc obtained for that element', [bad] if bad else None)
    ctx.floor(rule, 4)


def check_list_count(P, ctx, rule='C04.count-tracks-links'):
    """List: the element count changes by exactly the number of nodes linked minus the number unlinked, on every path of every
    function (interprocedural: a helper that links/unlinks *and* counts is summarised by its own net effect, which must be the
    same on all of its paths).  len, hash, copy and assign read the count; iteration, cmp and mem follow the links: when the two
    drift apart the list is equal to one thing and hashes / copies as another."""
    u = P.units['src/List.c']
    CNT = ('arrow', ('param', 0), 'nitems')
    PRIM = {'List_Link': (1, 0), 'List_Unlink': (-1, 0)}      # (nodes linked, count change) of the two primitives *before* their own bodies are looked at
    summary = {}

    def path_effect(fn, path, N):
        dn = dc = 0
        for ev in util.path_events(path):
            if ev['t'] == 'write':
                if N.canon(ev['lhs']) == CNT:
                    if ev['op'] == '++':
                        dc += 1
                    elif ev['op'] == '--':
                        dc -= 1
                    elif ev['op'] == '=' and util.const_int(ev['rhs']) == 0:
                        return 'reset'
                    else:
                        return None
            elif ev['t'] == 'call' and ev['name'] in summary and summary[ev['name']] is not None:
                if ev['args'] and N.canon(ev['args'][0]) == ('param', 0):
                    a, b = summary[ev['name']]
                    dn += a
                    dc += b
        return (dn, dc)

    def summarise(name, seen=()):
        if name in summary:
            return summary[name]
        fn = u['functions'].get(name)
        if fn is None or fn.get('body') is None or name in seen:
            return None
        summary[name] = None
        for c, _ in ir.all_calls(fn['body']):
            cn = ir.callee_name(c)
            if cn in u['functions'] and cn != name:
                summarise(cn, seen + (name,))
        g = P.cfg(fn)
        N = util.Norm(P, fn)
        effs = set()
        for path in g.paths(max_visits=2, limit=20000):
            if util.path_end(path)[0] == 'term':
                continue
            effs.add(path_effect(fn, path, N))
        base = PRIM.get(name, (0, 0))
        effs = {(e if not isinstance(e, tuple) else (e[0] + base[0], e[1] + base[1])) for e in effs}
        summary[name] = effs
        if len(effs) == 1 and isinstance(next(iter(effs)), tuple):
            summary[name] = next(iter(effs))
        else:
            summary[name + '#paths'] = effs
            summary[name] = None
        return summary[name]
    # helpers first (primitives and everything called with the list as first argument)
    for name in sorted(u['functions']):
        fn = u['functions'][name]
        if fn.get('body') is None or not fn['params']:
            continue
        summarise(name)
    n_ob = 0
    for name in sorted(u['functions']):
        fn = u['functions'][name]
        if fn.get('body') is None or not fn['params']:
            continue
        g = P.cfg(fn)
        N = util.Norm(P, fn)
        touches = any(ir.callee_name(c) in ('List_Link', 'List_Unlink') or ir.callee_name(c) in summary and summary.get(ir.callee_name(c)) not in (None, (0, 0))
                      for c, _ in ir.all_calls(fn['body'])) or name in PRIM or \
            any(ev['t'] == 'write' and N.canon(ev['lhs']) == CNT for n in g.live() if n['expr'] is not None for ev in util.expr_events(n['expr'], n))
        if not touches:
            continue
        ctx.fn(fn)
        n_ob += 1
        effs = summary.get(name + '#paths') or ({summary[name]} if summary.get(name) is not None else set())
        bad = None
        if name in PRIM:
            # a primitive may keep the count itself (then its callers must not) or leave it to them: either way uniformly
            ok = summary.get(name) is not None
            if not ok:
                bad = 'its paths differ in what they do to the count: %s' % sorted(map(str, effs))
        else:
            for e in effs:
                if e == 'reset':
                    continue       # clear: count set to 0 after every node was unlinked (C05.full-teardown)
                if e is None:
                    bad = 'the count is changed by something other than ++ / -- / = 0'
                    break
                if e[0] != e[1]:
                    bad = 'a path links %+d node(s) net and changes the count by %+d' % (e[0], e[1])
                    break
            ok = bad is None
        ctx.check(ok, rule, name, site(fn), 'on every path the element count changes by the number of nodes linked minus the number unlinked '
                  '(helpers summarised by their own net effect)', [bad] if bad else None)
    ctx.floor(rule, 6)


def check_tuple_terminated(P, ctx):
    """Tuple keeps its elements in a Terminal-terminated array that every reader dereferences without a test (iter_init, cmp,
    show, rem ...): a function that replaces the array installs a real buffer (the result of malloc / realloc, never NULL — only
    the destructor drops it) and a fresh buffer gets its Terminal mark before the function returns normally."""
    rule = 'C04.tuple-terminated'
    u = P.units['src/Tuple.c']
    ITEMS = ('arrow', ('param', 0), 'items')
    n_fn = 0
    for fname, fn in sorted(u['functions'].items()):
        if fn.get('body') is None or not fn['params']:
            continue
        g = P.cfg(fn)
        N = util.Norm(P, fn)
        stores, marks = [], []
        for n in g.live():
            if n['expr'] is None:
                continue
            for ev in util.expr_events(n['expr'], n):
                if ev['t'] != 'write' or ev['op'] != '=':
                    continue
                lhs = N.canon(ev['lhs'])
                if lhs == ITEMS:
                    stores.append((n, ev))
                elif lhs[0] == 'idx' and lhs[1] == ITEMS and ev['rhs'] is not None and ir.top_nocast(N.canon(ev['rhs'])) == ('global', 'Terminal'):
                    marks.append(n)
        if not stores:
            continue
        n_fn += 1
        ctx.fn(fn)
        bad = None
        for (n, ev) in stores:
            r = ir.top_nocast(ev['rhs']) if ev['rhs'] is not None else None
            if r is None or ir.is_null(ev['rhs']):
                # dropping the array is the destructor's business only
                if fname != P.slot('Tuple', 'New', 'destruct', required=False):
                    bad = 'the element array is set to NULL at %s; readers index it without a test' % g.describe(n)
                continue
            if not (r[0] == 'call' and ir.callee_name(r) in ('malloc', 'realloc', 'calloc')):
                bad = bad or 'the element array is replaced by something that is not a fresh allocation at %s' % g.describe(n)
                continue
            if ir.callee_name(r) == 'realloc':
                continue        # keeps the old content; the extents that carry the mark along are C04.shift-extent / capacity
            # every normal exit after a fresh buffer passes a store of the Terminal mark
            if not g.must_pass(g.exit, [m['id'] for m in marks], start=n['id']):
                bad = bad or 'a path from the new array at %s to a normal return stores no Terminal mark' % g.describe(n)
        ctx.check(bad is None, rule, fname, site(fn), 'a function that replaces the element array installs a fresh non-NULL buffer and terminates it with Terminal before it returns',
                  [bad] if bad else None)
    ctx.floor(rule, 5)


def check_full_scans(P, ctx):
    """mem and rem of an Array look at every element: the scan loop visits indices 0..nitems-1 in steps of one (decided by
    evaluating its header for counts 0..4).  A scan that stops one short misses the last element; one that runs one over
    compares memory behind the last element."""
    from . import seqmodel
    rule = 'C04.full-scan'
    for op in ('mem', 'rem'):
        fn = P.fn(P.slot('Array', 'Get', op))
        ctx.fn(fn)
        badv, badr, unsup_, _n = seqmodel.list_ops(P, 'Array')[op]
        m = badv or (badr if op == 'rem' else None)
        if unsup_ and not m:
            ctx.undecided(rule, fn['name'], site(fn), 'leaves the evaluated fragment: ' + unsup_)
        else:
            ctx.check(m is None, rule, fn['name'], site(fn), 'the element scan visits every index 0..count-1 and nothing outside the reservation: every present element is found, an absent '
                      'one is not, on arrays of 0..3 elements with and without spare capacity (evaluated)', [m] if m else None)
    ctx.floor(rule, 2)


def run(ctx, load):
    P = load(UNITS, 'default')
    ctx.stats['units'] = set(UNITS)
    ctx.stats['configs'] = ['default']
    check_index(P, ctx)
    check_shift_extent(P, ctx)
    check_capacity(P, ctx)
    check_list_links(P, ctx)
    check_sort(P, ctx)
    check_rem_first(P, ctx)
    check_seq_layout(P, ctx)
    from .rules_c05 import check_fresh_slot
    from .effects import Effects
    before = len(ctx.obs)
    check_fresh_slot(P, Effects(P), ctx)
    for o in ctx.obs[before:]:
        o['rule'] = 'C04.fresh-slot'
    ctx.floors.pop(('C05.fresh-slot', ctx.config), None)
    ctx.floor('C04.fresh-slot', 5)
    check_list_count(P, ctx)
    check_tuple_terminated(P, ctx)
    from . import seqmodel
    # iteration yields the sequence: the cursor functions of the three sequence types evaluated on small instances (shared with C11)
    from .rules_c11 import check_mirrors
    ctx.borrow('C04.iteration-yields-the-sequence', 12, lambda: check_mirrors(P, ctx, types=('Array', 'List', 'Tuple')))
    from .rules_c02 import check_size_round
    check_size_round(P, ctx, helper='Array_Size_Round', rule='C04.layout')
    seqmodel.report_list_ops(P, ctx, 'C04.list-operations', 'valid', site)
    ctx.floor('C04.list-operations', 9)
    seqmodel.report_list_ops(P, ctx, 'C04.array-operations', 'valid', site, T='Array')
    ctx.floor('C04.array-operations', 11)
    check_full_scans(P, ctx)
    # sort exchanges elements with swap(), whose fallback is memswap: every byte of both operands must be exchanged
    from .rules_c10 import check_memswap
    before = len(ctx.obs)
    check_memswap(P, ctx)
    for o in ctx.obs[before:]:
        o['rule'] = 'C04.sort-exchanges-whole-elements'
    for k in list(ctx.floors):
        if k[0].startswith('C10.'):
            ctx.floors.pop(k)
    ctx.floor('C04.sort-exchanges-whole-elements', 1)


EXPLANATION = (
    'Decided: (a) index-idiom — the index arithmetic of get/set/pop_at/push_at of Array, List (through List_At) and Tuple is evaluated '
    'by the analyser for lengths 0..4 and keys from far below -2n to far above 2n (and at the int64 limits): negative keys count from the '
    'end exactly once, every other key raises IndexOutOfBoundsError before an element is addressed; (b) shift-extent — memmove moves '
    'exactly the tail (polynomial identity in i, count and element step; ordering relative to the count update); (c) capacity — growth '
    'precedes every slot write, realloc sizes cover items plus sentinel; (d) link-pairing — the cases of List_Link/List_Unlink are mirror '
    'images (forward and backward links kept together); (e) sort rearranges only by exchanging elements; (f) rem stops at the first '
    'equal element; (g) a new Array slot is initialised at the index it is assigned at. Not decided: element values after arbitrary '
    'histories, that quicksort orders.')
