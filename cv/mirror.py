"""Canonical function bodies under a symmetric renaming (Left<->Right, Next<->Prev,
head<->tail, ...), for mirror-image sibling rules. Consecutive simple statements
of a block are compared as a multiset only where they do not depend on each
other; here we keep their order but alpha-rename locals, which is what the
mirrored pairs of this library need (they are written side by side)."""
from . import ir


def canon_body(fn, swap=None, self_name=None):
    """nested tuples describing the body with canonical expressions; `swap` maps
    identifiers (function names, field names) to their mirror image"""
    swap = swap or {}
    names = {}

    def lname(x):
        if x[2] not in names:
            names[x[2]] = 'v%d' % len(names)
        return names[x[2]]

    def ex(e):
        if e is None:
            return None

        def f(x):
            k = x[0]
            if k in ('cast', 'icast'):
                return x[2]
            if k == 'local' and len(x) > 2:
                return ('local', lname(x))
            if k == 'param':
                return ('param', x[2]) if len(x) > 2 else x
            if k == 'func':
                return ('func', swap.get(x[1], x[1]))
            if k in ('arrow', 'dot'):
                return (k, x[1], swap.get(x[2], x[2]))
            if k == 'zero':
                return ('int', 0)
            return x
        r = ir.rebuild(e, f)
        return ir.canon(r)

    def st(s):
        if s is None:
            return None
        k = s['k']
        if k == 'block':
            return ('block',) + tuple(st(c) for c in s['body'])
        if k == 'decl':
            out = []
            for d in s['decls']:
                names.setdefault(d['id'], 'v%d' % len(names))
                out.append(('decl', names[d['id']], ex(d['init'])))
            return ('decls',) + tuple(out)
        if k == 'expr':
            return ('expr', ex(s['expr']))
        if k == 'return':
            return ('return', ex(s['expr']))
        if k == 'if':
            return ('if', ex(s['cond']), st(s['then']), st(s['els']))
        if k == 'while':
            return ('while', ex(s['cond']), st(s['body']))
        if k == 'do':
            return ('do', st(s['body']), ex(s['cond']))
        if k == 'for':
            return ('for', st(s['init']), ex(s['cond']), ex(s['inc']), st(s['body']))
        if k in ('break', 'continue', 'null'):
            return (k,)
        if k == 'switch':
            return ('switch', ex(s['cond']), st(s['body']))
        if k == 'case':
            return ('case', ex(s['val']), st(s['body']))
        if k == 'default':
            return ('default', st(s['body']))
        return (k,)
    return st(fn['body'])


def first_difference(a, b, path=''):
    """human-readable location of the first difference between two canonical bodies"""
    if a == b:
        return None
    if not isinstance(a, tuple) or not isinstance(b, tuple) or not a or not b or a[0] != b[0] or len(a) != len(b) or a[0] in ('expr', 'return', 'decl'):
        return '%s: %s  vs  %s' % (path or 'body', render(a), render(b))
    for i, (x, y) in enumerate(zip(a, b)):
        d = first_difference(x, y, '%s/%s%d' % (path, a[0], i))
        if d:
            return d
    return '%s differs' % path


def render(x):
    if isinstance(x, tuple) and x and x[0] in ('expr', 'return'):
        return '%s %s' % (x[0], ir.fmt(x[1]) if x[1] is not None else '')
    if isinstance(x, tuple) and x and x[0] == 'decl':
        return '%s = %s' % (x[1], ir.fmt(x[2]) if x[2] is not None else '')
    if ir.is_expr(x):
        return ir.fmt(x)
    s = str(x)
    return s[:160]
