"""C18 — build configurations agree on every in-contract program (structural necessary conditions)."""
import os, re
from . import ir, util, front
from .report import site
from .front import AnalysisBroken

WITNESS = '/verif/witness/macros.c'
CHECK_RE = re.compile(r'^\s*#\s*if\s+(CELLO_(?:BOUND|MAGIC|ALLOC|NULL|METHOD|MEMORY)_CHECK)\s*==\s*1')
NGC_RE = re.compile(r'^\s*#\s*ifndef\s+CELLO_NGC')
CACHE_RE = re.compile(r'^\s*#\s*if\s+CELLO_CACHE\s*==\s*1')
# calls that are side-effect free with respect to the program's observable state (dispatch-layer reads)
PURE = {'header', 'type_of', 'size', 'len', 'instance', 'type_instance', 'implements', 'type_implements', 'c_int', 'c_str', 'c_float',
        'Tuple_Len', 'strlen', 'strcmp', 'Type_Instance', 'Type_Of', 'Type_Scan', 'Table_Step', 'Array_Step', None}
# statements inside check regions that are not tests: each with its reason
FROZEN = {
    ('header_init', 'alloc'): 'stores the allocation class into the header field that exists only with CELLO_ALLOC_CHECK',
    ('header_init', 'magic'): 'stores the magic number into the header field that exists only with CELLO_MAGIC_CHECK',
    ('dealloc', 'poison'): 'overwrites the block with a poison pattern immediately before it is freed',
}


def regions(path):
    """[(kind, first_line, last_line)] of the `#if X` branches (up to the matching #else/#elif/#endif), nesting-aware"""
    out = []
    stack = []
    for i, line in enumerate(open(path, errors='replace').read().split('\n'), 1):
        s = line.strip()
        if not s.startswith('#'):
            continue
        d = s[1:].strip()
        if d.startswith('if'):
            kind = None
            m = CHECK_RE.match(line)
            if m:
                kind = m.group(1)
            elif NGC_RE.match(line):
                kind = 'NGC'
            elif CACHE_RE.match(line):
                kind = 'CACHE'
            stack.append([kind, i + 1, True])
        elif d.startswith('else') or d.startswith('elif'):
            if stack and stack[-1][2] and stack[-1][0]:
                out.append((stack[-1][0], stack[-1][1], i - 1))
            if stack:
                stack[-1][2] = False
        elif d.startswith('endif'):
            if stack:
                k = stack.pop()
                if k[2] and k[0]:
                    out.append((k[0], k[1], i - 1))
    return out


def stmt_lines(s):
    return s['line']


def top_statements(fn):
    """all statements with their enclosing chain, so that region membership is by the statement's own line"""
    return list(ir.stmts(fn['body']))


def check_check_regions(P, ctx):
    rule = 'C18.check-regions-are-pure'
    repo = front.REPO
    nreg = 0
    for up, u in sorted(P.units.items()):
        if not up.startswith('src/'):
            continue
        regs = [r for r in regions(os.path.join(repo, up)) if r[0].endswith('_CHECK')]
        for (kind, lo, hi) in regs:
            nreg += 1
            # functions overlapping the region
            fns = [f for f in u['functions'].values() if f['line'] <= hi and (f.get('end') or f['line']) >= lo]
            bad = None
            nst = 0
            for fn in fns:
                outer_decl_ids = set()
                inside, outside = [], []
                for s_ in ir.stmts(fn['body']):
                    if s_['k'] == 'block':
                        continue
                    (inside if lo <= s_['line'] <= hi else outside).append(s_)
                # locals declared inside the region
                in_decl = {d['id']: d for s_ in inside if s_['k'] == 'decl' for d in s_['decls']}
                used_out = set()
                for s_ in outside:
                    for e in ir.stmt_exprs(s_):
                        for x in ir.walk(e):
                            if x[0] == 'local' and x[2] in in_decl:
                                used_out.add(x[2])
                for lid in used_out:
                    bad = bad or (fn, in_decl[lid]['name'], 'local `%s` is declared under the check but used outside it' % in_decl[lid]['name'])
                for s_ in inside:
                    nst += 1
                    if s_['k'] in ('if', 'return', 'break', 'continue', 'null', 'for', 'while'):
                        exprs = ir.stmt_exprs(s_)
                    elif s_['k'] in ('expr', 'decl'):
                        exprs = ir.stmt_exprs(s_)
                    else:
                        exprs = ir.stmt_exprs(s_)
                    for e in exprs:
                        for ev in util.expr_events(e, None):
                            if ev['t'] == 'write':
                                l = ir.top_nocast(ev['lhs'])
                                if l[0] == 'local' and l[2] in in_decl:
                                    continue
                                # frozen exceptions
                                fld = util.field_name(l)
                                if fn['name'] == 'header_init' and fld in ('alloc', 'magic'):
                                    continue
                                if fn['name'] == 'dealloc' and (l[0] == 'idx' or (l[0] == 'un' and l[1] == '*')):
                                    # the poison fill: a store into the block that is being released (an address derived from the parameter,
                                    # directly or through locals of the region); nothing can read it afterwards within the contract
                                    derived = set()
                                    for _ in range(3):
                                        for lid, d in in_decl.items():
                                            if d.get('init') is not None and any((x[0] == 'param' and x[2] == 0) or (x[0] == 'local' and x[2] in derived) for x in ir.walk(d['init'])):
                                                derived.add(lid)
                                    base = l[1] if l[0] == 'idx' else l[2]
                                    if any((x[0] == 'param' and x[2] == 0) or (x[0] == 'local' and x[2] in derived) for x in ir.walk(base)):
                                        continue
                                bad = bad or (fn, s_['line'], 'assigns `%s`, which lives outside the check' % ir.fmt(l))
                            elif ev['t'] == 'call':
                                nm = ev['name']
                                if nm in PURE or nm in P.noreturn or nm == 'exception_throw':
                                    continue
                                if ir.as_stack(ev['expr']) is not None:
                                    continue
                                bad = bad or (fn, s_['line'], 'calls %s' % nm)
            key = '%s:%d-%d:%s' % (up, lo, hi, kind)
            skey = '%s:%s:%s' % (up, (fns[0]['name'] if fns else '?'), kind)
            if bad:
                ctx.refuted(rule, skey, '%s:%s (%s)' % (up, bad[1] if isinstance(bad[1], int) else lo, bad[0]['name']),
                            'code that exists only with %s == 1 must be a pure test (it may raise, nothing else): here it %s, so a build without the check computes something different '
                            'on programs that never take the error path' % (kind, bad[2]))
            else:
                ctx.proved(rule, skey + '@%d' % nreg, '%s:%d-%d' % (up, lo, hi), 'only side-effect-free tests that end in a raise (%d statements)' % nst)
    ctx.floor(rule, 60)


ALLOC_CLASSES = ('AllocStatic', 'AllocStack', 'AllocHeap', 'AllocData')
# what a test of the allocation class may refuse: objects whose storage was not obtained from malloc cannot be reallocated (String, Tuple);
# dealloc additionally refuses an element embedded in a container (it is released with its container)
ALLOC_MAY_REFUSE = {'dealloc': {'AllocStatic', 'AllocStack', 'AllocData'}}
ALLOC_MAY_REFUSE_DEFAULT = {'AllocStatic', 'AllocStack'}


def check_alloc_refusals(P, ctx):
    """the allocation-class tests (compiled only with CELLO_ALLOC_CHECK) refuse only objects the operation cannot serve in any build:
    evaluated per function for each of the four classes — a class that is refused in the checked build but served without the check
    (heap objects, elements embedded in containers) makes the two builds disagree on an in-contract program"""
    from . import cint
    rule = 'C18.alloc-checks-refuse-only-misuse'
    nfn = 0
    for fn in P.all_functions():
        if not fn['unit'].startswith('src/') or fn.get('body') is None:
            continue
        g = P.cfg(fn)

        def is_alloc_cond(n):
            return n['kind'] == 'cond' and any(x[0] in ('arrow', 'dot') and x[2] == 'alloc' and any(y[0] == 'call' and ir.callee_name(y) == 'header' for y in ir.walk(x)) for x in ir.walk(n['expr']))
        conds = [n for n in g.live() if is_alloc_cond(n)]
        if not conds:
            continue
        nfn += 1
        ctx.fn(fn)
        refused, unsup = set(), None
        for cls in ALLOC_CLASSES:
            atoms = {}

            def call(nm, e, it):
                if nm == 'header':
                    return ('ep', 'hdr', 0)
                raise cint.NoEval('call %s' % nm)
            it = cint.CInt(P, fn, atoms=atoms, call=call)
            try:
                it.atoms[('elem', 'hdr', 0, 'alloc')] = it.ev(('enum', cls))
            except cint.NoEval as x:
                unsup = str(x)
                break
            # from every allocation-class test: follow the branch this class takes; tests of anything else are not followed (the refusal
            # must depend on the class alone to count as a refusal of the class)
            for c in conds:
                cur, seen = c, set()
                while cur is not None and cur['id'] not in seen:
                    seen.add(cur['id'])
                    if cur['kind'] == 'term':
                        if isinstance(cur.get('why'), tuple) and cur['why'][0] == 'throw':
                            refused.add(cls)
                        break
                    if cur['kind'] == 'cond':
                        if not is_alloc_cond(cur):
                            break
                        try:
                            v = it.ev(cur['expr'])
                        except cint.NoEval as x:
                            unsup = unsup or '%s: %s' % (ir.fmt(cur['expr']), x)
                            break
                        nxt = [s for s, l in cur['succ'] if l is bool(v)]
                    else:
                        nxt = [s for s, l in cur['succ']]
                    cur = g.nodes[nxt[0]] if len(nxt) == 1 else None
        may = ALLOC_MAY_REFUSE.get(fn['name'], ALLOC_MAY_REFUSE_DEFAULT)
        if unsup:
            ctx.undecided(rule, fn['name'], site(fn), 'an allocation-class test leaves the evaluated fragment: ' + unsup)
        else:
            extra = sorted(refused - may)
            ctx.check(not extra, rule, fn['name'], site(fn), 'the allocation-class tests refuse %s; anything else (a heap object, an element inside a container) is served with and without the check' % (
                ' / '.join(sorted(may))), ['also refused: %s' % ', '.join(extra)] if extra else None)
    ctx.floor(rule, 6)


def check_cache_regions(P, ctx):
    rule = 'C18.cache-transparent'
    repo = front.REPO
    found = []
    for up in sorted(P.units):
        if not up.startswith('src/'):
            continue
        for (kind, lo, hi) in regions(os.path.join(repo, up)):
            if kind == 'CACHE':
                found.append((up, lo, hi))
    # the cache may be consulted only by the dispatcher: any other cache-dependent code can disagree with the scan
    for (up, lo, hi) in found:
        fns = [f for f in P.units[up]['functions'].values() if f['line'] <= hi and (f.get('end') or f['line']) >= lo]
        names = sorted(f['name'] for f in fns)
        # (a region that holds only a helper spliced back into the dispatcher has no function of its own left)
        ok = up == 'src/Type.c' and names in (['Type_Instance'], [])
        ctx.check(ok, rule, '%s:%s' % (up, ','.join(names) or '%d-%d' % (lo, hi)), '%s:%d-%d' % (up, lo, hi),
                  'code compiled only with the method cache lives in the dispatcher (Type_Instance) alone, where each entry is checked against the scan (C08.cache-wiring); '
                  'cache slots read elsewhere bypass that agreement')
    ctx.check(len(found) >= 1, rule, 'anchor', 'src/Type.c', 'the cache-conditional region of the dispatcher was found')
    # raw reads of cache words (`((var*)type)[k]`) outside Type.c
    n = 0
    for fn in P.all_functions():
        if not fn['unit'].startswith('src/') or fn['unit'] == 'src/Type.c':
            continue
        for e, ln in ir.all_exprs(fn['body']):
            for x in ir.walk(e):
                if x[0] == 'idx' and ir.is_expr(x[1]) and x[1][0] == 'cast' and x[1][1] in ('void **', 'var *') and util.const_int(x[2]) is not None:
                    b = ir.top_nocast(x[1][2])
                    if b[0] in ('local', 'param') and 'type' in str(b[1]).lower():
                        n += 1
                        ctx.refuted(rule, '%s:raw-cache-read' % fn['name'], site(fn, ln), 'a type record\'s cache word is read by index outside the dispatcher: %s' % ir.fmt(x))
    from .rules_c08 import check_cache
    before = len(ctx.obs)
    check_cache(P, ctx)
    for o in ctx.obs[before:]:
        o['rule'] = 'C18.cache-transparent'
    for k in list(ctx.floors):
        if k[0] == 'C08.cache-wiring':
            ctx.floors.pop(k)
    ctx.floor(rule, 3)


def check_ngc_regions(P, ctx):
    rule = 'C18.ngc-regions'
    repo = front.REPO
    ALLOWED_CALLS = {'set', 'rem', 'current', 'new_raw_with', 'del_raw', 'atexit', 'Cello_Main'}
    n = 0
    for up in sorted(P.units):
        if not up.startswith('src/') or up == 'src/GC.c':
            continue
        for (kind, lo, hi) in regions(os.path.join(repo, up)):
            if kind != 'NGC':
                continue
            n += 1
            fns = [f for f in P.units[up]['functions'].values() if f['line'] <= hi and (f.get('end') or f['line']) >= lo]
            bad = None
            for fn in fns:
                for s_ in ir.stmts(fn['body']):
                    if s_['k'] == 'block' or not (lo <= s_['line'] <= hi):
                        continue
                    for e in ir.stmt_exprs(s_):
                        for c in ir.calls(e):
                            nm = ir.callee_name(c)
                            if nm not in ALLOWED_CALLS:
                                bad = bad or (fn, s_['line'], 'calls %s' % nm)
                            if nm in ('set', 'rem') and not (ir.top_nocast(c[2][0])[0] == 'call' and ir.callee_name(ir.top_nocast(c[2][0])) == 'current' and
                                                            ir.top_nocast(ir.top_nocast(c[2][0])[2][0]) == ('global', 'GC')):
                                bad = bad or (fn, s_['line'], '%s on something other than the collector' % nm)
            ctx.check(bad is None, rule, '%s:%s' % (up, fns[0]['name'] if fns else lo), '%s:%d-%d' % (up, lo, hi),
                      'code compiled only with the collector registers objects with it / creates and tears it down, nothing else', ['%s:%s %s' % (bad[0]['file'], bad[1], bad[2])] if bad else None)
    ctx.floor(rule, 5)


def check_layouts_all_configs(ctx, load, configs):
    """the layout rules of the other properties, re-evaluated under each configuration's real header"""
    from . import rules_c02, rules_c03, rules_c19, rules_c08, rules_c04
    for cfg in configs:
        P = load(None, cfg, [WITNESS])
        ctx.config = cfg
        if cfg not in ctx.stats['configs']:
            ctx.stats['configs'].append(cfg)
        before = len(ctx.obs)
        rules_c02.check_layout(P, ctx)
        rules_c03.check_layout(P, ctx)
        rules_c04.check_seq_layout(P, ctx)
        rules_c19.check_pointer_arith(P, ctx)
        rules_c19.check_headers(P, ctx)
        hw = len(P.records['Header']['fields'])
        wt = P.types.get('WObj')
        if wt and ('str', '__Name') in wt['header']:
            cn = wt['header'].index(('str', '__Name')) - 1 - hw
            rules_c08.check_layout(P, ctx, cn)
            rules_c08.check_scan(P, ctx)
        for o in ctx.obs[before:]:
            o['rule'] = 'C18.layout-all-configs'
        for k in list(ctx.floors):
            if not k[0].startswith('C18.'):
                ctx.floors.pop(k)
        ctx.floor('C18.layout-all-configs', 40)
    ctx.config = 'default'


def check_static_witness(ctx, load, configs):
    """compile-time witnesses: the unit witness/static_asserts.c must compile under every configuration"""
    import subprocess
    rule = 'C18.static-witness'
    db = front.compile_db()
    flags = next(iter(db.values()))
    for cfg in configs:
        cmd = ['clang', '-fsyntax-only', '-w'] + flags + front.CONFIGS[cfg] + ['/verif/witness/static_asserts.c']
        p = subprocess.run(cmd, capture_output=True, text=True, cwd=front.REPO)
        ctx.config = cfg
        ctx.check(p.returncode == 0, rule, cfg, 'witness/static_asserts.c', 'the layout assertions hold at compile time under configuration %s' % cfg,
                  [l for l in p.stderr.splitlines() if 'error' in l][:3])
    ctx.config = 'default'


def run(ctx, load):
    P = load(None, 'default', [WITNESS])
    ctx.stats['units'] = set(P.units) | {'include/Cello.h'}
    ctx.stats['configs'] = ['default']
    check_check_regions(P, ctx)
    check_alloc_refusals(P, ctx)
    check_cache_regions(P, ctx)
    check_ngc_regions(P, ctx)
    quick = ['default', 'ndebug']
    full = list(front.CONFIGS)
    cfgs = full if ctx.tier == 'thorough' else quick
    check_layouts_all_configs(ctx, load, cfgs)
    check_static_witness(ctx, load, full)
    ctx.floor('C18.static-witness', 1)
    # NGC: deletion reaches dealloc(destruct(self)) directly (C06 under CELLO_NGC)
    from .rules_c06 import check_del
    Pn = load(['src/Alloc.c', 'src/Get.c', 'src/Exception.c', 'src/Pointer.c'], 'ngc')
    ctx.config = 'ngc'
    if 'ngc' not in ctx.stats['configs']:
        ctx.stats['configs'].append('ngc')
    before = len(ctx.obs)
    check_del(Pn, ctx, ngc=True)
    for o in ctx.obs[before:]:
        o['rule'] = 'C18.ngc-del'
    ctx.floors.pop(('C06.del-finalises', 'ngc'), None)
    ctx.floor('C18.ngc-del', 3)
    ctx.config = 'default'
    # optimisation level: a conservative stack scan sees a pointer that lives only in a callee-saved register at -O2 only
    # if the registers are spilled into a frame the scan covers (setjmp into a local jmp_buf) before the scan starts
    from .rules_c01 import check_mark_phase
    Pg = load(['src/GC.c'], 'default')
    before = len(ctx.obs)
    check_mark_phase(Pg, ctx)
    keep = []
    for o in ctx.obs[before:]:
        if o['key'] == 'GC_Mark:phases':
            o['rule'] = 'C18.registers-spilled-before-scan'
            keep.append(o)
    ctx.obs[before:] = keep
    for k in list(ctx.floors):
        if k[0].startswith('C01.'):
            ctx.floors.pop(k)
    ctx.floor('C18.registers-spilled-before-scan', 1)
    # with the collector a program sees what it sees without it only if the collector never reclaims what a container holds:
    # every container marks all of its elements on every path (shared with C01.container-mark)
    from .rules_c01 import check_container_marks
    Pm = load(['src/GC.c', 'src/Array.c', 'src/List.c', 'src/Table.c', 'src/Tree.c', 'src/Tuple.c', 'src/Pointer.c', 'src/Iter.c', 'src/Function.c', 'src/Thread.c', 'src/Exception.c', 'src/Type.c', 'src/Num.c', 'src/String.c', 'src/File.c'], 'default')
    ctx.config = 'default'
    before = len(ctx.obs)
    check_container_marks(Pm, ctx)
    for o in ctx.obs[before:]:
        o['rule'] = 'C18.collector-keeps-what-containers-hold'
    for k in list(ctx.floors):
        if k[0].startswith('C01.'):
            ctx.floors.pop(k)
    ctx.floor('C18.collector-keeps-what-containers-hold', 10)
    # ... and never reclaims what is reachable only through a raw (unregistered) part of an object (shared with C01)
    from .rules_c01 import check_raw_parts, check_root_flag
    check_raw_parts(P, ctx, rule='C18.collector-keeps-what-raw-parts-hold')
    ctx.borrow('C18.collector-keeps-roots', 5, lambda: check_root_flag(P, ctx))
    # ... and finalises an object once: without the collector del finalises directly; with it, a deletion that races the sweep's pending
    # list must not finalise a second time (shared with C06.sweep-once)
    from .rules_c06 import check_sweep
    ctx.borrow('C18.sweep-finalises-once', 5, lambda: check_sweep(Pg, ctx))


EXPLANATION = (
    'Decided: (a) check-regions-are-pure — every region compiled only with a CELLO_*_CHECK switch (located by scanning the preprocessor '
    'directives; statements taken from the parsed program) contains only side-effect-free tests that end in a raise, locals used only '
    'inside the region, or one of three frozen, reasoned stores (header fields alloc/magic, poisoning before free): removing them cannot '
    'change an in-contract run; (b) cache-transparent — cache-conditional code exists only in the dispatcher, where every entry is '
    'checked against the scan, and no cache word is read elsewhere; (c) ngc-regions — collector-only code only registers with / creates / '
    'tears down the collector, and without it deletion finalises directly; (d) layout-all-configs — the offset-agreement rules of Table, '
    'Tree, object headers and type records re-evaluated under each configuration\'s header layout (quick: default + NDEBUG, thorough: all '
    '8), plus compile-time witnesses under all 8. (e) registers-spilled-before-scan — every collection spills the registers (setjmp into a local buffer) after the root scan and before the stack scan, the one optimisation-level dependence of the collector that is visible in the shape of the code. Not decided: other optimisation-level effects, undefined behaviour outside the rules above.')
