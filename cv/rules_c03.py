"""C03 — Tree behaves as an ordered map (structural necessary conditions; balancing itself is not decided)."""
from . import ir, util, loops, poly, mirror
from .report import site
from .front import AnalysisBroken
from .loops import NoEval
from .rules_c12 import guards_of, throw_only, succ_of

UNITS = ['src/Tree.c', 'src/Exception.c']


def descent_map(P, fname):
    """for c = cmp(stored key, sought key) in {-1, 0, +1}: which child link the descent follows / stores into.
    -> ({-1: set(names), 0: ..., 1: ...}, canonical cmp call, why)"""
    fn = P.fn(fname)
    g = P.cfg(fn)
    N = util.Norm(P, fn, inline=False)
    cm = [n for n in g.live() if n.get('decl') and n['decl']['init'] is not None and ir.top_nocast(n['decl']['init'])[0] == 'call' and ir.callee_name(ir.top_nocast(n['decl']['init'])) == 'cmp']
    if len(cm) != 1:
        return None, None, 'expected one comparison `c = cmp(...)` in the descent, found %d' % len(cm)
    cn = cm[0]
    cv = ('local', cn['decl']['name'])
    body = g.innermost_loop_of(cn['id']) or set()
    out = {}
    for v in (-1, 0, 1):
        used = set()
        hit = False
        seen = set()
        stack = [cn['succ'][0][0]]
        while stack:
            u = stack.pop()
            if u in seen or u == cn['id'] or (body and u not in body):
                continue
            seen.add(u)
            n = g.nodes[u]
            if n['kind'] == 'cond':
                c = N.canon(n['expr'])
                try:
                    b = bool(loops.ev(c, {cv: v}, unsigned=False))
                    stack.append(succ_of(n, b))
                except NoEval:
                    for (w, _) in n['succ']:
                        stack.append(w)
                continue
            if n['expr'] is not None:
                e = N.canon(n['expr'])
                # conditional expression selecting a child
                def pick(x):
                    if x[0] == 'cond':
                        try:
                            return pick(x[2] if loops.ev(x[1], {cv: v}, unsigned=False) else x[3])
                        except NoEval:
                            return x
                    return x
                for x in ir.walk(e):
                    if x[0] == 'assign':
                        lhs, rhs = x[2], pick(x[3])
                        for y in ir.walk(lhs):
                            if y[0] == 'call' and ir.callee_name(y) in ('Tree_Left', 'Tree_Right'):
                                used.add(ir.callee_name(y))
                        if lhs[0] == 'local':
                            for y in ir.walk(rhs):
                                if y[0] == 'call' and ir.callee_name(y) in ('Tree_Left', 'Tree_Right'):
                                    used.add(ir.callee_name(y))
            if n['kind'] in ('ret', 'term') or not n['succ']:
                continue
            # do not run into the next loop iteration (the comparison node) — handled by the guard above
            for (w, _) in n['succ']:
                # stop at statements after the loop once a child was chosen
                stack.append(w)
        out[v] = used
    return out, ir.fmt(N.canon(cn['decl']['init'])), None


LOOKUP = {}


def check_descent(P, ctx):
    rule = 'C03.descent-agreement'
    want_cmp = None
    from . import absmodel
    for T_ in ('get', 'mem'):
        # the two lookups are evaluated on every tree shape of up to 4 nodes, for every stored key and every absent one
        fn = P.fn(P.slot('Tree', 'Get', T_))
        ctx.fn(fn)
        try:
            bad_hit, bad_miss, unsup, ncase = absmodel.eval_tree_lookup(P, T_)
        except absmodel.Unsupported as x:
            bad_hit, bad_miss, unsup, ncase = None, None, str(x), 0
        ctx.stats['paths'] += ncase
        LOOKUP[(id(P), T_)] = (bad_hit, bad_miss, unsup)
        if unsup and not bad_hit:
            ctx.undecided(rule, fn['name'], site(fn), 'the lookup leaves the evaluated fragment: ' + unsup)
            continue
        ctx.check(bad_hit is None, rule, fn['name'] + ':operands', site(fn), 'the descent compares the stored key of the current node with the sought key and finds every stored key '
                  '(every tree shape of up to 4 nodes, %d evaluations)' % ncase, [bad_hit] if bad_hit else None)
        ctx.check(bad_hit is None, rule, fn['name'] + ':direction', site(fn),
                  'a negative comparison continues in the left child, a positive one in the right child — the same convention in get, mem, set and rem', [bad_hit] if bad_hit else None)
    for T_, fname in (('set', 'Tree_Set'), ('rem', 'Tree_Rem')):
        fn = P.fn(P.slot('Tree', 'Get', T_))
        ctx.fn(fn)
        m, cmpc, why = descent_map(P, fn['name'])
        if m is None:
            ctx.undecided(rule, fn['name'], site(fn), why)
            continue
        okc = cmpc == 'cmp(Tree_Key(arg0, node), arg1)'
        ctx.check(okc, rule, fn['name'] + ':operands', site(fn), 'the descent compares cmp(stored key of the current node, sought key), in that operand order', ['comparison: %s' % cmpc])
        # below-loop code (e.g. removal restructuring) may mention both children for c == 0; the direction decisions are for c != 0
        ok = 'Tree_Left' in m[-1] and 'Tree_Right' not in m[-1] and 'Tree_Right' in m[1] and 'Tree_Left' not in m[1]
        ctx.check(ok, rule, fn['name'] + ':direction', site(fn),
                  'a negative comparison continues in (or inserts into) the left child only, a positive one the right child only — the same convention in get, mem, set and rem',
                  ['c<0 uses %s, c>0 uses %s' % (sorted(m[-1]), sorted(m[1]))])
    ctx.floor(rule, 8)


def check_mirror(P, ctx):
    """forward iteration visits the keys in the tree's in-order sequence and backward iteration is its exact reverse: the four cursor
    functions are evaluated (cint; links, parent words with either colour bit, key offsets taken from the accessors) on every binary
    tree shape of up to 4 nodes, from every node"""
    from . import absmodel
    rule = 'C03.cursor-order'
    try:
        bad, unsup, ncase = absmodel.eval_cursor_walk(P, 'Tree')
    except absmodel.Unsupported as x:
        bad, unsup, ncase = {}, str(x), 0
    ctx.stats['paths'] += ncase
    for m in ('iter_init', 'iter_next', 'iter_last', 'iter_prev'):
        fn = P.fn(P.slot('Tree', 'Iter', m))
        ctx.fn(fn)
        if unsup and not bad.get(m):
            ctx.undecided(rule, 'Tree.' + m, site(fn), 'the cursor function leaves the evaluated fragment: ' + unsup)
        else:
            ctx.check(bad[m] is None, rule, 'Tree.' + m, site(fn), 'walking every tree shape of up to 4 nodes (both colour-bit settings) with the cursor functions yields the in-order key '
                      'sequence forwards and its reverse backwards, ending with Terminal (%d evaluations)' % ncase, [bad[m]] if bad[m] else None)
    ctx.floor(rule, 4)


def check_links(P, ctx):
    """every store of a child link is paired with the child's parent link (when the child is not NULL)"""
    rule = 'C03.link-pairing'
    for fname in ('Tree_Set', 'Tree_Rotate_Left', 'Tree_Rotate_Right', 'Tree_Replace'):
        fn = P.fn(fname)
        g = P.cfg(fn)
        ctx.fn(fn)
        N = util.Norm(P, fn, inline=False)
        stores = []
        for n in g.live():
            if n['expr'] is None:
                continue
            e = N.canon(n['expr'])
            if e[0] == 'assign' and e[2][0] == 'un' and e[2][1] == '*' and e[2][2][0] == 'call' and ir.callee_name(e[2][2]) in ('Tree_Left', 'Tree_Right'):
                stores.append((n, e[2][2][2][1], e[3]))        # (node, parent expr, child expr)
            if e[0] == 'assign' and e[2] == ('arrow', ('param', 0), 'root'):
                stores.append((n, None, e[3]))
        sp = []
        for n in g.live():
            if n['expr'] is None:
                continue
            for c in ir.calls(n['expr']):
                if ir.callee_name(c) == 'Tree_Set_Parent':
                    sp.append((n, N.canon(c[2][1]), N.canon(c[2][2])))
        bad = None
        for (sn, par, child) in stores:
            if ir.is_null(child):
                continue
            # a parent-link update for this (child, parent) pair ...
            cands = [x for x in sp if x[1] == child and (par is None and (ir.is_null(x[2]) or True) or x[2] == par or (par is None))]
            if fname == 'Tree_Replace':
                # the new subtree root takes over the old node's parent, guarded by non-NULL
                cands = [x for x in sp if x[1] == child]
            ok = False
            for (pn, c_, p_) in cands:
                # ... on every path from the store to the exit, except where the child is tested to be NULL
                nullc = [x for x in g.live() if x['kind'] == 'cond' and N.canon(x['expr']) in (ir.canon(('bin', '!=', child, ('int', 0))), child)]
                cut_edges = [(x['id'], False) for x in nullc]
                reach_wo = g.reach_from(g.entry, cut_nodes=[pn['id']], cut_edges=cut_edges)
                # every entry->exit path that passes the store also passes the parent update (or the NULL-child edge)
                if g.exit not in g.reach_from(sn['id'], cut_nodes=[pn['id']], cut_edges=cut_edges) or (pn['id'] not in g.reach_from(sn['id']) and g.must_pass(sn['id'], [pn['id']])):
                    ok = True
            if fname == 'Tree_Set' and par is None:
                ok = True     # the first node becomes the root: its parent link was initialised NULL by Tree_Alloc
            if not ok:
                bad = bad or (sn, child, par)
        if bad:
            ctx.refuted(rule, fname, site(fn, bad[0]['line']), 'the child link stored here is not paired with the child\'s parent link on every path: child `%s`, parent `%s` '
                        '(in-order iteration and rebalancing navigate through parent links)' % (ir.fmt(bad[1]), ir.fmt(bad[2]) if bad[2] else 'root'), ['store: %s' % g.describe(bad[0])])
        else:
            ctx.proved(rule, fname, site(fn), 'each of the %d child-link stores is paired with the matching parent-link update (skipped only for a NULL child)' % len(stores))
    # tag-bit accessors: the parent pointer and the colour share a word; setting one keeps the other — evaluated (cint) on integer memory
    # through the accessors themselves: after Tree_Set_Parent(n, p) the parent reads p and the colour is what it was; after
    # Tree_Set_Color(n, c) the colour reads c and the parent is what it was
    from . import cint
    NODE = 100000

    def acc(fname, args, memory):
        def rd(a, it):
            if not NODE <= a < NODE + 64:
                raise cint.NoEval('read outside the node')
            return memory.get(a, 0)

        def wr(a, v, w, it):
            if not NODE <= a < NODE + 64:
                raise cint.NoEval('write outside the node')
            memory[a] = v
        return cint.CInt(P, P.fn(fname), atoms={('global', 'NULL'): 0}, recurse=True, mem=rd, memw=wr, strict=True, max_depth=6).run(args)
    bad_p, bad_c, unsup = None, None, None
    colour_fn = 'Tree_Get_Color' if P.fn('Tree_Get_Color', required=False) else 'Tree_Is_Red'
    for p0 in (0, 200000):
        for c0 in (0, 1):
            for p1 in (0, 300000):
                for c1 in (0, 1):
                    m0 = {}
                    r = acc('Tree_Set_Parent', [('ep', 'self', 0), NODE, p0], m0)
                    r2 = acc('Tree_Set_Color', [('ep', 'self', 0), NODE, c0], m0)
                    if r[0] != 'ret' or r2[0] != 'ret':
                        unsup = unsup or '%s' % ((r if r[0] != 'ret' else r2)[1],)
                        continue
                    m1 = dict(m0)
                    ra = acc('Tree_Set_Parent', [('ep', 'self', 0), NODE, p1], m1)
                    gp, gc = acc('Tree_Get_Parent', [('ep', 'self', 0), NODE], m1), acc(colour_fn, [('ep', 'self', 0), NODE], m1)
                    if ra[0] != 'ret' or gp[0] != 'ret' or gc[0] != 'ret':
                        unsup = unsup or 'accessors not evaluated'
                    elif gp[1] != p1 or bool(gc[1]) != bool(c0):
                        bad_p = bad_p or 'a %s node with parent %s, parent set to %s: the parent then reads %s, the colour %s' % ('red' if c0 else 'black', p0, p1, gp[1], 'red' if gc[1] else 'black')
                    m2 = dict(m0)
                    rb = acc('Tree_Set_Color', [('ep', 'self', 0), NODE, c1], m2)
                    gp, gc = acc('Tree_Get_Parent', [('ep', 'self', 0), NODE], m2), acc(colour_fn, [('ep', 'self', 0), NODE], m2)
                    if rb[0] != 'ret' or gp[0] != 'ret' or gc[0] != 'ret':
                        unsup = unsup or 'accessors not evaluated'
                    elif gp[1] != p0 or bool(gc[1]) != bool(c1):
                        bad_c = bad_c or 'a %s node with parent %s, colour set to %s: the parent then reads %s, the colour %s' % ('red' if c0 else 'black', p0, 'red' if c1 else 'black', gp[1], 'red' if gc[1] else 'black')
    fn = P.fn('Tree_Set_Parent')
    if unsup and not (bad_p or bad_c):
        ctx.undecided(rule, 'Tree_Set_Parent', site(fn), 'the tag-bit accessors leave the evaluated fragment: ' + unsup)
        ctx.undecided(rule, 'Tree_Get_Parent', site(P.fn('Tree_Get_Parent')), 'the tag-bit accessors leave the evaluated fragment: ' + unsup)
    else:
        ctx.check(bad_p is None, rule, 'Tree_Set_Parent', site(fn), 'setting the parent keeps the colour bit (bit 0 of the same word)', [bad_p] if bad_p else None)
        ctx.check(bad_c is None, rule, 'Tree_Get_Parent', site(P.fn('Tree_Get_Parent')), 'reading the parent masks the colour bit out; setting the colour keeps the parent', [bad_c] if bad_c else None)
    ctx.floor(rule, 6)


def check_miss_and_counts(P, ctx):
    rule = 'C03.miss-raises'
    for m, want in (('get', 'KeyError'), ('rem', 'KeyError'), ('mem', False)):
        fn = P.fn(P.slot('Tree', 'Get', m))
        ctx.fn(fn)
        if m in ('get', 'mem', 'rem'):
            from . import absmodel
            if (id(P), m) not in LOOKUP:
                try:
                    LOOKUP[(id(P), m)] = absmodel.eval_tree_lookup(P, m)[:3]
                except absmodel.Unsupported as x:
                    LOOKUP[(id(P), m)] = (None, None, str(x))
            bad_hit, bad_miss, unsup = LOOKUP[(id(P), m)]
            if unsup and not bad_miss:
                ctx.undecided(rule, fn['name'], site(fn), 'the lookup leaves the evaluated fragment: ' + unsup)
            else:
                ctx.check(bad_miss is None, rule, fn['name'], site(fn), 'a key that is not in the tree %s (evaluated on every tree shape of up to 4 nodes, one absent key per gap)' % (
                    'raises KeyError' if want else 'yields false'), [bad_miss] if bad_miss else None)
            continue
        g = P.cfg(fn)
        N = util.Norm(P, fn, inline=False)
        cm = [n for n in g.live() if n.get('decl') and n['decl']['init'] is not None and ir.top_nocast(n['decl']['init'])[0] == 'call' and ir.callee_name(ir.top_nocast(n['decl']['init'])) == 'cmp']
        ok = len(cm) == 1
        if ok:
            cv = ('local', cm[0]['decl']['name'])
            hit = [n for n in g.live() if n['kind'] == 'cond' and N.canon(n['expr']) in (ir.canon(('bin', '==', cv, ('int', 0))), ir.canon(('bin', '!=', cv, ('int', 0))))]
            ok = len(hit) == 1
        if ok:
            pol = N.canon(hit[0]['expr'])[1] == '=='
            # without ever hitting an equal key, which exits remain?
            reach = g.reach_from(g.entry, cut_edges=[(hit[0]['id'], pol)])
            exits = util.guided_exits(g, N, cut_edges=[(hit[0]['id'], pol)])
            if want is False:
                rets = [n for n in exits if n['kind'] == 'ret']
                ok = bool(rets) and all(util.const_int(n['expr']) == 0 for n in rets) and not [n for n in exits if n['kind'] == 'term' and n['why'][0] == 'throw' and n['why'][1] == 'KeyError']
            else:
                normal = [n for n in exits if n['kind'] in ('ret', 'exit')]
                thr = [n for n in exits if n['kind'] == 'term' and n['why'] == ('throw', want)]
                # paths through the `found` flag are infeasible without a hit: a return reached only through a flag that is set only on the hit edge
                feasible_normal = []
                for n in normal:
                    flags = [c for c in g.live() if c['kind'] == 'cond' and N.canon(c['expr'])[0] == 'local' and g.must_pass(n['id'], through_edges=[(c['id'], True)])]
                    infeasible = False
                    for c in flags:
                        fv = N.canon(c['expr'])
                        sets = [x for x in g.live() if x['kind'] == 'stmt' and x['expr'] is not None and N.canon(x['expr']) == ('assign', '=', fv, ('int', 1))]
                        if sets and all(x['id'] not in reach or g.must_pass(x['id'], through_edges=[(hit[0]['id'], pol)]) for x in sets):
                            infeasible = True
                    if not infeasible:
                        feasible_normal.append(n)
                ok = bool(thr) and not feasible_normal
        ctx.check(ok, rule, fn['name'], site(fn), 'a key that is not in the tree %s: without an equal key on the descent, %s' % (
            'raises KeyError' if want else 'yields false', 'every exit is throw(KeyError)' if want else 'every return is false'))
    ctx.floor(rule, 3)
    rule = 'C03.count-pairing'
    fn = P.fn('Tree_Set')
    g = P.cfg(fn)
    N = util.Norm(P, fn, inline=False)
    bad = None
    late = None
    npaths = 0
    for path in g.paths():
        if util.path_end(path)[0] == 'term':
            continue
        npaths += 1
        evs = util.path_events(path)
        allocs = sum(1 for e in evs if e['t'] == 'call' and e['name'] == 'Tree_Alloc')
        fixes = sum(1 for e in evs if e['t'] == 'call' and e['name'] == 'Tree_Set_Fix')
        incs = sum(1 for e in evs if e['t'] == 'write' and N.canon(e['lhs']) == ('arrow', ('param', 0), 'nitems') and e['op'] == '++')
        assigns = sum(1 for e in evs if e['t'] == 'call' and e['name'] == 'assign')
        if (allocs, fixes, incs) not in ((1, 1, 1), (0, 0, 0)) or assigns != 2:
            bad = bad or ((allocs, fixes, incs, assigns), util.describe_path(g, path, 14))
        # a call that can refuse the operation (assign / cast raise TypeError or ValueError for a value of the wrong type) must not come
        # after the count was raised: a refused set would leave the count one above the number of nodes
        seen_inc = False
        for e in evs:
            if e['t'] == 'write' and N.canon(e['lhs']) == ('arrow', ('param', 0), 'nitems'):
                seen_inc = True
            elif seen_inc and e['t'] == 'call' and e['name'] in ('assign', 'cast'):
                late = late or util.describe_path(g, path, 14)
    ctx.stats['paths'] += npaths
    ctx.check(bad is None, rule, 'Tree_Set', site(fn), 'a path that allocates a node counts it once and rebalances once; the replace path does neither; key and value are each assigned once',
              ['(allocs, fix-ups, count increments, assigns) = %s' % (bad[0],)] + bad[1] if bad else None)
    ctx.check(late is None, rule, 'Tree_Set:count-after-refusals', site(fn), 'the count is raised only after every call that can refuse the value (cast, assign): a refused set leaves count and nodes in step',
              late)
    fn = P.fn('Tree_Rem')
    g = P.cfg(fn)
    N = util.Norm(P, fn, inline=False)
    decs = [n for n in g.live() if n['expr'] is not None and N.canon(n['expr']) == ('un', 'post--', ('arrow', ('param', 0), 'nitems'))]
    frees = [n for (n, c) in g.nodes_calling('free')]
    rep = [n for (n, c) in g.nodes_calling('Tree_Replace')]
    des = [n for (n, c) in g.nodes_calling('destruct')]
    ok = len(decs) == 1 and len(frees) == 1 and len(rep) == 1 and len(des) == 2 and g.must_pass(g.exit, [decs[0]['id']], start=des[0]['id']) and \
        g.must_pass(frees[0]['id'], [rep[0]['id']]) and g.must_pass(g.exit, [frees[0]['id']], start=des[0]['id'])
    ctx.check(ok, rule, 'Tree_Rem', site(fn), 'a found key is removed with the count decremented once and exactly one node unlinked (Tree_Replace) and then freed')
    fn = P.fn('Tree_Clear')
    ctx.floor(rule, 2)


def check_layout(P, ctx):
    """the node layout is whatever the accessors say; what must hold is agreement: the allocator's block covers links, headers, key and
    value where the accessors place them, without overlap, each embedded object with its header directly in front; the functions that
    recover a node from a key cursor invert Tree_Key (decided by the walks: C03.cursor-order, and the visit evaluations here)"""
    from . import absmodel
    rule = 'C03.layout'
    fn = P.fn('Tree_Alloc')
    ctx.fn(fn)
    try:
        bad, unsup = absmodel.eval_node_alloc(P, 'Tree')
    except absmodel.Unsupported as x:
        bad, unsup = None, str(x)
    if unsup and not bad:
        ctx.undecided(rule, 'Tree_Alloc', site(fn), 'the allocator leaves the evaluated fragment: ' + unsup)
    else:
        ctx.check(bad is None, rule, 'Tree_Alloc', site(fn), 'a node is three link words, a header, the key, a header and the value: the block covers all of them where Tree_Left/Right/'
                  'Get_Parent/Key/Val place them, without overlap, and both headers are initialised (key type, value type, AllocData)', [bad] if bad else None)
    for fname, mode in (('Tree_Hash', 'hash'), ('Tree_Mark', 'mark')):
        fn = P.fn(P.slot('Tree', 'Hash' if mode == 'hash' else 'Mark', mode))
        ctx.fn(fn)
        try:
            bad, unsup, ncase = absmodel.eval_visits(P, 'Tree', fn['name'], mode)
        except absmodel.Unsupported as x:
            bad, unsup, ncase = None, str(x), 0
        ctx.stats['paths'] += ncase
        if unsup and not bad:
            ctx.undecided(rule, fname + ':node-from-key', site(fn), 'leaves the evaluated fragment: ' + unsup)
        else:
            ctx.check(bad is None, rule, fname + ':node-from-key', site(fn), 'the node of a key cursor is recovered by the inverse of Tree_Key: walking every tree shape of up to 4 nodes reaches every '
                      'key and value once', [bad] if bad else None)
    # predecessor copy extent (shared with C05)
    from .rules_c05 import tree_pred_copy_extent
    fn = P.fn('Tree_Rem')
    g = P.cfg(fn)
    mc = [n for (n, c) in g.nodes_calling('memcpy')]
    why = tree_pred_copy_extent(P, fn, g, mc) if mc else 'no byte copy'
    ctx.check(why is True, rule, 'Tree_Rem:predecessor-copy', site(fn), 'the predecessor\'s whole payload (both headers, key and value) replaces the removed entry\'s, at the same offsets',
              [why] if why is not True else None)
    ctx.floor(rule, 4)


def check_colour_transfer(P, ctx):
    """DEP: where a node is given the colour *of another node* (Tree_Set_Color(a, Tree_Get_Color(b))), that colour must be read
    before b itself is recoloured in the same straight-line sequence — otherwise the transfer degenerates to a constant"""
    rule = 'C03.colour-transfer'
    WRITERS = {'Tree_Set_Black', 'Tree_Set_Red', 'Tree_Set_Color'}
    n_tr = 0
    for fname in ('Tree_Rem_Fix', 'Tree_Set_Fix', 'Tree_Rem'):
        fn = P.fn(fname)
        g = P.cfg(fn)
        ctx.fn(fn)
        N = util.Norm(P, fn, inline=False)
        for n in g.live():
            if n['expr'] is None:
                continue
            for c in ir.calls(n['expr']):
                if ir.callee_name(c) != 'Tree_Set_Color' or len(c[2]) != 3:
                    continue
                src = ir.top_nocast(c[2][2])
                if not (src[0] == 'call' and ir.callee_name(src) in ('Tree_Get_Color', 'Tree_Is_Red', 'Tree_Is_Black')):
                    continue
                n_tr += 1
                b = N.canon(src[2][1])
                # walk back through the straight-line predecessors
                cur = n
                bad = None
                steps = 0
                while steps < 40:
                    steps += 1
                    preds = [p for (p, _) in cur['pred']]
                    if len(preds) != 1:
                        break
                    cur = g.nodes[preds[0]]
                    if cur['kind'] not in ('stmt',) or cur['expr'] is None:
                        break
                    stop = False
                    for c2 in ir.calls(cur['expr']):
                        nm = ir.callee_name(c2)
                        if nm in ('Tree_Rotate_Left', 'Tree_Rotate_Right', 'Tree_Replace'):
                            stop = True
                        if nm in WRITERS and len(c2[2]) >= 2 and N.canon(c2[2][1]) == b:
                            bad = cur
                    if bad or stop:
                        break
                key = '%s:%s<-%s' % (fname, ir.fmt(N.canon(c[2][1]))[:40], ir.fmt(b)[:40])
                ctx.check(bad is None, rule, key, site(fn, n['line']),
                          'the colour handed to `%s` is the colour `%s` had before this step; here that node is recoloured first, so the value transferred is a constant '
                          '(black heights of the two subtrees then differ whenever it was red)' % (ir.fmt(N.canon(c[2][1])), ir.fmt(b)),
                          ['recoloured at %s' % g.describe(bad), 'then transferred at %s' % g.describe(n)] if bad else None)
    ctx.floor(rule, 1)


def check_assign_rebuilds(P, ctx, T, clear, insert, rule):
    """assign clears the target first, takes over the source's key / value types (also from an empty source) and inserts
    (key, get(obj, key)) for every key the source iterates — evaluated (absmodel.eval_map_assign)"""
    from . import absmodel
    fn = P.fn(P.slot(T, 'Assign', 'assign'))
    ctx.fn(fn)
    try:
        bad, unsup, ncase = absmodel.eval_map_assign(P, T)
    except absmodel.Unsupported as x:
        bad, unsup, ncase = None, str(x), 0
    ctx.stats['paths'] += ncase
    for key, text in ((':clears-always', 'the previous bindings are cleared on every path, including when the source is empty, before the size fields change'),
                      (':reinserts-all', 'the source\'s key and value types are taken over (also from an empty source) and every key the source yields is inserted with the source\'s value for it, after the clear')):
        if unsup and not bad:
            ctx.undecided(rule, fn['name'] + key, site(fn), 'assign leaves the evaluated fragment: ' + unsup)
        else:
            ctx.check(bad is None, rule, fn['name'] + key, site(fn), text + ' (%d sources evaluated)' % ncase, [bad] if bad else None)
    ctx.floor(rule, 2)


def check_rb_invariant(P, ctx):
    """SHAPE: the loop invariants of the two fix-up loops are inductive and imply a valid red-black tree at every return
    (abstract interpretation over materialised nodes + summary subtrees, see rbshape.py)"""
    from . import rbshape
    rule = 'C03.rb-invariant'
    for fname, kind, inv in (
            ('Tree_Rem_Fix', 'rem', 'the subtree at `node` is one black short, everything else is a valid red-black tree'),
            ('Tree_Set_Fix', 'set', '`node` is red, possibly under a red parent or at the root, everything else is a valid red-black tree')):
        fn = P.fn(fname)
        ctx.fn(fn)
        res = rbshape.explore(P, fname, kind)
        for f in sorted(res.get('functions', ())):
            ctx.fn(f)
        ctx.stats['paths'] += res['returns'] + res['loopbacks']
        if res['unsupported']:
            ctx.undecided(rule, fname + ':evaluable', site(fn), 'the fix-up leaves the fragment the shape interpreter evaluates: ' + res['unsupported'][0])
            continue
        by = {'return': [], 'loop': [], 'during the step': []}
        for v in res['violations']:
            by[v['exit']].append(v)

        def det(vs):
            if not vs:
                return None
            v = vs[0]
            return (['%d abstract states fail; first:' % len(vs), 'loop-head state: %s, %s' % (v['pre'], v['h'])]
                    + ['  focus  ' + x for x in v['focus']] + ['statement lines taken: %s' % v['lines'], 'violated: ' + v['what']])
        ok = not by['return'] and res['returns'] > 0
        ctx.check(ok, rule, fname + ':return-leaves-valid-tree', site(fn, by['return'][0]['lines'][-1] if by['return'] and by['return'][0]['lines'] else None),
                  'from every tree in which %s, every path to a return leaves a valid red-black tree (links paired, no red-red, equal '
                  'black heights, height and colour compatible with the unexamined context, root black) — %d abstract paths' % (inv, res['returns']),
                  det(by['return']))
        ok = not by['loop']
        ctx.check(ok, rule, fname + ':continue-preserves-invariant', site(fn, by['loop'][0]['lines'][-1] if by['loop'] and by['loop'][0]['lines'] else None),
                  'every path back to the loop head re-establishes that invariant for a node strictly nearer the root (so the loop runs at '
                  'most height-many times) — %d abstract paths' % res['loopbacks'], det(by['loop']))
        ok = not by['during the step']
        ctx.check(ok, rule, fname + ':no-null-node-access', site(fn, by['during the step'][0]['line'] if by['during the step'] else None),
                  'no step reads or writes a field of a NULL node from any such tree', det(by['during the step']))
    ctx.floor(rule, 6)


def check_rb_operations(P, ctx):
    """SHAPE: insertion and removal as a whole.  From `m->root` = an arbitrary node of a valid red-black tree (or NULL) every path of
    Tree_Set / Tree_Rem either raises with the tree untouched or leaves a valid tree: the new node is linked (both directions), red,
    and handed to the fix-up in the state its loop invariant needs; the node to unlink has at most one child, carries the colour of the
    child that replaces it when the fix-up is entered, is replaced and released exactly once, and the root ends black.  The two fix-up
    loops and Tree_Maximum are used through the contracts C03.rb-invariant / the maximum contract establish."""
    from . import rbshape
    rule = 'C03.rb-operations'

    def det(vs):
        if not vs:
            return None
        v = vs[0]
        return (['%d abstract states fail; first:' % len(vs), 'start: %s, %s' % (v['pre'], v['h'])]
                + ['  focus  ' + x for x in v['focus']] + ['statement lines taken: %s' % v['lines'], 'violated (%s): %s' % (v['exit'], v['what'])])
    for fname, what in (('Tree_Set', 'insertion'), ('Tree_Rem', 'removal')):
        fn = P.fn(fname)
        ctx.fn(fn)
        res = rbshape.explore_op(P, fname)
        ctx.stats['paths'] += res['returns'] + res['loopbacks'] + res['raises']
        if res['unsupported']:
            ctx.undecided(rule, fname + ':evaluable', site(fn), '%s leaves the fragment the shape interpreter evaluates: %s' % (what, res['unsupported'][0]))
            continue
        vs = res['violations']
        ln = None
        if vs:
            ln = vs[0]['line'] or (vs[0]['lines'][-1] if vs[0]['lines'] else None)
        ctx.check(not vs and res['returns'] > 0, rule, fname + ':leaves-valid-tree', site(fn, ln),
                  'from any valid red-black tree, every path of the %s raises with the tree untouched or leaves a valid red-black tree '
                  '(%d returning, %d raising, %d descending abstract paths)' % (what, res['returns'], res['raises'], res['loopbacks']), det(vs))
    fn = P.fn('Tree_Maximum')
    ctx.fn(fn)
    res = rbshape.explore_maximum(P)
    if res['unsupported']:
        ctx.undecided(rule, 'Tree_Maximum:evaluable', site(fn), 'outside the evaluated fragment: ' + res['unsupported'][0])
    else:
        ctx.check(not res['violations'] and res['returns'] > 0, rule, 'Tree_Maximum:contract', site(fn),
                  'the predecessor search returns a node on the right spine of its argument that has no right child, and writes nothing', det(res['violations']))
    ctx.floor(rule, 3)


def run(ctx, load):
    P = load(UNITS, 'default')
    ctx.stats['units'] = set(UNITS)
    ctx.stats['configs'] = ['default']
    check_descent(P, ctx)
    check_mirror(P, ctx)
    check_links(P, ctx)
    check_miss_and_counts(P, ctx)
    check_layout(P, ctx)
    check_colour_transfer(P, ctx)
    check_assign_rebuilds(P, ctx, 'Tree', 'Tree_Clear', 'Tree_Set', 'C03.assign-rebuilds')
    check_rb_invariant(P, ctx)
    check_rb_operations(P, ctx)
    # the order of the tree is the key type's cmp: for the built-in scalar key types it must be the order of the values (a truncated or
    # overflowing difference is no order at all: a < b < c < a), or sorted iteration and lookup fail whatever the tree code does
    # set on a key the Tree already holds re-assigns the stored key from the caller's — which may be that very object (`foreach (k in t)
    # set(t, k, v)`): String, the usual key type, must survive being assigned from itself (shared with C16)
    from .rules_c16 import check_self_assign
    Ps = load(['src/String.c', 'src/Exception.c'], 'default')
    ctx.config = 'default'
    check_self_assign(Ps, ctx, rule='C03.key-survives-reassignment')
    # no node pointer cached in the Tree record survives the release of its node (a remembered last lookup answers for a key that is gone;
    # shared with C12)
    from .rules_c12 import check_node_caches
    Pk = load(None, 'default')
    ctx.borrow('C03.no-stale-node-cache', 1, lambda: check_node_caches(Pk, ctx), only=lambda o: 'Tree' in o['key'])
    from .rules_c09 import check_scalar_cmps
    ctx.borrow('C03.key-order-is-an-order', 4, lambda: check_scalar_cmps(Pk, ctx))
    if ctx.tier == 'thorough':
        Pc = load(UNITS, 'ndebug')
        ctx.stats['configs'].append('ndebug')
        check_layout(Pc, ctx)
        check_mirror(Pc, ctx)
        check_descent(Pc, ctx)
        check_rb_invariant(Pc, ctx)
        check_rb_operations(Pc, ctx)
        ctx.config = 'default'


EXPLANATION = (
    'Decided: (a) descent-agreement — get, mem, set and rem all compare cmp(stored key, sought key) and map negative to the left child, '
    'positive to the right child (decided by evaluating the branch conditions for c in {-1,0,1}); (b) cursor-order — the four cursor functions, evaluated on every tree shape of up to 4 nodes, '
    'yield the in-order key sequence and its reverse; (c) link-pairing — every child-link store is paired with the '
    'child\'s parent-link update on every path (NULL child excepted); the colour tag bit and the parent pointer share a word and setting '
    'one preserves the other; (d) absent keys raise KeyError / yield false; insert counts once and rebalances once, replace does neither, '
    'remove decrements once and frees exactly the unlinked node; (e) layout — node size, key/value/link offsets, node recovery from a key '
    'cursor and the predecessor copy extent agree; (f) rb-invariant — shape analysis (abstract interpretation of the source over '
    'materialised nodes, summary subtrees of symbolic black height and an unexamined context, focused on demand): the loop invariants of '
    'Tree_Set_Fix and Tree_Rem_Fix are inductive, every return leaves a valid red-black tree (links paired, no red-red, equal black '
    'heights, compatible with the context, root black; for rem the unlinked node unchanged under a black parent), every iteration moves '
    'strictly towards the root, no NULL node is accessed; (g) rb-operations — Tree_Set and Tree_Rem from an arbitrary node of a valid tree '
    'raise with the tree untouched or leave a valid tree, using the fix-ups and Tree_Maximum through the contracts so established. NOT '
    'decided: key order beyond the descent convention and the predecessor side (cmp is any of <0, 0, >0 in the shape analysis); payload '
    'writes are trusted to stay off the link words (layout rule).')
