"""Control-flow graph over the statement IR, reachability cuts, dominators and
bounded path enumeration.

Node kinds: entry, stmt (expression or one declaration), cond (two-way branch,
labels True/False), switch (labels ('case', v) / 'default'), ret, term
(a call that never returns; 'why' says which), exit (normal function exit).
"""
from . import ir
from .front import AnalysisBroken

BASE_NORETURN = {'longjmp', 'abort', 'exit', '_exit', 'siglongjmp', '__assert_fail'}


class CFG:
    def __init__(self, fn, noreturn=frozenset(), fold_locals=True, lower_ternary=False):
        self.lower_ternary = lower_ternary
        self.fn = fn
        self.name = fn['name']
        self.noreturn = set(noreturn) | BASE_NORETURN
        self.nodes = []
        self.folded = {}
        if fold_locals:
            self.folded = _write_once_literals(fn['body'])
        self.entry = self._new('entry', line=fn['line'])
        self.exit = self._new('exit', line=fn.get('end') or fn['line'])
        brk, cont = [], []
        out = self._stmt(fn['body'], [(self.entry, None)], None, None)
        self._connect(out, self.exit)
        self._prune()

    # -- construction -----------------------------------------------------
    def _new(self, kind, **kw):
        n = {'id': len(self.nodes), 'kind': kind, 'succ': [], 'pred': [], 'expr': None, 'line': None}
        n.update(kw)
        self.nodes.append(n)
        return n['id']

    def _connect(self, dangling, tgt):
        for (src, label) in dangling:
            self.nodes[src]['succ'].append((tgt, label))
            self.nodes[tgt]['pred'].append((src, label))

    def _fold(self, e):
        if not self.folded or e is None:
            return e

        def f(x):
            if x[0] == 'local' and x[2] in self.folded:
                return self.folded[x[2]]
            if x[0] == 'cond':
                c = ir.top_nocast(x[1])
                if c[0] == 'int':
                    return x[2] if c[1] else x[3]
            return x
        return ir.rebuild(e, f)

    def _noreturn_call(self, e):
        """returns (why, unconditional?) if e contains a call that never returns"""
        found = None

        def visit(x, conditional):
            nonlocal found
            if not ir.is_expr(x) or found:
                return
            if x[0] == 'call':
                nm = ir.callee_name(x)
                if nm in self.noreturn:
                    found = (self._why(x, nm), not conditional)
                    return
            if x[0] == 'cond':
                visit(x[1], conditional)
                visit(x[2], True)
                visit(x[3], True)
                return
            if x[0] == 'bin' and x[1] in ('&&', '||'):
                visit(x[2], conditional)
                visit(x[3], True)
                return
            for c in ir.children(x):
                visit(c, conditional)
        visit(e, False)
        return found

    @staticmethod
    def _why(call, nm):
        if nm == 'exception_throw':
            a0 = ir.top_nocast(call[2][0]) if call[2] else None
            if a0 and a0[0] == 'global':
                return ('throw', a0[1])
            return ('throw', ir.fmt(a0))
        return (nm,)

    def _simple(self, kind, e, s, dangling, **kw):
        """one non-branching node; returns new dangling"""
        e = self._fold(e)
        nr = self._noreturn_call(e) if e is not None else None
        if nr:
            why, uncond = nr
            if not uncond:
                raise AnalysisBroken('%s:%s: non-returning call under a conditional operator is '
                                     'outside the analysed fragment' % (self.name, s['line']))
            n = self._new('term', expr=e, line=s['line'], why=why, macro=s.get('macro'), **kw)
            self._connect(dangling, n)
            return []
        n = self._new(kind, expr=e, line=s['line'], macro=s.get('macro'), **kw)
        self._connect(dangling, n)
        if kind == 'ret':
            self._connect([(n, None)], self.exit)
            return []
        return [(n, None)]

    def _branch(self, e, dangling, s):
        e = self._fold(e)
        t = ir.top_nocast(e)
        if t[0] == 'bin' and t[1] == '&&':
            ta, fa = self._branch(t[2], dangling, s)
            tb, fb = self._branch(t[3], ta, s)
            return tb, fa + fb
        if t[0] == 'bin' and t[1] == '||':
            ta, fa = self._branch(t[2], dangling, s)
            tb, fb = self._branch(t[3], fa, s)
            return ta + tb, fb
        if t[0] == 'un' and t[1] == '!':
            tt, ff = self._branch(t[2], dangling, s)
            return ff, tt
        if t[0] == 'int':
            return (dangling, []) if t[1] else ([], dangling)
        nr = self._noreturn_call(e)
        if nr:
            raise AnalysisBroken('%s:%s: non-returning call inside a condition' % (self.name, s['line']))
        n = self._new('cond', expr=e, line=s['line'], macro=s.get('macro'))
        self._connect(dangling, n)
        return [(n, True)], [(n, False)]

    def _stmt(self, s, dangling, brk, cont):
        """brk / cont: lists collecting dangling edges of break / continue"""
        if s is None:
            return dangling
        k = s['k']
        if k == 'block':
            for c in s['body']:
                dangling = self._stmt(c, dangling, brk, cont)
            return dangling
        if k == 'null':
            return dangling
        if k == 'expr':
            if self.lower_ternary:
                t = ir.top_nocast(s['expr'])
                if t[0] == 'assign' and t[1] == '=' and ir.top_nocast(t[3])[0] == 'cond':
                    c = ir.top_nocast(t[3])
                    tt, ff = self._branch(c[1], dangling, s)
                    a = self._stmt(dict(s, expr=('assign', '=', t[2], c[2])), tt, brk, cont)
                    b = self._stmt(dict(s, expr=('assign', '=', t[2], c[3])), ff, brk, cont)
                    return a + b
            return self._simple('stmt', s['expr'], s, dangling)
        if k == 'decl':
            for d in s['decls']:
                if d['id'] in self.folded:
                    continue
                e = None
                if d['init'] is not None:
                    e = ('assign', '=', ('local', d['name'], d['id']), d['init'])
                if self.lower_ternary and d['init'] is not None and ir.top_nocast(d['init'])[0] == 'cond':
                    c = ir.top_nocast(d['init'])
                    tt, ff = self._branch(c[1], dangling, s)
                    a = self._simple('stmt', ('assign', '=', ('local', d['name'], d['id']), c[2]), s, tt, decl=d)
                    b = self._simple('stmt', ('assign', '=', ('local', d['name'], d['id']), c[3]), s, ff, decl=d)
                    dangling = a + b
                    continue
                dangling = self._simple('stmt', e, s, dangling, decl=d)
            return dangling
        if k == 'return':
            if self.lower_ternary and s['expr'] is not None and ir.top_nocast(s['expr'])[0] == 'cond':
                c = ir.top_nocast(s['expr'])
                tt, ff = self._branch(c[1], dangling, s)
                self._stmt(dict(s, expr=c[2]), tt, brk, cont)
                self._stmt(dict(s, expr=c[3]), ff, brk, cont)
                return []
            return self._simple('ret', s['expr'], s, dangling)
        if k == 'if':
            t, f = self._branch(s['cond'], dangling, s)
            to = self._stmt(s['then'], t, brk, cont)
            fo = self._stmt(s['els'], f, brk, cont) if s['els'] is not None else f
            return to + fo
        if k == 'while':
            head = self._new('join', line=s['line'], loop='while')
            self._connect(dangling, head)
            t, f = self._branch(s['cond'], [(head, None)], s)
            b, c = [], []
            out = self._stmt(s['body'], t, b, c)
            self._connect(out + c, head)
            return f + b
        if k == 'do':
            head = self._new('join', line=s['line'], loop='do')
            self._connect(dangling, head)
            b, c = [], []
            out = self._stmt(s['body'], [(head, None)], b, c)
            t, f = self._branch(s['cond'], out + c, s)
            self._connect(t, head)
            return f + b
        if k == 'for':
            dangling = self._stmt(s['init'], dangling, brk, cont)
            head = self._new('join', line=s['line'], loop='for')
            self._connect(dangling, head)
            if s['cond'] is not None:
                t, f = self._branch(s['cond'], [(head, None)], s)
            else:
                t, f = [(head, None)], []
            b, c = [], []
            out = self._stmt(s['body'], t, b, c)
            out = out + c
            if s['inc'] is not None:
                out = self._simple('stmt', s['inc'], s, out, loop_inc=True)
            self._connect(out, head)
            return f + b
        if k == 'switch':
            e = self._fold(s['cond'])
            sw = self._new('switch', expr=e, line=s['line'])
            self._connect(dangling, sw)
            b = []
            ctx = {'sw': sw, 'has_default': False}
            out = self._switch_body(s['body'], [], b, cont, ctx)
            res = out + b
            if not ctx['has_default']:
                res = res + [(sw, 'nomatch')]
            return res
        if k == 'break':
            if brk is None:
                raise AnalysisBroken('%s:%s: break outside loop' % (self.name, s['line']))
            brk.extend(dangling)
            return []
        if k == 'continue':
            if cont is None:
                raise AnalysisBroken('%s:%s: continue outside loop' % (self.name, s['line']))
            cont.extend(dangling)
            return []
        if k in ('case', 'default'):
            raise AnalysisBroken('%s:%s: case label outside switch body' % (self.name, s['line']))
        raise AnalysisBroken('unhandled statement kind %s' % k)

    def _switch_body(self, s, dangling, brk, cont, ctx):
        if s is None:
            return dangling
        k = s['k']
        if k == 'block':
            for c in s['body']:
                dangling = self._switch_body(c, dangling, brk, cont, ctx)
            return dangling
        if k in ('case', 'default'):
            j = self._new('join', line=s['line'])
            self._connect(dangling, j)
            if k == 'case':
                self._connect([(ctx['sw'], ('case', ir.top_nocast(s['val'])))], j)
            else:
                ctx['has_default'] = True
                self._connect([(ctx['sw'], 'default')], j)
            return self._switch_body(s['body'], [(j, None)], brk, cont, ctx)
        return self._stmt(s, dangling, brk, cont)

    def _prune(self):
        """drop nodes unreachable from entry (code after a terminator)"""
        seen = self.reach_from(self.entry)
        for n in self.nodes:
            if n['id'] not in seen:
                n['dead'] = True
                n['succ'] = []
            n['pred'] = [(p, l) for (p, l) in n['pred'] if p in seen]

    # -- queries ------------------------------------------------------------
    def live(self):
        return [n for n in self.nodes if not n.get('dead')]

    def reach_from(self, start, cut_nodes=(), cut_edges=()):
        """set of node ids reachable from start without entering cut_nodes or
        traversing cut_edges ((src, label) pairs or (src, tgt, label))."""
        cut_nodes = set(cut_nodes)
        cut_edges = set(cut_edges)
        if start in cut_nodes:
            return set()
        seen = {start}
        stack = [start]
        while stack:
            u = stack.pop()
            for (v, l) in self.nodes[u]['succ']:
                if (u, l) in cut_edges or (u, v, l) in cut_edges:
                    continue
                if v in cut_nodes or v in seen:
                    continue
                seen.add(v)
                stack.append(v)
        return seen

    def natural_loop(self, head):
        """nodes of the natural loop(s) with header `head` (a join node): the header plus every node
        that reaches one of its back-edge sources without passing the header"""
        hid = head if isinstance(head, int) else head['id']
        if not hasattr(self, '_dom'):
            self._dom = self.dominators()
        tails = [p for (p, _) in self.nodes[hid]['pred'] if hid in self._dom.get(p, ())]
        loop = {hid}
        stack = list(tails)
        while stack:
            u = stack.pop()
            if u in loop:
                continue
            loop.add(u)
            for (p, _) in self.nodes[u]['pred']:
                if p not in loop:
                    stack.append(p)
        return loop

    def innermost_loop_of(self, nid):
        """natural loop of the innermost loop header whose loop contains node nid"""
        best = None
        for n in self.live():
            if n['kind'] == 'join' and n.get('loop'):
                lp = self.natural_loop(n['id'])
                if nid in lp and (best is None or len(lp) < len(best)):
                    best = lp
        return best

    def must_pass(self, target, through_nodes=(), through_edges=(), start=None):
        """True iff every path from start (default entry) to target passes a
        node in through_nodes or an edge in through_edges."""
        start = self.entry if start is None else start
        if target in set(through_nodes):
            return True
        return target not in self.reach_from(start, through_nodes, through_edges)

    def exits(self):
        """terminal nodes: ret nodes, term nodes, and the fall-off-end edge"""
        out = []
        for n in self.live():
            if n['kind'] in ('ret', 'term'):
                out.append(n)
        return out

    def falls_off_end(self):
        return any(self.nodes[p]['kind'] != 'ret' for (p, _) in self.nodes[self.exit]['pred'])

    def returns_normally(self):
        return bool(self.nodes[self.exit]['pred'])

    def find(self, pred):
        return [n for n in self.live() if pred(n)]

    def nodes_calling(self, name):
        out = []
        for n in self.live():
            if n['expr'] is None:
                continue
            for c in ir.calls(n['expr']):
                if ir.callee_name(c) == name:
                    out.append((n, c))
        return out

    def paths(self, max_visits=2, limit=200000, start=None, stop_at=None):
        """all paths start..(exit|term) with each node visited at most
        max_visits times. Yields lists of (node, label_taken_to_leave)."""
        start = self.entry if start is None else start
        count = 0
        visits = {}
        path = []

        def rec(u):
            nonlocal count
            node = self.nodes[u]
            visits[u] = visits.get(u, 0) + 1
            try:
                if not node['succ'] or (stop_at is not None and u in stop_at):
                    path.append((node, None))
                    count += 1
                    if count > limit:
                        raise AnalysisBroken('%s: more than %d paths' % (self.name, limit))
                    yield list(path)
                    path.pop()
                    return
                for (v, l) in node['succ']:
                    if visits.get(v, 0) >= max_visits:
                        continue
                    path.append((node, l))
                    yield from rec(v)
                    path.pop()
            finally:
                visits[u] -= 1
        yield from rec(start)

    def dominators(self):
        ids = [n['id'] for n in self.live()]
        allset = set(ids)
        dom = {i: set(allset) for i in ids}
        dom[self.entry] = {self.entry}
        changed = True
        order = ids
        while changed:
            changed = False
            for i in order:
                if i == self.entry:
                    continue
                preds = [p for (p, _) in self.nodes[i]['pred']]
                if not preds:
                    continue
                new = set(allset)
                for p in preds:
                    new &= dom[p]
                new.add(i)
                if new != dom[i]:
                    dom[i] = new
                    changed = True
        return dom

    def describe(self, n):
        k = n['kind']
        if k in ('entry', 'exit', 'join'):
            return '%s@%s' % (k, n['line'])
        if k == 'term':
            return '%s:%s %s [%s]' % (self.fn['file'], n['line'], ir.fmt(n['expr']), '/'.join(map(str, n['why'])))
        return '%s:%s %s%s' % (self.fn['file'], n['line'], 'if ' if k == 'cond' else ('return ' if k == 'ret' else ''), ir.fmt(n['expr']))


def _write_once_literals(body):
    """locals initialised with an integer literal and never assigned, inc/dec'd
    or address-taken afterwards (e.g. the anti-inlining `volatile int noinline
    = 1`). Only *volatile* or const ones are folded: an ordinary counter whose
    updates we would miss is never folded because any write disqualifies it."""
    cand = {}
    for s in ir.stmts(body):
        if s['k'] == 'decl':
            for d in s['decls']:
                if d['init'] is not None and ir.top_nocast(d['init'])[0] == 'int' and not d['static']:
                    cand[d['id']] = ir.top_nocast(d['init'])
    if not cand:
        return {}
    for e, _ in ir.all_exprs(body):
        for x in ir.walk(e):
            if x[0] == 'assign':
                t = ir.top_nocast(x[2])
                if t[0] == 'local':
                    cand.pop(t[2], None)
            elif x[0] == 'un' and x[1] in ('pre++', 'pre--', 'post++', 'post--', '&'):
                t = ir.top_nocast(x[2])
                if t[0] == 'local':
                    cand.pop(t[2], None)
    return cand
