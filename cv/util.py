"""Shared analysis helpers: path events, field writes, guards."""
from . import ir
from .front import AnalysisBroken


def expr_events(e, node):
    """evaluation-ordered events of one expression: calls and writes (post-order)."""
    out = []

    def visit(x):
        if not ir.is_expr(x):
            return
        k = x[0]
        if k == 'assign':
            visit(x[3])
            # evaluate sub-expressions of the lvalue (index, base) but not the lvalue itself
            for c in ir.children(x[2]):
                visit(c)
            out.append({'t': 'write', 'lhs': x[2], 'op': x[1], 'rhs': x[3], 'node': node})
            return
        if k == 'un' and x[1] in ('pre++', 'pre--', 'post++', 'post--'):
            for c in ir.children(x[2]):
                visit(c)
            out.append({'t': 'write', 'lhs': x[2], 'op': x[1][-2:], 'rhs': None, 'node': node})
            return
        if k == 'call':
            st = ir.as_stack(x)
            if st is not None:      # `$(T, ...)`: only the field initialisers are evaluated user code
                for f in st[1]:
                    visit(f)
                return
        for c in ir.children(x):
            visit(c)
        if k == 'call':
            out.append({'t': 'call', 'name': ir.callee_name(x), 'args': x[2], 'expr': x, 'node': node})
    visit(e)
    return out


def path_events(path):
    """events along a CFG path"""
    ev = []
    for (n, label) in path:
        k = n['kind']
        if k in ('stmt', 'ret', 'term') and n['expr'] is not None:
            ev.extend(expr_events(n['expr'], n))
        if k == 'cond':
            ev.extend(expr_events(n['expr'], n))
            ev.append({'t': 'cond', 'expr': n['expr'], 'val': label, 'node': n})
        elif k == 'switch':
            ev.extend(expr_events(n['expr'], n))
            ev.append({'t': 'switch', 'expr': n['expr'], 'val': label, 'node': n})
        elif k == 'ret':
            ev.append({'t': 'ret', 'expr': n['expr'], 'node': n})
        elif k == 'term':
            ev.append({'t': 'term', 'why': n['why'], 'node': n})
        elif k == 'exit':
            ev.append({'t': 'exit', 'node': n})
    return ev


def path_end(path):
    """('ret', expr) | ('term', why) | ('fall',) classification of a complete path"""
    last = path[-1][0]
    if last['kind'] == 'term':
        return ('term', last['why'], last)
    if last['kind'] == 'exit':
        if len(path) >= 2 and path[-2][0]['kind'] == 'ret':
            return ('ret', path[-2][0]['expr'], path[-2][0])
        return ('fall', None, last)
    return ('open', None, last)


def field_name(e):
    e = ir.top_nocast(e)
    if e[0] in ('arrow', 'dot'):
        return e[2]
    return None


def is_field(e, name, base=None):
    e = ir.top_nocast(e)
    if e[0] in ('arrow', 'dot') and e[2] == name:
        if base is None:
            return True
        return ir.top_nocast(e[1]) == base
    return False


def mentions(e, pred):
    return any(pred(x) for x in ir.walk(e))


def mentions_field(e, name):
    return mentions(e, lambda x: x[0] in ('arrow', 'dot') and x[2] == name)


def mentions_var(e, v):
    return mentions(e, lambda x: x == v)


def describe_path(cfg, path, maxn=40):
    out = []
    for (n, l) in path:
        if n['kind'] in ('entry', 'join', 'exit'):
            continue
        s = cfg.describe(n)
        if n['kind'] in ('cond', 'switch'):
            s += '  -> %s' % (l,)
        out.append(s)
    if len(out) > maxn:
        out = out[:maxn // 2] + ['...'] + out[-maxn // 2:]
    return out


def local_decl_types(fn):
    """{local id: desugared type} for a function"""
    out = {}
    for s in ir.stmts(fn['body']):
        if s['k'] == 'decl':
            for d in s['decls']:
                out[d['id']] = d['type']
    return out


def aliases_of_param(fn, idx):
    """locals initialised directly from parameter idx (struct X* t = self)"""
    out = set()
    for s in ir.stmts(fn['body']):
        if s['k'] == 'decl':
            for d in s['decls']:
                if d['init'] is not None:
                    t = ir.top_nocast(d['init'])
                    if t[0] == 'param' and t[2] == idx:
                        out.add(('local', d['name'], d['id']))
    return out


def const_int(e, enums=None):
    e = ir.top_nocast(e)
    if e[0] == 'int':
        return e[1]
    if e[0] == 'zero':
        return 0
    if e[0] == 'enum' and enums is not None:
        return enums.get(e[1])
    if e[0] == 'un' and e[1] == '-':
        v = const_int(e[2], enums)
        return -v if v is not None else None
    return None


# --------------------------------------------------------------------------
# normalisation: aliases, single-definition locals, accessor inlining

def single_defs(fn):
    """{local id: init expr} for locals defined exactly once (their declaration)
    and never assigned, inc/dec'd or address-taken afterwards"""
    defs, bad = {}, set()
    for s in ir.stmts(fn['body']):
        if s['k'] == 'decl':
            for d in s['decls']:
                if d['init'] is not None and not d['static']:
                    defs[d['id']] = d['init']
                else:
                    bad.add(d['id'])
    for e, _ in ir.all_exprs(fn['body']):
        for x in ir.walk(e):
            if x[0] == 'assign':
                t = ir.top_nocast(x[2])
                if t[0] == 'local':
                    bad.add(t[2])
            elif x[0] == 'un' and x[1] in ('pre++', 'pre--', 'post++', 'post--', '&'):
                t = ir.top_nocast(x[2])
                if t[0] == 'local':
                    bad.add(t[2])
    return {k: v for k, v in defs.items() if k not in bad}


def accessor_body(P, name):
    """if `name` is a pure accessor — only alias declarations followed by a single
    `return expr` — return (fn, expr with aliases resolved to params), else None"""
    f = P.functions.get(name)
    if f is None:
        return None
    body = f['body']['body']
    if not body or body[-1]['k'] != 'return' or body[-1]['expr'] is None:
        return None
    # a public generic that happens to be written as one return (`return type_of(self) is String ? ... : method(...)`) is a dispatcher,
    # not an accessor: it stays a call
    if not f.get('static') and any(x[0] == 'cond' for x in ir.walk(body[-1]['expr'])):
        return None
    alias = {}
    for s in body[:-1]:
        if s['k'] != 'decl':
            return None
        for d in s['decls']:
            if d['init'] is None:
                return None
            t = ir.top_nocast(d['init'])
            if t[0] != 'param':
                return None
            alias[d['id']] = t
    ret = body[-1]['expr']
    # must be side-effect free
    for x in ir.walk(ret):
        if x[0] == 'assign' or (x[0] == 'un' and x[1] in ('pre++', 'pre--', 'post++', 'post--')):
            return None

    def f2(x):
        if x[0] == 'local' and x[2] in alias:
            return alias[x[2]]
        return x
    return f, ir.rebuild(ret, f2)


class Norm:
    """expression normaliser for one function"""

    def __init__(self, P, fn, expand_locals=False, inline=True, keep=()):
        self.P = P
        self.fn = fn
        self.defs = single_defs(fn)
        # parameters that are modified in the body (fmt++ ...): a local initialised from one is a snapshot, not an alias
        self.mut_params = set()
        for e, _ in ir.all_exprs(fn['body']):
            for x in ir.walk(e):
                if x[0] == 'un' and x[1] in ('pre++', 'pre--', 'post++', 'post--') and ir.top_nocast(x[2])[0] == 'param':
                    self.mut_params.add(ir.top_nocast(x[2])[2])
                elif x[0] == 'assign' and ir.top_nocast(x[2])[0] == 'param':
                    r = ir.top_nocast(x[3])
                    # `key = cast(key, T)` keeps the identity of the object; any other assignment changes the value
                    if not (r[0] == 'call' and ir.callee_name(r) == 'cast' and ir.top_nocast(r[2][0]) == ir.top_nocast(x[2])):
                        self.mut_params.add(ir.top_nocast(x[2])[2])
        self.expand_locals = expand_locals
        self.inline = inline
        self.keep = set(keep)       # accessor names not to inline

    def _alias(self, lid):
        d = self.defs.get(lid)
        if d is None:
            return None
        t = ir.top_nocast(d)
        if t[0] == 'param':
            return t if t[2] not in self.mut_params else None
        if t[0] == 'local':
            return self._alias(t[2]) or None
        return None

    def norm(self, e, depth=4):
        P = self.P

        def f(x):
            k = x[0]
            if k == 'local':
                if len(x) < 3:
                    return x
                a = self._alias(x[2])
                if a is not None:
                    return a
                if self.expand_locals and x[2] in self.defs and depth > 0:
                    return self.norm_raw(self.defs[x[2]], depth - 1)
                return x
            if k == 'call' and self.inline and depth > 0:
                nm = ir.callee_name(x)
                if nm and nm not in self.keep:
                    ab = accessor_body(P, nm)
                    if ab is not None:
                        cf, body = ab

                        def sub(y):
                            if y[0] == 'param' and 0 <= y[2] < len(x[2]):
                                return x[2][y[2]]
                            return y
                        inl = ir.rebuild(body, sub)
                        return Norm(P, cf, False, True, self.keep).inline_only(inl, depth - 1)
            return x
        return ir.rebuild(e, f)

    def norm_raw(self, e, depth):
        return self.norm(e, depth)

    def inline_only(self, e, depth):
        """inline accessor calls in an already-substituted expression (no local resolution)"""
        P = self.P

        def f(x):
            if x[0] == 'call' and depth > 0:
                nm = ir.callee_name(x)
                if nm and nm not in self.keep:
                    ab = accessor_body(P, nm)
                    if ab is not None:
                        cf, body = ab

                        def sub(y):
                            if y[0] == 'param' and 0 <= y[2] < len(x[2]):
                                return x[2][y[2]]
                            return y
                        return self.inline_only(ir.rebuild(body, sub), depth - 1)
            return x
        return ir.rebuild(e, f)

    def canon(self, e):
        return ir.canon(self.norm(e))


def unconditional_calls(e):
    """call expressions of e that are evaluated whenever e is evaluated (not inside an arm of ?: or the
    right operand of && / ||)"""
    out = []

    def visit(x, cond):
        if not ir.is_expr(x):
            return
        if x[0] == 'cond':
            visit(x[1], cond)
            visit(x[2], True)
            visit(x[3], True)
            return
        if x[0] == 'bin' and x[1] in ('&&', '||'):
            visit(x[2], cond)
            visit(x[3], True)
            return
        if x[0] == 'call' and not cond:
            out.append(x)
        for c in ir.children(x):
            visit(c, cond)
    visit(e, False)
    return out


def guided_exits(g, N, cut_edges=()):
    """exit nodes (ret / term / exit) reachable from the entry when (a) the given edges are never taken and
    (b) facts `v == 0` learnt from a branch on a local (`v`, `v != 0`, `v == 0`) are used to evaluate later
    conditions on the same local until it is reassigned. A small path-sensitive refinement of reach_from that
    removes the infeasible `fell out of the loop with v == NULL, then v != NULL` paths."""
    from . import loops
    cut_edges = set(cut_edges)
    exits = {}
    seen = set()
    stack = [(g.entry, frozenset())]
    while stack:
        u, facts = stack.pop()
        if (u, facts) in seen:
            continue
        seen.add((u, facts))
        n = g.nodes[u]
        if n['kind'] in ('ret', 'term', 'exit'):
            exits[u] = n
            if n['kind'] != 'ret':
                continue
        env = {v: 0 for v in facts}
        if n['expr'] is not None and n['kind'] != 'cond':
            for ev in expr_events(n['expr'], n):
                if ev['t'] == 'write':
                    l = N.canon(ev['lhs'])
                    if l in env:
                        facts = frozenset(f for f in facts if f != l)
        for (v, l) in n['succ']:
            if (u, l) in cut_edges:
                continue
            nf = facts
            if n['kind'] == 'cond':
                c = N.canon(n['expr'])
                try:
                    val = bool(loops.ev(c, env, unsigned=False)) if any(x in env for x in ir.walk(c)) else None
                except loops.NoEval:
                    val = None
                if val is not None and val != l:
                    continue
                # learn v == 0
                var = None
                if c[0] == 'local' and l is False:
                    var = c
                elif c[0] == 'bin' and c[1] in ('==', '!=') and ('int', 0) in (c[2], c[3]):
                    o = c[3] if c[2] == ('int', 0) else c[2]
                    if o[0] == 'local' and ((c[1] == '==' and l is True) or (c[1] == '!=' and l is False)):
                        var = o
                if var is not None:
                    nf = facts | {var}
            stack.append((v, nf))
    return list(exits.values())


def walk_eval(g, N, env, start=None, stop=None, max_steps=300, unsigned=True, concrete_idx=False):
    """follow the CFG deterministically from `start` (default entry) under a concrete environment for some atoms
    (canonical expressions -> ints): conditions must be evaluable, assignments to tracked atoms / locals are applied
    when evaluable (otherwise the target is forgotten). Stops at node id in `stop`, at a ret/term/exit, or when a
    condition cannot be evaluated. Returns (reason, node, env)."""
    from . import loops
    env = dict(env)
    node = g.nodes[g.entry if start is None else start]
    stop = set(stop or ())
    for _ in range(max_steps):
        if node['id'] in stop:
            return ('stop', node, env)
        k = node['kind']
        if k in ('ret', 'term', 'exit'):
            return (k, node, env)
        if k == 'cond':
            try:
                v = bool(loops.ev(N.canon(node['expr']), env, unsigned=unsigned))
            except loops.NoEval as e:
                return ('noeval', node, env)
            nxt = [w for (w, l) in node['succ'] if l == v]
            if not nxt:
                return ('noeval', node, env)
            node = g.nodes[nxt[0]]
            continue
        if node['expr'] is not None:
            for ev in expr_events(node['expr'], node):
                if ev['t'] != 'write':
                    continue
                l = N.canon(ev['lhs'])
                if concrete_idx and l[0] == 'idx':
                    try:
                        l = ('idx', l[1], ('int', loops.ev(l[2], env, unsigned=unsigned)))
                    except loops.NoEval:
                        pass
                if ev['op'] == '=' and ev['rhs'] is not None and N.canon(ev['lhs']) == N.canon(ev['rhs']):
                    continue      # the definition of a local the normaliser has expanded everywhere
                try:
                    if ev['op'] == '=':
                        env[l] = loops.ev(N.canon(ev['rhs']), env, unsigned=unsigned)
                    elif ev['op'] in ('++', '--'):
                        env[l] = env[l] + (1 if ev['op'] == '++' else -1)
                    elif ev['op'] in ('+=', '-='):
                        d = loops.ev(N.canon(ev['rhs']), env, unsigned=unsigned)
                        env[l] = env[l] + d if ev['op'] == '+=' else env[l] - d
                    else:
                        env.pop(l, None)
                except (loops.NoEval, KeyError):
                    env.pop(l, None)
        if not node['succ']:
            return ('end', node, env)
        node = g.nodes[node['succ'][0][0]]
    return ('steps', node, env)


def live_defs(g, local_id):
    """(node, rhs) of every assignment to the local that is still in the (pruned, constant-folded) CFG"""
    out = []
    for n in g.live():
        if n['expr'] is None:
            continue
        for ev in expr_events(n['expr'], n):
            if ev['t'] == 'write' and ir.top_nocast(ev['lhs'])[0] == 'local' and ir.top_nocast(ev['lhs'])[2] == local_id:
                out.append((n, ev['rhs'] if ev['op'] == '=' else None))
    return out


def resolve_callee(g, call, at_node):
    """callee of a call; a call through a local function pointer is resolved when exactly one live assignment to that local
    exists and it dominates the call (dead branches are already pruned from the CFG)"""
    c = ir.top_nocast(call[1])
    if c[0] == 'func':
        return c
    if c[0] == 'local' and len(c) > 2:
        defs = live_defs(g, c[2])
        if len(defs) == 1 and defs[0][1] is not None and g.must_pass(at_node['id'], [defs[0][0]['id']]):
            r = ir.top_nocast(defs[0][1])
            while r[0] == 'cond' and ir.top_nocast(r[1])[0] == 'int':
                r = ir.top_nocast(r[2] if ir.top_nocast(r[1])[1] else r[3])
            if r[0] == 'func':
                return r
    return c


def paths_under(g, N, env, enums=None, max_visits=1):
    """the complete CFG paths that are feasible when the atoms of `env` have the given values: a condition (or switch) that can be
    evaluated from `env` alone must have taken the matching edge; everything else is free"""
    from . import loops
    for path in g.paths(max_visits=max_visits):
        ok = True
        for (n, label) in path:
            if n['kind'] == 'cond':
                try:
                    v = bool(loops.ev(N.canon(n['expr']), dict(env), unsigned=False))
                except loops.NoEval:
                    continue
                if v != label:
                    ok = False
                    break
            elif n['kind'] == 'switch':
                try:
                    v = loops.ev(N.canon(n['expr']), dict(env), unsigned=False)
                except loops.NoEval:
                    continue
                cases = []
                for (w, l) in n['succ']:
                    if isinstance(l, tuple) and l[0] == 'case':
                        cases.append(const_int(l[1], enums))
                if isinstance(label, tuple) and label[0] == 'case':
                    if const_int(label[1], enums) != v:
                        ok = False
                        break
                elif v in cases:
                    ok = False
                    break
        if ok:
            yield path


NARROW_INT = {'char', 'signed char', 'unsigned char', 'short', 'unsigned short', 'int', 'unsigned int', 'uint8_t', 'uint16_t', 'uint32_t', 'int8_t', 'int16_t', 'int32_t'}
WIDE_INT = {'long', 'unsigned long', 'long long', 'unsigned long long', 'uint64_t', 'int64_t', 'size_t', 'uintptr_t', 'intptr_t'}


def narrowing_conversions(P, fn):
    """(line, target type, operand) of every conversion in fn that takes a 64-bit integer to a narrower integer type (implicit or a cast)"""
    from . import cint
    it = cint.CInt(P, fn)
    out = []
    for e, ln in ir.all_exprs(fn['body']):
        for x in ir.walk(e):
            if x[0] in ('icast', 'cast') and x[1] in NARROW_INT:
                try:
                    t = it.type_of(x[2])
                except Exception:
                    t = None
                if t in WIDE_INT:
                    out.append((ln, x[1], x[2]))
    return out


def format_sources(fn):
    """-> predicate(expr): the expression used as a format is a string literal, one of fn's own parameters, or a local that only ever
    receives literals, parameters, NULL or fresh storage (a copied specification) — never a value obtained from an object"""
    # fresh storage counts only in a function that was itself handed a format (print_to_with / scan_from_with copy one specification of it)
    has_fmt_param = any('char' in str(pt) and '*' in str(pt) for (_pn, pt) in fn['params'])
    ALLOC = ('malloc', 'calloc', 'realloc', 'alloca') if has_fmt_param else ()

    def clean(v):
        t = ir.top_nocast(v)
        if t[0] == 'cond':
            return clean(t[2]) and clean(t[3])
        return t[0] in ('str', 'param', 'int', 'initlist', 'zero') or (t[0] == 'call' and ir.callee_name(t) in ALLOC)
    good = {}
    for s_ in ir.stmts(fn['body']):
        if s_['k'] == 'decl':
            for d in s_['decls']:
                good[d['id']] = d.get('init') is None or clean(d['init'])
    for e_, _l in ir.all_exprs(fn['body']):
        for x in ir.walk(e_):
            if x[0] == 'assign' and x[1] == '=' and ir.top_nocast(x[2])[0] == 'local' and len(ir.top_nocast(x[2])) > 2:
                lid = ir.top_nocast(x[2])[2]
                if lid in good and not clean(x[3]):
                    good[lid] = False

    def ok(a):
        a = ir.top_nocast(a)
        if a[0] == 'cond':
            return ok(a[2]) and ok(a[3])
        return a[0] in ('str', 'param') or (a[0] == 'local' and len(a) > 2 and good.get(a[2], False))
    return ok
