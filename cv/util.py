"""Shared analysis helpers: path events, field writes, guards."""
from . import ir
from .front import AnalysisBroken


def expr_events(e, node):
    """evaluation-ordered events of one expression: calls and writes (post-order)."""
    out = []

    def visit(x):
        if not ir.is_expr(x):
            return
        k = x[0]
        if k == 'assign':
            visit(x[3])
            # evaluate sub-expressions of the lvalue (index, base) but not the lvalue itself
            for c in ir.children(x[2]):
                visit(c)
            out.append({'t': 'write', 'lhs': x[2], 'op': x[1], 'rhs': x[3], 'node': node})
            return
        if k == 'un' and x[1] in ('pre++', 'pre--', 'post++', 'post--'):
            for c in ir.children(x[2]):
                visit(c)
            out.append({'t': 'write', 'lhs': x[2], 'op': x[1][-2:], 'rhs': None, 'node': node})
            return
        for c in ir.children(x):
            visit(c)
        if k == 'call':
            out.append({'t': 'call', 'name': ir.callee_name(x), 'args': x[2], 'expr': x, 'node': node})
    visit(e)
    return out


def path_events(path):
    """events along a CFG path"""
    ev = []
    for (n, label) in path:
        k = n['kind']
        if k in ('stmt', 'ret', 'term') and n['expr'] is not None:
            ev.extend(expr_events(n['expr'], n))
        if k == 'cond':
            ev.extend(expr_events(n['expr'], n))
            ev.append({'t': 'cond', 'expr': n['expr'], 'val': label, 'node': n})
        elif k == 'switch':
            ev.extend(expr_events(n['expr'], n))
            ev.append({'t': 'switch', 'expr': n['expr'], 'val': label, 'node': n})
        elif k == 'ret':
            ev.append({'t': 'ret', 'expr': n['expr'], 'node': n})
        elif k == 'term':
            ev.append({'t': 'term', 'why': n['why'], 'node': n})
        elif k == 'exit':
            ev.append({'t': 'exit', 'node': n})
    return ev


def path_end(path):
    """('ret', expr) | ('term', why) | ('fall',) classification of a complete path"""
    last = path[-1][0]
    if last['kind'] == 'term':
        return ('term', last['why'], last)
    if last['kind'] == 'exit':
        if len(path) >= 2 and path[-2][0]['kind'] == 'ret':
            return ('ret', path[-2][0]['expr'], path[-2][0])
        return ('fall', None, last)
    return ('open', None, last)


def field_name(e):
    e = ir.top_nocast(e)
    if e[0] in ('arrow', 'dot'):
        return e[2]
    return None


def is_field(e, name, base=None):
    e = ir.top_nocast(e)
    if e[0] in ('arrow', 'dot') and e[2] == name:
        if base is None:
            return True
        return ir.top_nocast(e[1]) == base
    return False


def mentions(e, pred):
    return any(pred(x) for x in ir.walk(e))


def mentions_field(e, name):
    return mentions(e, lambda x: x[0] in ('arrow', 'dot') and x[2] == name)


def mentions_var(e, v):
    return mentions(e, lambda x: x == v)


def describe_path(cfg, path, maxn=40):
    out = []
    for (n, l) in path:
        if n['kind'] in ('entry', 'join', 'exit'):
            continue
        s = cfg.describe(n)
        if n['kind'] in ('cond', 'switch'):
            s += '  -> %s' % (l,)
        out.append(s)
    if len(out) > maxn:
        out = out[:maxn // 2] + ['...'] + out[-maxn // 2:]
    return out


def local_decl_types(fn):
    """{local id: desugared type} for a function"""
    out = {}
    for s in ir.stmts(fn['body']):
        if s['k'] == 'decl':
            for d in s['decls']:
                out[d['id']] = d['type']
    return out


def aliases_of_param(fn, idx):
    """locals initialised directly from parameter idx (struct X* t = self)"""
    out = set()
    for s in ir.stmts(fn['body']):
        if s['k'] == 'decl':
            for d in s['decls']:
                if d['init'] is not None:
                    t = ir.top_nocast(d['init'])
                    if t[0] == 'param' and t[2] == idx:
                        out.add(('local', d['name'], d['id']))
    return out


def const_int(e, enums=None):
    e = ir.top_nocast(e)
    if e[0] == 'int':
        return e[1]
    if e[0] == 'zero':
        return 0
    if e[0] == 'enum' and enums is not None:
        return enums.get(e[1])
    if e[0] == 'un' and e[1] == '-':
        v = const_int(e[2], enums)
        return -v if v is not None else None
    return None
