"""Evaluation of integer-only functions with exact C conversion semantics.

The IR keeps every implicit conversion clang inserted (`icast`), so comparisons between signed and unsigned operands,
truncating division and wrap-around are evaluated exactly as the compiled code would: each cast wraps the value into the
range of its target type, each arithmetic result is wrapped into the type the usual arithmetic conversions give it.

Used by rules that compare small arithmetic functions (index clamping, range arithmetic) with their closed form over a
finite grid of arguments.  Memory reads (fields, array elements) are *atoms*: looked up (by canonical expression) in a table
the rule supplies, and updated by assignments; calls are answered by a hook the rule supplies.  Nothing of the library runs.
"""
import re
from . import ir, util


class NoEval(Exception):
    pass


class Thrown(Exception):
    """a callee evaluated recursively raised a Cello exception"""
    def __init__(self, why):
        self.why = why


U64 = {'unsigned long', 'size_t', 'uint64_t', 'unsigned long long', 'uintptr_t', 'unsigned long int'}
S64 = {'long', 'int64_t', 'long long', 'ssize_t', 'ptrdiff_t', 'intptr_t', 'long int'}
S32 = {'int', 'int32_t'}
U32 = {'unsigned int', 'uint32_t', 'unsigned'}
BOOL = {'bool', '_Bool'}
U8 = {'unsigned char', 'uint8_t'}
S8 = {'char', 'signed char', 'int8_t'}
U16 = {'unsigned short', 'uint16_t'}
S16 = {'short', 'int16_t'}


def _strp(v):
    """a string literal as a pointer to its first character"""
    if isinstance(v, tuple) and len(v) == 2 and v[0] == 'str':
        return ('ep', ('strlit', v[1]), 0)
    return v


def pointee(t):
    """(element type, its size in bytes) of a pointer type, or (None, None)"""
    t = norm_type(t)
    if not t or not t.rstrip().endswith('*'):
        return None, None
    el = t.rstrip()[:-1].strip()
    if el.endswith('*'):
        return el, 8
    if el in U8 or el in S8 or el == 'void':
        return el, 1
    if el in U16 or el in S16:
        return el, 2
    if el in S32 or el in U32:
        return el, 4
    if el in U64 or el in S64 or el == 'var':
        return el, 8
    return el, None


def norm_type(t):
    if t is None:
        return None
    t = str(t).replace('const ', '').replace('volatile ', '').strip()
    return t


def wrap(v, t):
    t = norm_type(t)
    if not isinstance(v, int):
        return v
    if t in U64:
        return v % (1 << 64)
    if t in S64:
        v %= (1 << 64)
        return v - (1 << 64) if v >= (1 << 63) else v
    if t in S32:
        v %= (1 << 32)
        return v - (1 << 32) if v >= (1 << 31) else v
    if t in U32:
        return v % (1 << 32)
    if t in BOOL:
        return 1 if v else 0
    if t in U8:
        return v % 256
    if t in S8:
        v %= 256
        return v - 256 if v >= 128 else v
    if t in U16:
        return v % 65536
    if t in S16:
        v %= 65536
        return v - 65536 if v >= 32768 else v
    if t == 'float':
        # an integer-coded value forced through single precision keeps 24 significant bits
        import struct
        return int(struct.unpack('f', struct.pack('f', float(v)))[0])
    return v


def rank(t):
    t = norm_type(t)
    if t in U64:
        return 4
    if t in S64:
        return 3
    if t in U32:
        return 2
    return 1


def common(t1, t2):
    r = max(rank(t1), rank(t2))
    return {4: 'unsigned long', 3: 'long', 2: 'unsigned int', 1: 'int'}[r]


class CInt:
    def __init__(self, P, fn, atoms=None, call=None, N=None, max_steps=2000, recurse=False, depth=0, mem=None, memw=None, max_depth=4, strict=False):
        self.recurse, self.depth, self.max_depth = recurse, depth, max_depth
        self.strict = strict                 # a statement that cannot be evaluated stops the run (instead of being skipped, its targets forgotten)
        self.mem = mem                       # mem(address, interpreter) -> value of *address for integer addresses
        self.unknown = None                  # unknown(element key) -> value for a field the rule gave no value (see all_unknown)
        self.memw = memw                     # memw(address, value, width, interpreter): a store through an integer address
        self.P, self.fn = P, fn
        self.g = P.cfg(fn)
        self.N = N or util.Norm(P, fn, expand_locals=False, inline=False)
        self.atoms = dict(atoms or {})
        self.call = call
        self.locals = {}
        self.params = {}
        self.ltypes = {}
        self.statics = {}
        for n in self.g.live():
            d = n.get('decl')
            if d:
                self.ltypes[d['id']] = d.get('type')
                if d.get('static'):
                    self.statics[d['id']] = d['name']
        self.max_steps = max_steps
        self.trace = []

    # -- types ---------------------------------------------------------------------
    def type_of(self, e):
        k = e[0]
        if k in ('cast', 'icast'):
            return norm_type(e[1])
        if k == 'int':
            return 'int' if -(1 << 31) <= e[1] < (1 << 31) else 'long'
        if k == 'param':
            return norm_type(self.fn['params'][e[2]][1])
        if k == 'local':
            return norm_type(self.ltypes.get(e[2]))
        if k in ('arrow', 'dot'):
            return norm_type(e[3]) if len(e) > 3 else None
        if k == 'bin':
            if e[1] in ('<', '>', '<=', '>=', '==', '!=', '&&', '||'):
                return 'int'
            if e[1] in ('<<', '>>'):
                return self.type_of(e[2])
            return common(self.type_of(e[2]), self.type_of(e[3]))
        if k == 'un' and e[1] == '*':
            pe_ = pointee(self.type_of(e[2]) or '')
            return norm_type(pe_[0]) if pe_ and pe_[0] else None
        if k == 'un':
            if e[1] == '!':
                return 'int'
            return common(self.type_of(e[2]), 'int') if e[1] in ('-', '~', '+') else self.type_of(e[2])
        if k == 'cond':
            return common(self.type_of(e[2]), self.type_of(e[3]))
        if k == 'sizeof':
            return 'unsigned long'
        if k == 'idx' or (k == 'un' and e[1] == '*'):
            pt = self.type_of(e[1] if k == 'idx' else e[2])
            pe_ = pointee(pt) if pt else None
            return norm_type(pe_[0]) if pe_ and pe_[0] else None
        if k == 'call':
            nm = ir.callee_name(e)
            f = self.P.fn(nm, required=False) if nm else None
            if f and f.get('type'):
                return norm_type(f['type'].split('(')[0])
            return None
        return None

    def struct_info(self, t):
        """(size, {field: offset}) of `struct X` when every field is a word (pointers, size_t, ...), else None"""
        t = norm_type(t) or ''
        if not t.startswith('struct '):
            return None
        r = self.P.records.get(t[7:].strip())
        if not r:
            return None
        offs = {}
        for i, f in enumerate(r['fields']):
            ft = norm_type(f[1]) or ''
            if not (ft.endswith('*') or ft in U64 or ft in S64 or ft == 'var'):
                return None
            offs[f[0]] = 8 * i
        return 8 * len(r['fields']), offs

    def elem_size(self, ptr_t):
        el, sz = pointee(ptr_t)
        if sz is None and el:
            si = self.struct_info(el)
            if si:
                return el, si[0]
        return el, sz

    def ptr_type(self, e):
        t = self.type_of(e)
        return t if t and t.rstrip().endswith('*') else None

    # -- values ----------------------------------------------------------------------
    def atom_key(self, e):
        return ir.top_nocast(self.N.canon(e))

    def ev(self, e):
        k = e[0]
        if k in ('cast', 'call'):
            st = ir.as_stack(e)
            if st is not None and st[0] in ('Int', 'Float', 'Ref', 'Box', 'String'):
                # a boxed value on the stack: `$I(x)`, `$(Int, x)`, ... -> ('stack', type name, field values)
                return ('stack', st[0], tuple(self.ev(f) for f in st[1]))
        if k in ('cast', 'icast'):
            return wrap(self.ev(e[2]), e[1])
        if k == 'int':
            return e[1]
        if k == 'float':
            try:
                return float(e[1])
            except (TypeError, ValueError):
                raise NoEval('floating literal %r' % (e[1],))
        if k == 'offsetof':
            # (the front end does not carry which member is named: a rule that knows says so)
            if ('offsetof',) in self.atoms:
                return self.atoms[('offsetof',)]
            raise NoEval('offsetof')
        if k == 'zero':
            return 0
        if k == 'str':
            return ('str', e[1])
        if k == 'compound' and isinstance(e[1], str) and e[1].strip().startswith('struct ') and e[2] is not None and e[2][0] == 'initlist':
            # a struct value written as a compound literal: (struct T){a, b, c}
            return ('struct', e[1].strip(), tuple(self.ev(x) for x in e[2][1]))
        if k == 'enum':
            if e in self.atoms:
                return self.atoms[e]
            if e[1] in self.P.enums:
                return self.P.enums[e[1]]
            raise NoEval('enumerator %s' % e[1])
        if k == 'param':
            if e[2] in self.params:
                return self.params[e[2]]
            raise NoEval('parameter %s' % e[1])
        if k == 'local':
            if e[2] in self.locals:
                return self.locals[e[2]]
            if e[2] in self.statics and self.unknown is not None:
                # a static local keeps whatever earlier calls left in it
                v = self.unknown(('static', self.fn['name'], self.statics[e[2]]))
                self.locals[e[2]] = v
                return v
            key = self.atom_key(e)
            if key in self.atoms:
                return self.atoms[key]
            lt = self.ltypes.get(e[2]) or ''
            m_ = re.match(r'^(.*)\[(\d+)\]$', str(lt).strip())
            if m_:
                # a local array: its name is the address of its first element
                v = ('ep', ('local-array', self.fn['name'], e[1], id(self)), 0)
                self.locals[e[2]] = v
                return v
            raise NoEval('local %s has no value' % e[1])
        if k == 'un' and e[1] == '*':
            try:
                pv = self.ev(e[2])
            except NoEval:
                pv = None
            if isinstance(pv, tuple) and pv and pv[0] == 'lref':
                if pv[2] in pv[1].locals:
                    return pv[1].locals[pv[2]]
                raise NoEval('read through a pointer to a local that has no value yet')
        if k == 'dot' and ir.top_nocast(e[1])[0] == 'local':
            sv = self.locals.get(ir.top_nocast(e[1])[2])
            if isinstance(sv, tuple) and sv[:1] == ('struct',):
                r_ = self.P.records.get(sv[1][7:].strip())
                names_ = [f[0] for f in r_['fields']] if r_ else []
                if e[2] in names_:
                    return sv[2][names_.index(e[2])]
        if k in ('arrow', 'dot', 'idx') or (k == 'un' and e[1] == '*'):
            ep = self.elem_lvalue(e)
            if ep is not None:
                if ep in self.atoms:
                    return self.atoms[ep]
                if isinstance(ep[1], tuple) and ep[1][0] == 'strlit' and ep[3] is None:
                    # a character of a string literal (the terminator included)
                    bs = ep[1][1].encode('latin-1', 'replace') if isinstance(ep[1][1], str) else bytes(ep[1][1])
                    if 0 <= ep[2] < len(bs):
                        return bs[ep[2]] if bs[ep[2]] < 128 else bs[ep[2]] - 256
                    if ep[2] == len(bs):
                        return 0
                    raise NoEval('read outside a string literal')
                if ep[3] is None:
                    # a whole struct element read as a value: its fields
                    tn = str(self.type_of(e) or '').strip()
                    r_ = self.P.records.get(tn[7:].strip()) if tn.startswith('struct ') else None
                    if r_ and all(('elem', ep[1], ep[2], f[0]) in self.atoms for f in r_['fields']):
                        return ('struct', tn, tuple(self.atoms[('elem', ep[1], ep[2], f[0])] for f in r_['fields']))
                if self.unknown is not None:
                    v = self.unknown(ep)
                    self.atoms[ep] = v
                    return v
                raise NoEval('no value for element %r' % (ep,))
        if k in ('arrow', 'dot', 'idx', 'global') or (k == 'un' and e[1] == '*'):
            key = self.atom_key(e)
            if key[0] == 'idx':
                try:
                    key = ('idx', key[1], ('int', self.ev(e[2] if k == 'idx' else key[2])))
                except NoEval:
                    pass
            if key in self.atoms:
                return self.atoms[key]
            if self.mem is not None and k == 'arrow':
                a = self.ev(e[1])
                if isinstance(a, int):
                    si = self.struct_info(pointee(self.type_of(e[1]))[0])
                    if si and e[2] in si[1]:
                        self.mem_width = 8
                        return self.mem(a + si[1][e[2]], self)
            if self.mem is not None and k in ('un', 'idx'):
                pe = e[2] if k == 'un' else e[1]
                a = self.ev(pe)
                if isinstance(a, int):
                    el, sz = self.elem_size(self.type_of(pe))
                    if k == 'idx':
                        if sz is None:
                            raise NoEval('element size of %s unknown' % ir.fmt(pe))
                        a += self.ev(e[2]) * sz
                    self.mem_width = sz
                    v = self.mem(a, self)
                    return wrap(v, el) if isinstance(v, int) and el else v
            raise NoEval('no value for %s' % ir.fmt(key))
        if k == 'sizeof':
            key = ('sizeof', ir.fmt(e))
            if key in self.atoms:
                return self.atoms[key]
            if len(e) > 2 and isinstance(e[2], tuple) and ir.top_nocast(e[2])[0] == 'local':
                lt = str(self.ltypes.get(ir.top_nocast(e[2])[2]) or '').strip()
                m_ = re.match(r'^(.*)\[(\d+)\]$', lt)
                if m_:
                    esz = pointee(m_.group(1).strip() + ' *')[1]
                    if esz:
                        return int(m_.group(2)) * esz
            if 'struct Header' in ir.fmt(e):
                return 8 * len(self.P.records['Header']['fields']) if 'Header' in self.P.records else 24
            from .loops import ev as lev, NoEval as LNo
            try:
                return lev(e, {})
            except LNo as x:
                raise NoEval(str(x))
        if k == 'call':
            key = self.atom_key(e)
            if key in self.atoms:
                return self.atoms[key]
            if self.call is not None:
                try:
                    return self.call(ir.callee_name(e), e, self)
                except NoEval:
                    if not self.recurse:
                        raise
            if self.recurse and self.depth < self.max_depth and ir.callee_name(e):
                callee = self.P.fn(ir.callee_name(e), required=False)
                if callee is not None and callee.get('body') is not None:
                    args = [self.ev(a) for a in e[2]]
                    sub = CInt(self.P, callee, atoms=self.atoms, call=self.call, max_steps=self.max_steps, recurse=True, depth=self.depth + 1, mem=self.mem, memw=self.memw, max_depth=self.max_depth, strict=self.strict)
                    sub.atoms = self.atoms           # shared memory
                    sub.unknown = self.unknown
                    r = sub.run(args)
                    if r[0] == 'ret':
                        return r[1]
                    if r[0] == 'term':
                        raise Thrown(r[1])
                    raise NoEval('in %s: %s' % (callee['name'], r[1]))
            raise NoEval('call %s' % ir.fmt(e)[:40])
        if k == 'un':
            op = e[1]
            if op in ('pre++', 'pre--', 'post++', 'post--'):
                old = self.ev(e[2])
                if isinstance(old, tuple) and old[0] == 'ep':
                    new = ('ep', old[1], old[2] + (1 if '++' in op else -1))
                    self.store(e[2], new)
                    return new if op.startswith('pre') else old
                stepv = 1
                pt = self.ptr_type(e[2])
                if pt and isinstance(old, int):
                    sz = self.elem_size(pt)[1]
                    if sz is None:
                        raise NoEval('element size of %s unknown' % ir.fmt(e[2]))
                    stepv = sz                     # an integer address: ++ moves by one element
                new = wrap(old + (stepv if '++' in op else -stepv), self.type_of(e[2]))
                self.store(e[2], new)
                return new if op.startswith('pre') else old
            if op == '&':
                t = ir.top_nocast(e[2])
                if t[0] == 'idx':
                    b = self.ev(t[1])
                    if isinstance(b, tuple) and b[0] == 'ep':
                        return ('ep', b[1], b[2] + self.ev(t[2]))
                    if isinstance(b, int):
                        sz = pointee(self.type_of(t[1]))[1]
                        if sz is not None:
                            return b + self.ev(t[2]) * sz
                if t[0] == 'un' and t[1] == '*':
                    return self.ev(t[2])
                if t[0] == 'local':
                    return ('lref', self, t[2])          # the address of a local: read and written through by callees (out parameters)
                raise NoEval('address of %s' % ir.fmt(t)[:40])
            v = self.ev(e[2])
            if op == '!':
                return 0 if v else 1
            t = self.type_of(e)
            if op == '-':
                return wrap(-v, t)
            if op == '~':
                return wrap(~v, t)
            if op == '+':
                return v
            raise NoEval('unary %s' % op)
        if k == 'bin':
            op = e[1]
            if op == '&&':
                return 1 if (self.ev(e[2]) and self.ev(e[3])) else 0
            if op == '||':
                return 1 if (self.ev(e[2]) or self.ev(e[3])) else 0
            if op == ',':
                self.ev(e[2])
                return self.ev(e[3])
            a, b = self.ev(e[2]), self.ev(e[3])
            if isinstance(a, tuple) or isinstance(b, tuple):
                if op in ('+', '-', '<', '>', '<=', '>='):
                    a, b = _strp(a), _strp(b)       # a string literal is the address of its first character
                if op in ('+', '-') and isinstance(a, tuple) and a[0] == 'ep' and isinstance(b, int):
                    return ('ep', a[1], a[2] + (b if op == '+' else -b))
                if op == '+' and isinstance(b, tuple) and b[0] == 'ep' and isinstance(a, int):
                    return ('ep', b[1], b[2] + a)
                if op in ('==', '!='):
                    return int((a == b) == (op == '=='))
                if isinstance(a, tuple) and isinstance(b, tuple) and a[0] == 'ep' and b[0] == 'ep' and a[1] == b[1]:
                    # two pointers into the same array: difference and order of the indices
                    if op == '-':
                        return a[2] - b[2]
                    if op in ('<', '>', '<=', '>='):
                        return int({'<': a[2] < b[2], '>': a[2] > b[2], '<=': a[2] <= b[2], '>=': a[2] >= b[2]}[op])
                raise NoEval('%s on a pointer value' % op)
            if op in ('<', '>', '<=', '>=', '==', '!='):
                return int({'<': a < b, '>': a > b, '<=': a <= b, '>=': a >= b, '==': a == b, '!=': a != b}[op])
            if op in ('+', '-'):
                # integer addresses: pointer arithmetic counts elements
                ta, tb = self.ptr_type(e[2]), self.ptr_type(e[3])
                sa = self.elem_size(ta)[1] if ta else None
                sb = self.elem_size(tb)[1] if tb else None
                if ta and tb and op == '-':
                    if sa and sa > 1:
                        return (a - b) // sa
                    return a - b
                if ta and not tb:
                    if sa is None:
                        raise NoEval('element size of %s unknown' % ir.fmt(e[2]))
                    return a + (b if op == '+' else -b) * sa
                if tb and not ta and op == '+':
                    if sb is None:
                        raise NoEval('element size of %s unknown' % ir.fmt(e[3]))
                    return b + a * sb
            t = self.type_of(e)
            if op == '+':
                return wrap(a + b, t)
            if op == '-':
                return wrap(a - b, t)
            if op == '*':
                return wrap(a * b, t)
            if op in ('/', '%'):
                if b == 0:
                    raise NoEval('division by zero')
                q = abs(a) // abs(b)
                if (a < 0) != (b < 0):
                    q = -q
                return wrap(q if op == '/' else a - q * b, t)
            if op == '&':
                return wrap(a & b, t)
            if op == '|':
                return wrap(a | b, t)
            if op == '^':
                return wrap(a ^ b, t)
            if op == '<<':
                return wrap(a << b, t)
            if op == '>>':
                return wrap(a >> b, t)
            raise NoEval('binary %s' % op)
        if k == 'cond':
            return self.ev(e[2]) if self.ev(e[1]) else self.ev(e[3])
        if k == 'assign':
            op = e[1]
            lt_ = ir.top_nocast(e[2])
            if op == '=' and e[3][0] == 'initlist' and lt_[0] == 'local' and str(self.ltypes.get(lt_[2]) or '').startswith('struct '):
                # a struct local initialised from a brace list: missing fields are zero
                tn = str(self.ltypes[lt_[2]]).strip()
                r_ = self.P.records.get(tn[7:].strip())
                if r_ is None:
                    raise NoEval('struct %s' % tn)
                vals_ = [self.ev(x) for x in e[3][1]] + [0] * (len(r_['fields']) - len(e[3][1]))
                v = ('struct', tn, tuple(vals_))
                self.locals[lt_[2]] = v
                return v
            if op == '=' and e[3][0] == 'initlist' and lt_[0] == 'local' and re.match(r'^(.*)\[(\d*)\]$', str(self.ltypes.get(lt_[2]) or '').strip()):
                # a local array initialised from a brace list: the remaining elements are zero
                m_ = re.match(r'^(.*)\[(\d*)\]$', str(self.ltypes[lt_[2]]).strip())
                n_ = int(m_.group(2)) if m_.group(2) else len(e[3][1])
                base = ('ep', ('local-array', self.fn['name'], lt_[1], id(self)), 0)
                self.locals[lt_[2]] = base
                for i_ in range(n_):
                    self.atoms[('elem', base[1], i_, None)] = wrap(self.ev(e[3][1][i_]), m_.group(1).strip()) if i_ < len(e[3][1]) else 0
                return base
            if op == '=' and lt_[0] == 'dot' and ir.top_nocast(lt_[1])[0] == 'local' and isinstance(self.locals.get(ir.top_nocast(lt_[1])[2]), tuple) and \
                    self.locals[ir.top_nocast(lt_[1])[2]][:1] == ('struct',):
                # a field of a struct local
                sv = self.locals[ir.top_nocast(lt_[1])[2]]
                r_ = self.P.records.get(sv[1][7:].strip())
                names_ = [f[0] for f in r_['fields']]
                v = wrap(self.ev(e[3]), self.type_of(e[2]))
                vals_ = list(sv[2])
                vals_[names_.index(lt_[2])] = v
                self.locals[ir.top_nocast(lt_[1])[2]] = ('struct', sv[1], tuple(vals_))
                return v
            if op == '=':
                v = self.ev(e[3])
            else:
                cur = self.ev(e[2])
                r = self.ev(e[3])
                bop = op[:-1]
                v = self.ev(('bin', bop, ('cast', self.type_of(e[2]), ('int', cur)), ('cast', self.type_of(e[3]) or 'long', ('int', r))))
            v = wrap(v, self.type_of(e[2]))
            self.store(e[2], v)
            return v
        raise NoEval('expression %s' % ir.fmt(e)[:50])

    def elem_lvalue(self, e):
        """('elem', array, index, field|None) when e designates (a field of) an element reached through an element pointer
        value ('ep', array, index): p->f, p[i].f, (*p).f, p[i], *p"""
        e = ir.top_nocast(e)
        try:
            if e[0] == 'arrow':
                b = self.ev(e[1])
                if isinstance(b, tuple) and b[0] == 'ep':
                    return ('elem', b[1], b[2], e[2])
            elif e[0] == 'dot':
                inner = self.elem_lvalue(e[1])
                if inner is not None and inner[3] is None:
                    return ('elem', inner[1], inner[2], e[2])
            elif e[0] == 'idx':
                b = _strp(self.ev(e[1]))
                if isinstance(b, tuple) and b[0] == 'ep':
                    return ('elem', b[1], b[2] + self.ev(e[2]), None)
            elif e[0] == 'un' and e[1] == '*':
                b = _strp(self.ev(e[2]))
                if isinstance(b, tuple) and b[0] == 'ep':
                    return ('elem', b[1], b[2], None)
        except NoEval:
            return None
        return None

    def _int_address(self, t):
        pe = t[2] if t[0] == 'un' else t[1]
        try:
            a = self.ev(pe)
        except NoEval:
            return None
        if not isinstance(a, int):
            return None
        if t[0] == 'arrow':
            si = self.struct_info(pointee(self.type_of(pe))[0])
            if si and t[2] in si[1]:
                return a + si[1][t[2]], None, 8
            return None
        el, sz = self.elem_size(self.type_of(pe))
        if t[0] == 'idx':
            if sz is None:
                return None
            a += self.ev(t[2]) * sz
        return a, el, sz

    def store(self, lhs, v):
        t = ir.top_nocast(lhs)
        ep = self.elem_lvalue(t) if t[0] in ('arrow', 'dot', 'idx', 'un') else None
        if ep is not None:
            if isinstance(v, tuple) and v and v[0] == 'struct' and ep[3] is None:
                # a whole struct stored into an element: field by field
                r = self.P.records.get(v[1][7:].strip())
                if r and len(r['fields']) >= len(v[2]):
                    for i, f in enumerate(r['fields']):
                        self.atoms[('elem', ep[1], ep[2], f[0])] = v[2][i] if i < len(v[2]) else 0
                    return
            self.atoms[ep] = v
            return
        if t[0] == 'un' and t[1] == '*':
            try:
                pv = self.ev(t[2])
            except NoEval:
                pv = None
            if isinstance(pv, tuple) and pv and pv[0] == 'lref':
                pv[1].locals[pv[2]] = v
                return
        if t[0] == 'local':
            self.locals[t[2]] = v
        elif t[0] == 'param':
            self.params[t[2]] = v
        elif self.memw is not None and ((t[0] == 'un' and t[1] == '*') or t[0] in ('idx', 'arrow')) and self._int_address(t) is not None:
            a, el, sz = self._int_address(t)
            self.memw(a, wrap(v, el) if isinstance(v, int) and el else v, sz, self)
        else:
            key = self.atom_key(t)
            if key[0] == 'idx':
                try:
                    key = ('idx', key[1], ('int', self.ev(t[2])))
                except NoEval:
                    pass
            self.atoms[key] = v

    # -- control ---------------------------------------------------------------------------
    def run(self, params):
        """returns ('ret', value-or-None, node) | ('term', why, node) | ('stuck', reason, node)"""
        self.params = dict(enumerate(params))
        g = self.g
        node = g.nodes[g.entry]
        for _ in range(self.max_steps):
            k = node['kind']
            try:
                if k == 'ret':
                    if node['expr'] is None:
                        return ('ret', None, node)
                    try:
                        return ('ret', self.ev(node['expr']), node)
                    except NoEval:
                        return ('ret', ('object', self.atom_key(node['expr'])), node)
                if k == 'term':
                    return ('term', node['why'], node)
                if k == 'exit':
                    return ('ret', None, node)
                if k == 'cond':
                    v = bool(self.ev(node['expr']))
                    node = g.nodes[[w for (w, l) in node['succ'] if l == v][0]]
                    continue
                if k == 'switch':
                    v = self.ev(node['expr'])
                    nxt = None
                    for (w, l) in node['succ']:
                        if isinstance(l, tuple) and l[0] == 'case':
                            try:
                                lv = self.ev(l[1])
                            except NoEval:
                                continue
                            if lv == v:
                                nxt = w
                    if nxt is None:
                        nxt = [w for (w, l) in node['succ'] if l in ('default', 'nomatch')][0]
                    node = g.nodes[nxt]
                    continue
                if node.get('decl') and node['decl'].get('static') and self.unknown is not None:
                    pass            # the initialiser of a static local ran once, long ago: its current value is whatever earlier calls left
                elif node['expr'] is not None:
                    try:
                        self.ev(node['expr'])
                    except NoEval:
                        if self.strict:
                            raise
                        # a statement the rule gave no meaning to: forget what it assigns
                        for ev_ in util.expr_events(node['expr'], node):
                            if ev_['t'] == 'write':
                                t = ir.top_nocast(ev_['lhs'])
                                if t[0] == 'local':
                                    self.locals.pop(t[2], None)
                                else:
                                    self.atoms.pop(self.atom_key(t), None)
            except Thrown as t:
                return ('term', t.why, node)
            except NoEval as x:
                return ('stuck', str(x), node)
            if not node['succ']:
                return ('ret', None, node)
            node = g.nodes[node['succ'][0][0]]
        return ('stuck', 'step bound', node)


def all_unknown(build, values=(0, 1 << 20), limit=32):
    """Fields the rule's model knows nothing about (a field added to a record, say) are read as *any* value: build(oracle) is run for
    every assignment of `values` to the keys the evaluation asks the oracle for.  Returns [(assignment, result of build)]."""
    results = []
    pending = [dict()]
    while pending and len(results) < limit:
        assign = pending.pop()

        def oracle(key, assign=assign):
            if key not in assign:
                for v in values[1:]:
                    alt = dict(assign)
                    alt[key] = v
                    pending.append(alt)
                assign[key] = values[0]
            return assign[key]
        res = build(oracle)
        results.append((dict(assign), res))
    return results
