"""C12 — a failed operation raises the documented exception and changes nothing.

Decided (default, checked configuration):
  C12.validate-before-mutate  NOPRE: in every container/String operation (and the
      static helpers it calls) no mutation of state reachable from `self`
      precedes, on any CFG path, a contract-error raise point.
  C12.documented-exception    TABLE: each operation raises the exception kind the
      API documents for its failure, and no other contract kind.
  C12.dispatcher-checks       DOM: NULL / magic / class / member / allocation-class
      tests dominate the reads and the free they protect.
"""
from . import ir, util
from .effects import Effects
from .report import site
from .front import AnalysisBroken

UNITS = ['src/Array.c', 'src/List.c', 'src/Tuple.c', 'src/Table.c', 'src/Tree.c', 'src/String.c',
         'src/Type.c', 'src/Alloc.c', 'src/Exception.c', 'src/Iter.c']
CONTRACT = {'IndexOutOfBoundsError', 'KeyError', 'ValueError', 'TypeError', 'FormatError',
            'ResourceError', 'ClassError'}
VALIDATORS = {'cast', 'c_int', 'c_float', 'c_str'}
TYPES = ['Array', 'List', 'Tuple', 'Table', 'Tree', 'String', 'Range', 'Slice']
SLOTS = [('Get', 'get'), ('Get', 'set'), ('Get', 'mem'), ('Get', 'rem'),
         ('Push', 'push'), ('Push', 'pop'), ('Push', 'push_at'), ('Push', 'pop_at'),
         ('Resize', 'resize'), ('Concat', 'concat'), ('Concat', 'append')]


class Raise:
    def __init__(self, P):
        self.P = P
        self._r = {}
        self._busy = set()

    def validated(self, name):
        """indices of `name`'s parameters that it validates (cast/c_int/... directly
        or by handing them to a same-unit helper that does)"""
        f = self.P.functions.get(name)
        if f is None:
            return set()
        key = ('v', f['unit'], f['name'])
        if key in self._r:
            return self._r[key]
        if key in self._busy:
            return set()
        self._busy.add(key)
        out = set()
        for c, ln in ir.all_calls(f['body']):
            nm = ir.callee_name(c)
            if nm in VALIDATORS and c[2] and ir.top_nocast(c[2][0])[0] == 'param':
                out.add(ir.top_nocast(c[2][0])[2])
            elif nm in self.P.functions and self.P.functions[nm]['unit'] == f['unit'] and nm != name:
                for i in self.validated(nm):
                    if i < len(c[2]) and ir.top_nocast(c[2][i])[0] == 'param':
                        out.add(ir.top_nocast(c[2][i])[2])
        self._busy.discard(key)
        self._r[key] = out
        return out

    def kinds(self, name):
        """contract exception kinds `name` may raise itself or through same-unit helpers,
        plus 'validator' when it validates one of its own parameters"""
        f = self.P.functions.get(name)
        if f is None:
            return set()
        key = (f['unit'], f['name'])
        if key in self._r:
            return self._r[key]
        if key in self._busy:
            return set()
        self._busy.add(key)
        out = set()
        g = self.P.cfg(f)
        for n in g.live():
            if n['kind'] == 'term' and n['why'][0] == 'throw' and n['why'][1] in CONTRACT:
                out.add(n['why'][1])
            if n['expr'] is None:
                continue
            for c in ir.calls(n['expr']):
                nm = ir.callee_name(c)
                if nm in VALIDATORS and c[2] and ir.top_nocast(c[2][0])[0] == 'param':
                    out.add('validator')
                elif nm in self.P.functions and self.P.functions[nm]['unit'] == f['unit'] and nm != name:
                    out |= self.kinds(nm)
        self._busy.discard(key)
        self._r[key] = out
        return out


def nopre(P, E, R, fn, self_idx, ctx, rule, key):
    """no self-mutation before a raise point on any path of fn"""
    g = P.cfg(fn)
    ctx.fn(fn)
    E.local_env(fn)
    muts, raises = [], []
    seen_valid = []
    for n in g.live():
        if n['kind'] == 'term' and n['why'][0] == 'throw' and n['why'][1] in CONTRACT:
            raises.append((n, 10 ** 6, 'throw(%s)' % n['why'][1], None))
        if n['expr'] is None:
            continue
        for i, ev in enumerate(util.expr_events(n['expr'], n)):
            m = E.event_mutation(fn, ev)
            is_m = m is not None and ('param', self_idx) in m['roots']
            is_r = False
            if ev['t'] == 'call':
                nm = ev['name']
                if nm in VALIDATORS and ev['args'] and ir.top_nocast(ev['args'][0])[0] == 'param' \
                        and ir.top_nocast(ev['args'][0])[2] != self_idx:
                    is_r = True
                    what = '%s' % ir.fmt(ev['expr'])
                    ck = ir.canon(ev['expr'])
                elif nm in P.functions and P.functions[nm]['unit'] == fn['unit'] and R.kinds(nm):
                    ks = set(R.kinds(nm))
                    if 'validator' in ks:
                        # the helper's validation can fail only on values that come from outside the
                        # object: arguments rooted in the caller's non-self parameters
                        ext = False
                        for vi in R.validated(nm):
                            if vi < len(ev['args']):
                                rr = E.param_roots(fn, ev['args'][vi])
                                if any(t == 'unknown' or (isinstance(t, tuple) and t[0] == 'param' and t[1] != self_idx) for t in rr):
                                    ext = True
                        if not ext:
                            ks.discard('validator')
                    if ks:
                        is_r = True
                        what = 'call %s (may raise %s)' % (nm, '/'.join(sorted(ks)))
                        ck = None
            if is_m and is_r:
                # one helper call that validates and mutates: checked as its own instance
                muts.append((n, i, m['what'], ev))
                raises.append((n, i, what, ev))
                continue
            if is_m:
                muts.append((n, i, m['what'], ev))
            if is_r:
                raises.append((n, i, what, ev) if ck is None else (n, i, what, ev, ck))
    # drop validators that repeat an identical, dominating, earlier validation
    kept = []
    for r in raises:
        if len(r) == 5:
            n, i, what, ev, ck = r
            dup = False
            for r2 in raises:
                if len(r2) == 5 and r2 is not r and r2[4] == ck:
                    n2, i2 = r2[0], r2[1]
                    if (n2 is n and i2 < i) or (n2 is not n and g.must_pass(n['id'], [n2['id']])):
                        dup = True
                        break
            if dup:
                continue
        kept.append(r)
    bad = None
    for (mn, mi, mwhat, mev) in muts:
        reach = None
        for r in kept:
            rn, ri, rwhat, rev = r[0], r[1], r[2], r[3]
            if rev is not None and rev is mev:
                continue
            if rn is mn:
                if mi < ri:
                    bad = (mn, mwhat, rn, rwhat)
                    break
                # same node later iteration: only if the node is on a cycle
                continue
            if reach is None:
                reach = g.reach_from(mn['id'])
            if rn['id'] in reach:
                bad = (mn, mwhat, rn, rwhat)
                break
        if bad:
            break
    ctx.stats['call_sites'] += len(muts) + len(kept)
    s = site(fn)
    if bad:
        mn, mwhat, rn, rwhat = bad
        ctx.refuted(rule, key, s,
                    'state reachable from the operated object is mutated before the operation can still fail',
                    ['mutation  %s:%s  %s' % (fn['file'], mn['line'], mwhat),
                     'then raise %s:%s  %s' % (fn['file'], rn['line'], rwhat)])
    else:
        ctx.proved(rule, key, s, 'no mutation of self-reachable state precedes any of the %d raise points (%d mutation sites)' % (len(kept), len(muts)))


def check_nopre(P, ctx):
    rule = 'C12.validate-before-mutate'
    E = Effects(P)
    R = Raise(P)
    done = set()
    work = []
    for T in TYPES:
        for (C, m) in SLOTS:
            f = P.slot(T, C, m, required=False)
            if f:
                work.append((f, 0, '%s.%s.%s' % (T, C, m)))
    while work:
        fname, sidx, why = work.pop(0)
        if (fname, sidx) in done:
            continue
        done.add((fname, sidx))
        fn = P.fn(fname)
        nopre(P, E, R, fn, sidx, ctx, rule, fname)
        # helpers that both validate and mutate are instances too
        for c, ln in ir.all_calls(fn['body']):
            nm = ir.callee_name(c)
            h = P.functions.get(nm)
            if h is None or h['unit'] != fn['unit'] or nm == fname:
                continue
            if not R.kinds(nm):
                continue
            mp = E.mutated_params(nm, fn['unit'])
            selfs = {('param', fn['params'][sidx][0], sidx)} | util.aliases_of_param(fn, sidx)
            for i in mp:
                if i < len(c[2]) and ir.top_nocast(c[2][i]) in selfs:
                    work.append((nm, i, 'helper of ' + fname))
    ctx.floor(rule, 45)


# expected contract exception kinds per slot: must = at least one reachable throw of
# each kind (in the function or its same-unit helpers); may = further allowed kinds.
IDX = 'IndexOutOfBoundsError'
EXPECT = {
    ('Array', 'Get', 'get'): ({IDX}, set()),
    ('Array', 'Get', 'set'): ({IDX}, set()),
    ('Array', 'Get', 'rem'): ({'ValueError'}, {IDX}),
    ('Array', 'Push', 'pop'): ({IDX}, set()),
    ('Array', 'Push', 'pop_at'): ({IDX}, set()),
    ('Array', 'Push', 'push_at'): ({IDX}, set()),
    ('List', 'Get', 'get'): ({IDX}, set()),
    ('List', 'Get', 'set'): ({IDX}, set()),
    ('List', 'Get', 'rem'): ({'ValueError'}, set()),
    ('List', 'Push', 'pop'): ({IDX}, set()),
    ('List', 'Push', 'pop_at'): ({IDX}, set()),
    ('List', 'Push', 'push_at'): ({IDX}, set()),
    ('Tuple', 'Get', 'get'): ({IDX}, set()),
    ('Tuple', 'Get', 'set'): ({IDX}, set()),
    ('Tuple', 'Get', 'rem'): ({'ValueError'}, {IDX}),
    ('Tuple', 'Push', 'push'): ({'ValueError'}, set()),
    ('Tuple', 'Push', 'pop'): ({IDX, 'ValueError'}, set()),
    ('Tuple', 'Push', 'pop_at'): ({IDX, 'ValueError'}, set()),
    ('Tuple', 'Push', 'push_at'): ({IDX, 'ValueError'}, set()),
    ('Tuple', 'Resize', 'resize'): ({'FormatError', 'ValueError'}, set()),
    ('Tuple', 'Concat', 'concat'): ({'ValueError'}, set()),
    ('Table', 'Get', 'get'): ({'KeyError'}, set()),
    ('Table', 'Get', 'rem'): ({'KeyError'}, set()),
    ('Table', 'Resize', 'resize'): ({'FormatError'}, set()),
    ('Tree', 'Get', 'get'): ({'KeyError'}, set()),
    ('Tree', 'Get', 'rem'): ({'KeyError'}, set()),
    ('Tree', 'Resize', 'resize'): ({'FormatError'}, set()),
    ('String', 'Resize', 'resize'): ({'ValueError'}, set()),
    ('String', 'Concat', 'concat'): ({'ValueError'}, set()),
}


def check_documented(P, ctx):
    rule = 'C12.documented-exception'
    R = Raise(P)
    for (T, C, m), (must, may) in sorted(EXPECT.items()):
        fname = P.slot(T, C, m)
        fn = P.fn(fname)
        ctx.fn(fn)
        kinds = R.kinds(fname) - {'validator'}
        missing = must - kinds
        extra = kinds - must - may
        key = '%s.%s.%s' % (T, C, m)
        if missing:
            ctx.refuted(rule, key + ':raises', site(fn),
                        'the failure of %s(%s) must be reported as %s; no such raise is reachable in %s or its helpers (siblings raise it)' %
                        (m, T, '/'.join(sorted(missing)), fname),
                        ['reachable contract raises: %s' % (sorted(kinds) or 'none')])
        else:
            ctx.proved(rule, key + ':raises', site(fn), 'raises %s' % '/'.join(sorted(must)))
        if extra:
            ctx.refuted(rule, key + ':kind', site(fn), 'raises undocumented kind(s) %s for this operation' % sorted(extra))
        else:
            ctx.proved(rule, key + ':kind', site(fn), 'raises no other contract kind')
    # missing element: when the scan finds no equal element (every hit test false) the
    # only exits are throw(ValueError)
    for T in ('Array', 'List', 'Tuple'):
        fname = P.slot(T, 'Get', 'rem')
        fn = P.fn(fname)
        g = P.cfg(fn)
        hits = [n for n in g.live() if n['kind'] == 'cond' and
                any(ir.callee_name(c) == 'eq' for c in ir.calls(n['expr']))]
        key = '%s.Get.rem:miss' % T
        if T in ('Array', 'List'):
            # decided by evaluation on small instances (seqmodel): rem of an absent element raises ValueError with the container unchanged
            from . import seqmodel
            badv, badr, unsup_, _n = seqmodel.list_ops(P, T)['rem']
            if unsup_ and not badr:
                ctx.undecided(rule, key, site(fn), 'rem leaves the evaluated fragment: ' + unsup_)
            else:
                ctx.check(badr is None, rule, key, site(fn), 'rem of an element that is not present raises ValueError (evaluated on containers of 0..3 elements)', [badr] if badr else None)
            continue
        if len(hits) != 1:
            ctx.undecided(rule, key, site(fn), 'expected exactly one equality hit test in %s, found %d' % (fname, len(hits)))
            continue
        reach = g.reach_from(g.entry, cut_edges=[(hits[0]['id'], True)])
        exits = [g.nodes[i] for i in reach if g.nodes[i]['kind'] in ('term', 'ret') or
                 (g.nodes[i]['kind'] == 'exit')]
        bad = [n for n in exits if not (n['kind'] == 'term' and n['why'] == ('throw', 'ValueError'))]
        good = [n for n in exits if n['kind'] == 'term' and n['why'] == ('throw', 'ValueError')]
        if bad or not good:
            b = bad[0] if bad else None
            ctx.refuted(rule, key, site(fn, b['line'] if b else None),
                        'rem of an element that is not present must raise ValueError (Array and List do); '
                        'here the no-hit path leaves %s normally' % fname,
                        ['no-hit exit: %s' % (g.describe(b) if b else 'none')])
        else:
            ctx.proved(rule, key, site(fn), 'every no-hit exit is throw(ValueError)')
    # too few format arguments -> FormatError (print_to_with) is C14.too-few-arguments
    ctx.floor(rule, 61)


def throw_only(g, start_id):
    """every path from start ends in a throw terminator"""
    reach = g.reach_from(start_id)
    for i in reach:
        n = g.nodes[i]
        if n['kind'] in ('ret', 'exit'):
            return False
        if n['kind'] == 'term' and n['why'][0] != 'throw':
            return False
    return True


def guards_of(g, pred, N=None):
    """[(cond node, bad_polarity)] for cond nodes where pred(canon expr) gives the
    polarity under which the operation must refuse. N: optional normaliser (aliases / locals expanded)."""
    out = []
    for n in g.live():
        if n['kind'] != 'cond':
            continue
        p = pred(N.canon(n['expr']) if N is not None else ir.canon(n['expr']), n)
        if p is not None:
            out.append((n, p))
    return out


def succ_of(n, label):
    for (v, l) in n['succ']:
        if l == label:
            return v
    return None


def dominated_by_guard(g, action_id, guards, want_kind=None):
    """action is reachable only through the good branch of at least one guard whose
    bad branch ends in throw (of want_kind if given)."""
    for (n, bad) in guards:
        sb = succ_of(n, bad)
        if sb is None or not throw_only(g, sb):
            continue
        if want_kind is not None:
            kinds = {g.nodes[i]['why'][1] for i in g.reach_from(sb) if g.nodes[i]['kind'] == 'term'}
            if kinds != {want_kind}:
                continue
        if g.must_pass(action_id, through_edges=[(n['id'], (not bad))]) and \
                action_id not in g.reach_from(sb):
            return n
    return None


class Refuted(Exception):
    pass


def check_dispatcher(P, ctx):
    rule = 'C12.dispatcher-checks'
    # ---- Type_Of
    f = P.fn('Type_Of')
    g = P.cfg(f)
    ctx.fn(f)
    selfp = ('param', 0)
    null_guards = guards_of(g, lambda c, n: True if c == ('bin', '==', ('int', 0), selfp) else
                            (False if c == ('bin', '!=', ('int', 0), selfp) else None))
    # header reads: any node mentioning ->magic or ->type
    reads = [n for n in g.live() if n['expr'] is not None and
             (util.mentions_field(n['expr'], 'magic') or util.mentions_field(n['expr'], 'type'))]
    ok = bool(reads) and all(dominated_by_guard(g, n['id'], null_guards, 'ValueError') is not None for n in reads)
    ctx.check(ok, rule, 'Type_Of:null', site(f), 'a NULL object raises ValueError before its header is read (%d header reads)' % len(reads))
    rets = [n for n in g.live() if n['kind'] == 'ret']
    magic = ('int', P.enums.get('CELLO_MAGIC_NUM', 0xCe110))

    def magic_pred(c, n):
        if c[0] == 'bin' and c[1] in ('!=', '==') and any(x[0] in ('arrow', 'dot') and x[2] == 'magic' for x in ir.walk(c)):
            consts = [x for x in ir.walk(c) if x[0] == 'int']
            if ('int', 0xCe110) in consts:
                return c[1] == '!='
        return None
    mg = guards_of(g, magic_pred)
    ok = bool(rets) and all(dominated_by_guard(g, n['id'], mg, 'ValueError') is not None for n in rets)
    ctx.check(ok, rule, 'Type_Of:magic', site(f), 'an object whose magic number is not CELLO_MAGIC_NUM raises ValueError before a type is returned')
    # ---- Type_Method_At_Offset: evaluated (cint) for every combination of {class absent, present} x {member empty, set} x offsets
    f = P.fn('Type_Method_At_Offset')
    ctx.fn(f)
    from . import cint
    INST = 50000
    bad = {'class': None, 'member': None}
    unsup = None
    ncase = 0
    for offset in (0, 8, 24):
        for inst in (0, INST):
            for member in (0, 777):
                def call(nm, e, it, inst=inst):
                    if nm in ('Type_Instance', 'Type_Scan', 'type_instance'):
                        return inst
                    raise cint.NoEval('call %s' % nm)

                def mem(a, it, inst=inst, offset=offset, member=member):
                    if inst == 0:
                        raise Refuted('reads through the instance although the type does not have the class')
                    if a == inst + offset:
                        return member
                    if inst <= a < inst + 64:
                        return 777 if member == 0 else 0          # every other member says the opposite
                    raise Refuted('reads a word outside the instance')
                def build(oracle, call=call, mem=mem):
                    it = cint.CInt(P, f, atoms={('global', 'NULL'): 0}, call=call, mem=mem, recurse=True)
                    it.unknown = oracle      # static locals hold whatever earlier lookups left there: the type, the class, an instance, nothing
                    try:
                        return it.run([7000, 7100, offset, 7200])
                    except Refuted as x:
                        return ('refuted', str(x), None)
                runs = cint.all_unknown(build, values=(0, 7000, 7100, INST), limit=300)
                ncase += len(runs)
                which = 'class' if inst == 0 else 'member'
                worst = None
                for assign, r in runs:
                    if r[0] == 'stuck':
                        worst = worst or (assign, r)
                        continue
                    good_ = (r[0] == 'term' and r[1] == ('throw', 'ClassError')) if (inst == 0 or member == 0) else (r[0] == 'ret' and r[1] == inst)
                    if not good_:
                        worst = (assign, r)
                        break
                assign, r = worst if worst else runs[0]
                prior = ''.join(', static %s = %s' % (k_[2], v_) for k_, v_ in assign.items()) if worst else ''
                if r[0] == 'stuck':
                    unsup = '%s at %s' % (r[1], P.cfg(f).describe(r[2]))
                    continue
                if inst == 0 or member == 0:
                    good = r[0] == 'term' and r[1] == ('throw', 'ClassError')
                else:
                    good = r[0] == 'ret' and r[1] == inst
                if not good and bad[which] is None:
                    got = 'raises %s' % (r[1][1] if isinstance(r[1], tuple) else r[1]) if r[0] == 'term' else ('returns %s' % (r[1],) if r[0] == 'ret' else r[1])
                    bad[which] = 'class %s, member at offset %d %s%s: %s' % ('absent' if inst == 0 else 'present', offset, 'empty' if member == 0 else 'set', prior, got)
    ctx.stats['paths'] += ncase
    if unsup:
        ctx.undecided(rule, 'Type_Method_At_Offset:shape', site(f), 'the lookup leaves the evaluated fragment: ' + unsup)
    else:
        ctx.check(bad['class'] is None, rule, 'Type_Method_At_Offset:class', site(f), 'a type without the class raises ClassError before the instance is used or returned',
                  [bad['class']] if bad['class'] else None)
        ctx.check(bad['member'] is None, rule, 'Type_Method_At_Offset:member', site(f), 'an empty member (read at the requested offset) raises ClassError before the instance is returned',
                  [bad['member']] if bad['member'] else None)
    # method() macro goes through method_at_offset -> Type_Method_At_Offset(Type_Of(self))
    for wrapper, inner in (('method_at_offset', 'Type_Method_At_Offset'), ('type_method_at_offset', 'Type_Method_At_Offset')):
        f = P.fn(wrapper)
        g = P.cfg(f)
        rets = [n for n in g.live() if n['kind'] == 'ret']
        ok = len(rets) == 1 and ir.top_nocast(rets[0]['expr'])[0] == 'call' and ir.callee_name(ir.top_nocast(rets[0]['expr'])) == inner
        if ok and wrapper == 'method_at_offset':
            a0 = ir.top_nocast(ir.top_nocast(rets[0]['expr'])[2][0])
            ok = a0[0] == 'call' and ir.callee_name(a0) == 'Type_Of'
        ctx.check(ok, rule, wrapper + ':delegates', site(f), 'the lookup used by the method macros is the checked one')
    # ---- cast
    f = P.fn('cast')
    g = P.cfg(f)
    ctx.fn(f)
    rets = [n for n in g.live() if n['kind'] == 'ret' and ir.top_nocast(n['expr']) == ('param', 'self', 0)]

    def type_pred(c, n):
        if c[0] == 'bin' and c[1] in ('==', '!='):
            sides = {repr(c[2]), repr(c[3])}
            want = {repr(ir.canon(('call', ('func', 'type_of'), (('param', 'self', 0),)))), repr(('param', 1))}
            if sides == want:
                return c[1] == '=='   # polarity under which returning self is *allowed*
        return None
    tg = guards_of(g, type_pred)
    ok = len(rets) == 1 and len(tg) == 1
    if ok:
        n, allow = tg[0]
        other = succ_of(n, not allow)
        ok = g.must_pass(rets[0]['id'], through_edges=[(n['id'], allow)]) and throw_only(g, other) and \
            {g.nodes[i]['why'][1] for i in g.reach_from(other) if g.nodes[i]['kind'] == 'term'} == {'ValueError'}
    ctx.check(ok, rule, 'cast:type-test', site(f), 'cast returns the object only when type_of(self) is the requested type, otherwise raises ValueError')
    # ---- dealloc
    f = P.fn('dealloc')
    g = P.cfg(f)
    ctx.fn(f)
    frees = [n for (n, c) in g.nodes_calling('free')]
    null_guards = guards_of(g, lambda c, n: True if c == ('bin', '==', ('int', 0), selfp) else None)
    ok = bool(frees) and all(dominated_by_guard(g, n['id'], null_guards, 'ResourceError') is not None for n in frees)
    ctx.check(ok, rule, 'dealloc:null', site(f), 'dealloc(NULL) raises ResourceError before free')
    for cls in ('AllocStatic', 'AllocStack', 'AllocData'):
        def pred(c, n, cls=cls):
            if c[0] == 'bin' and c[1] in ('==', '!=') and any(x == ('enum', cls) for x in ir.walk(c)) and \
                    any(x[0] in ('arrow', 'dot') and x[2] == 'alloc' for x in ir.walk(c)) and \
                    any(x[0] == 'call' and ir.callee_name(x) == 'header' and ir.top_nocast(x[2][0])[:1] == ('param',) for x in ir.walk(c)):
                return c[1] == '=='
            return None
        ag = guards_of(g, pred, util.Norm(P, f, expand_locals=True, inline=False))
        ok = bool(frees) and all(dominated_by_guard(g, n['id'], ag, 'ResourceError') is not None for n in frees)
        ctx.check(ok, rule, 'dealloc:' + cls, site(f), 'an object of allocation class %s raises ResourceError before free' % cls)
    ctx.floor(rule, 11)


def check_typed_kv(P, ctx):
    """Table / Tree: a key or value supplied by the caller is stored (assign / byte copy) only after it went
    through cast(x, container's key/value type) — a wrong-typed key or value must raise, not be stored"""
    rule = 'C12.typed-key-value'
    for T in ('Table', 'Tree'):
        entry = P.slot(T, 'Get', 'set')
        seen = set()
        work = [(entry, {1: 'ktype', 2: 'vtype'})]
        bad = []
        nsites = 0
        while work:
            fname, raw = work.pop()
            if (fname, tuple(sorted(raw.items()))) in seen:
                continue
            seen.add((fname, tuple(sorted(raw.items()))))
            fn = P.fn(fname)
            g = P.cfg(fn)
            ctx.fn(fn)
            N = util.Norm(P, fn, inline=False)
            casts = {}
            for n in g.live():
                e = ir.top_nocast(n['expr']) if n['expr'] is not None else None
                if e is None or e[0] != 'assign':
                    continue
                l, r = ir.top_nocast(e[2]), ir.top_nocast(e[3])
                if l[0] == 'param' and l[2] in raw and r[0] == 'call' and ir.callee_name(r) == 'cast' and ir.top_nocast(r[2][0]) == l:
                    t = N.canon(r[2][1])
                    if t == ('arrow', ('param', 0), raw[l[2]]):
                        casts.setdefault(l[2], []).append(n)
            for n in g.live():
                if n['expr'] is None:
                    continue
                for c in ir.calls(n['expr']):
                    nm = ir.callee_name(c)
                    for j, a in enumerate(c[2]):
                        a = ir.top_nocast(a)
                        if a[0] != 'param' or a[2] not in raw:
                            continue
                        validated = a[2] in casts and g.must_pass(n['id'], [x['id'] for x in casts[a[2]]])
                        if nm == 'cast' and j == 0:
                            continue
                        if nm in ('assign', 'memcpy', 'memmove') and j == 1 or (nm in ('memcpy', 'memmove') and j == 1):
                            nsites += 1
                            if not validated:
                                bad.append((fn, n, '%s stores the caller\'s %s without the type check' % (nm, 'key' if raw[a[2]] == 'ktype' else 'value')))
                        elif nm in P.functions and P.functions[nm]['unit'] == fn['unit'] and not validated:
                            if nm in ('Table_Mem', 'Table_Get', 'Tree_Mem', 'Tree_Get', 'Table_Rem', 'Tree_Rem'):
                                continue    # lookups validate the key themselves (C12.validate-before-mutate) and store nothing
                            work.append((nm, {j: raw[a[2]]}))
                    # pointer arithmetic on a raw parameter (byte-wise move) counts as a store source too
                    if nm in ('memcpy', 'memmove') and len(c[2]) > 1:
                        src = c[2][1]
                        for x in ir.walk(src):
                            if x[0] == 'param' and len(x) > 2 and x[2] in raw and ir.top_nocast(src) != x:
                                nsites += 1
                                if not (x[2] in casts and g.must_pass(n['id'], [y['id'] for y in casts[x[2]]])):
                                    bad.append((fn, n, 'byte copy out of the caller\'s %s without the type check' % ('key' if raw[x[2]] == 'ktype' else 'value')))
        key = '%s.Get.set' % T
        if bad:
            f0, n0, why = bad[0]
            ctx.refuted(rule, key, site(f0, n0['line']), 'on the way from %s a key/value reaches storage unchecked: %s' % (entry, why), ['site: %s' % P.cfg(f0).describe(n0)])
        else:
            ctx.proved(rule, key, site(P.fn(entry)), 'every store of the caller\'s key or value (%d sites, through %d functions) is dominated by cast to the container\'s key/value type' % (nsites, len(seen)))
    ctx.floor(rule, 2)


def check_table_resize_refusal(P, ctx):
    """resize(table, n) with 0 < n < len(table) cannot be honoured (the entries do not fit the request): it is refused with
    FormatError before anything is rehashed, for every such n — evaluated for counts 1..6 and requests 1..8 with Table_Ideal_Size
    taken as some size >= the request (which is all a caller may assume)."""
    from . import cint
    rule = 'C12.resize-refusal'
    fn = P.fn(P.slot('Table', 'Resize', 'resize'))
    ctx.fn(fn)
    bad = None
    n_eval = 0
    for nitems in range(1, 7):
        for n in range(1, 9):
            for slack in (0, 3):
                state = {'rehashed': False}

                def call(nm, e, it, slack=slack, state=state):
                    if nm == 'Table_Ideal_Size':
                        return it.ev(e[2][0]) * 2 + slack + 1
                    if nm in ('Table_Rehash', 'Table_Clear'):
                        state['rehashed'] = True
                        return 0
                    raise cint.NoEval('call %s' % nm)
                it = cint.CInt(P, fn, atoms={('arrow', ('param', 0), 'nitems'): nitems}, call=call)
                r = it.run([6001, n])
                n_eval += 1
                refused = r[0] == 'term' and r[1][0] == 'throw'
                if r[0] == 'stuck':
                    bad = 'table of %d entries, resize to %d: %s' % (nitems, n, r[1])
                    break
                if n < nitems and (not refused or state['rehashed']):
                    bad = 'table of %d entries, resize to %d: %s' % (nitems, n, 'the table is rehashed before the refusal' if refused else 'not refused')
                    break
                if n >= nitems and refused:
                    bad = 'table of %d entries, resize to %d is refused although the entries fit' % (nitems, n)
                    break
            if bad:
                break
        if bad:
            break
    ctx.stats['paths'] += n_eval
    ctx.check(bad is None, rule, 'Table_Resize', site(fn), 'a resize below the number of entries raises FormatError before any rehash; one that fits is honoured (%d evaluations)' % n_eval,
              [bad] if bad else None)
    ctx.floor(rule, 1)


KNOWN_RECORD_FIELDS = {     # the fields the node-based containers have today; any further pointer field is a cache of some node
    'Tree': {'root', 'ktype', 'vtype', 'ksize', 'vsize', 'nitems'},
    'List': {'type', 'head', 'tail', 'tsize', 'nitems'},
}


def check_node_caches(P, ctx):
    """A pointer to a node kept in the container record (a `last found` cache, say) dangles once that node is freed: every
    release of a node must, after the last assignment of the variable it frees, either clear each such field or test the field
    against that very node.  With no such field (today) the obligation is vacuous."""
    rule = 'C12.no-dangling-node-cache'
    for T, unit, frees in (('Tree', 'src/Tree.c', ('free',)), ('List', 'src/List.c', ('free', 'List_Free'))):
        rec = P.records.get(T)
        extra = [f for f in (rec['fields'] if rec else []) if f[0] not in KNOWN_RECORD_FIELDS[T] and ('*' in str(f[1]) or str(f[1]) in ('var',))]
        bad = None
        nfree = 0
        for fname, fn in sorted(P.units[unit]['functions'].items()):
            if fn.get('body') is None or not extra:
                continue
            g = P.cfg(fn)
            N = util.Norm(P, fn)
            for (fr_n, fr_c) in [(n, c) for nm in frees for (n, c) in g.nodes_calling(nm)]:
                x = ir.top_nocast(fr_c[2][-1])
                if fname in frees:
                    continue
                xs = [y for y in ir.walk(x) if y[0] == 'local']
                if not xs:
                    continue
                xv = xs[0]
                nfree += 1
                writers = [n['id'] for n in g.live() if n['expr'] is not None and any(
                    ev['t'] == 'write' and ir.top_nocast(ev['lhs']) == xv for ev in util.expr_events(n['expr'], n))]
                for (fld, _ft) in [(f[0], f[1]) for f in extra]:
                    F = ('arrow', ('param', 0), fld)
                    guards = []
                    for n in g.live():
                        if n['expr'] is None:
                            continue
                        if n['kind'] == 'cond':
                            c = N.canon(n['expr'])
                            if c[0] == 'bin' and c[1] in ('==', '!=') and F in (c[2], c[3]) and ('local', xv[1]) in (c[2], c[3]):
                                guards.append(n['id'])
                        for ev in util.expr_events(n['expr'], n):
                            if ev['t'] == 'write' and N.canon(ev['lhs']) == F and ev['rhs'] is not None and ir.is_null(ev['rhs']) and n['kind'] != 'cond':
                                # an unconditional clear counts; a clear under the comparison is reached through the guard node
                                if not any(g.must_pass(n['id'], [gd]) for gd in guards):
                                    guards.append(n['id'])
                    starts = [g.entry] + writers
                    for w in starts:
                        nxt = [v for v, _ in g.nodes[w]['succ']]
                        if any(fr_n['id'] in g.reach_from(v, cut_nodes=guards + [i for i in writers if i != w]) or v == fr_n['id'] for v in nxt):
                            if w == g.entry and writers and all(g.must_pass(fr_n['id'], writers) for _ in [0]):
                                continue
                            bad = bad or ('%s frees `%s` at %s; between the last assignment of `%s` (%s) and the release the cached pointer `%s` is neither cleared nor '
                                          'compared with it' % (fname, xv[1], g.describe(fr_n), xv[1], g.describe(g.nodes[w]) if w != g.entry else 'function entry', fld))
        ctx.check(bad is None, rule, T, P.units[unit]['path'] if 'path' in P.units[unit] else unit,
                  'no node pointer cached in the %s record survives the release of that node (%s)' % (
                      T, 'cache fields: %s; %d release sites' % ([f[0] for f in extra], nfree) if extra else 'the record holds no node pointer besides its structural links'),
                  [bad] if bad else None)
    ctx.floor(rule, 2)


class CtorMismatch(Exception):
    pass


def check_refused_constructor(P, ctx):
    """a constructor that refuses its arguments leaves an object that is already registered with the collector: the destructor will run on
    it.  Table's constructor evaluated (cint) on a zeroed object with an odd number of arguments — FormatError —, then the destructor on
    what it left: it must not walk slots that were never allocated."""
    from . import cint
    rule = 'C12.refused-constructor'
    newf, delf = P.slot('Table', 'New', 'construct_with'), P.slot('Table', 'New', 'destruct')
    fn, fd = P.fn(newf), P.fn(delf)
    ctx.fn(fn)
    ctx.fn(fd)
    bad, unsup = None, None
    for nargs in (3, 5):
        atoms = {('global', 'NULL'): 0, ('global', 'Terminal'): 7777}
        for f in P.records['Table']['fields']:
            atoms[('elem', 'self', 0, f[0])] = 0

        def call(nm, e, it, nargs=nargs):
            if nm == 'cast':
                return it.ev(e[2][0])
            if nm == 'get' and it.ev(e[2][0]) == 9400:
                k = it.ev(e[2][1])
                k = k[2][0] if isinstance(k, tuple) and k[0] == 'stack' else k
                return 8500 + k if isinstance(k, int) and k < 2 else 7000 + (k if isinstance(k, int) else 0)
            if nm == 'size':
                return 8
            if nm == 'Table_Ideal_Size':
                return 5          # the smallest table (the global prime table is not part of this evaluation)
            if nm == 'len' and it.ev(e[2][0]) == 9400:
                return nargs
            if nm in ('calloc', 'malloc'):
                return 900000 + 10000 * len([1 for k_ in it.atoms if k_ == 'x'])
            if nm == 'free':
                return 0
            if nm == 'destruct':
                raise CtorMismatch('destructs a key or value of a table that was never filled')
            raise cint.NoEval('call %s' % nm)

        def mem(a, it):
            if isinstance(a, int) and a < 4096:
                raise CtorMismatch('reads slot storage through a NULL store (address %d): the slot count says there are slots, the store was never allocated' % a)
            return 0
        it = cint.CInt(P, fn, atoms=atoms, call=call, recurse=True, mem=mem, strict=True, max_steps=3000)
        it.atoms = atoms
        try:
            r = it.run([('ep', 'self', 0), 9400])
        except CtorMismatch as x:
            bad = bad or 'constructor with %d arguments: %s' % (nargs, x)
            continue
        if r[0] == 'stuck':
            unsup = unsup or 'constructor with %d arguments: %s' % (nargs, r[1])
            continue
        if not (r[0] == 'term' and r[1] == ('throw', 'FormatError')):
            bad = bad or 'constructor with %d arguments (not key/value pairs) does not raise FormatError' % nargs
            continue
        it2 = cint.CInt(P, fd, atoms=atoms, call=call, recurse=True, mem=mem, strict=True, max_steps=3000)
        it2.atoms = atoms
        try:
            r2 = it2.run([('ep', 'self', 0)])
        except CtorMismatch as x:
            bad = bad or 'after the constructor refused %d arguments, the destructor %s' % (nargs, x)
            continue
        if r2[0] == 'stuck':
            unsup = unsup or 'destructor after a refused constructor: %s' % (r2[1],)
        elif r2[0] != 'ret':
            bad = bad or 'after the constructor refused %d arguments, the destructor does not return' % nargs
    if unsup and not bad:
        ctx.undecided(rule, newf, site(fn), 'leaves the evaluated fragment: ' + unsup)
    else:
        ctx.check(bad is None, rule, newf, site(fn), 'a Table constructor that refuses its arguments leaves an object the destructor can take (no slot count without a store)', [bad] if bad else None)
    ctx.floor(rule, 1)


def run(ctx, load):
    P = load(UNITS, 'default')
    ctx.stats['units'] = set(UNITS)
    ctx.stats['configs'] = ['default']
    check_nopre(P, ctx)
    check_documented(P, ctx)
    check_dispatcher(P, ctx)
    check_typed_kv(P, ctx)
    # out-of-range indices are refused (shared with C04.index-idiom: the analyser evaluates the index arithmetic)
    from .rules_c04 import check_index
    before = len(ctx.obs)
    check_index(P, ctx)
    for o in ctx.obs[before:]:
        o['rule'] = 'C12.index-refusal'
    ctx.floors.pop(('C04.index-idiom', ctx.config), None)
    ctx.floor('C12.index-refusal', 12)
    # a resize / concat / push the object cannot honour (it is not on the heap) is refused before anything is changed
    from .rules_c16 import check_refusal_covers_mutation
    check_refusal_covers_mutation(P, ctx, 'src/String.c', 'val', 'C12.refusal-first', 'String')
    check_refusal_covers_mutation(P, ctx, 'src/Tuple.c', 'items', 'C12.refusal-first', 'Tuple')
    ctx.floor('C12.refusal-first', 14)
    check_table_resize_refusal(P, ctx)
    check_refused_constructor(P, ctx)
    # an index outside a Slice is refused even when the underlying container has an element there (shared with C11)
    from . import rules_c11
    Pi = load(None, 'default')
    ctx.config = 'default'
    ctx.borrow('C12.slice-index-refusal', 1, lambda: rules_c11.check_slice_get_keeps_position(Pi, ctx))
    check_node_caches(P, ctx)
    # a missing key, at every size including a table whose slots were released (shared with C02 / C03, decided by evaluation there)
    from . import rules_c02, rules_c03
    def _miss():
        fr = rules_c02.check_probe(P, ctx)
        rules_c02.check_miss(P, ctx, fr)
        rules_c03.check_miss_and_counts(P, ctx)
    ctx.borrow('C12.missing-key', 6, _miss, only=lambda o: o['rule'] in ('C02.miss-raises', 'C03.miss-raises'))
    # an unimplemented class or member raises ClassError, never a call through an empty slot (shared with C08)
    from .rules_c08 import check_vtable_calls, WITNESS as W8
    P8 = load(None, 'default', [W8])
    ctx.config = 'default'
    ctx.borrow('C12.no-unguarded-member-call', 20, lambda: check_vtable_calls(P8, ctx))
    from . import seqmodel
    seqmodel.report_list_ops(P, ctx, 'C12.refused-list-operation', 'refused', site)
    ctx.floor('C12.refused-list-operation', 6)
    seqmodel.report_list_ops(P, ctx, 'C12.refused-array-operation', 'refused', site, T='Array')
    ctx.floor('C12.refused-array-operation', 6)


EXPLANATION = (
    'Decided for the default (checked) configuration: (a) validate-before-mutate — for every function in the Get/Push/Resize/'
    'Concat slots of Array, List, Tuple, Table, Tree and String and every same-unit helper that both validates and mutates, no '
    'CFG path has a store/free/realloc/memmove/destruct/assign/helper-mutation of state whose address derives from `self` before '
    'a contract-error raise point (throw of Index/Key/Value/Type/Format/Resource/ClassError, cast/c_int/c_str of an argument, or a '
    'raising helper); pointer origins are computed by a roots analysis that knows allocators, accessors and field types; '
    '(b) documented exception kinds per operation (sibling table); (c) dominance of the NULL/magic/class/member/allocation-class '
    'tests in type_of, the method lookup, cast and dealloc. Not decided: absence of memory errors in general; failures raised '
    'inside user callbacks or by operations on the *other* operand (assign/len/iteration of obj); partial application of '
    'multi-element operations; CELLO_NDEBUG builds (checks compiled out by design).')
