"""C08 — type-class dispatch returns exactly what the type declares."""
from . import ir, util, poly
from .effects import Effects
from .report import site
from .front import AnalysisBroken
from .rules_c12 import guards_of, dominated_by_guard, throw_only, succ_of, check_dispatcher

WITNESS = '/verif/witness/macros.c'


def check_cache(P, ctx):
    """The method cache is transparent: for every class, whatever earlier lookups left in the cache words of the type record, the
    dispatcher answers what the scan answers.  Type_Instance is evaluated (cint) over the record's cache words as integer memory, with
    Type_Scan answering a distinct token per class: (A) empty cache — the answer is the scan's, and at most one word is written, a cache
    word of this configuration, holding that answer; (B) every cached class filled in by (A) — every class still gets its own answer;
    (C) all but the queried class filled — likewise; a class without a cache entry is answered by the scan and writes nothing."""
    from . import cint
    rule = 'C08.cache-wiring'
    fn = P.fn('Type_Instance')
    ctx.fn(fn)
    hw = len(P.records['Header']['fields'])
    wt = P.types.get('WObj')
    cache_num = None
    if wt:
        hdr = wt['header']
        cache_num = hdr.index(('str', '__Name')) - 1 - hw if ('str', '__Name') in hdr else None
    if cache_num is None:
        ctx.undecided(rule, 'layout', 'include/Cello.h', 'cannot locate the cache words of a static object')
        return None
    names = sorted({x[1] for e, _ in ir.all_exprs(fn['body']) for x in ir.walk(e) if x[0] == 'global' and x[1] not in ('NULL', 'Terminal')})
    TOK = {c: 8000 + k for k, c in enumerate(names)}
    TOK['(a class without an entry)'] = 8999
    SCANV = {t: 9000 + (t - 8000) for t in TOK.values()}
    BASE = 300000
    NW = max(cache_num, 0) + 12

    def run(cls_tok, words):
        mem = dict(words)
        writes = []
        scans = []

        def rd(a, it):
            if not (BASE <= a < BASE + 8 * NW) or (a - BASE) % 8:
                raise cint.NoEval('read outside the head of the type record')
            return mem.get(a, 0)

        def wr(a, v, w, it):
            if not (BASE <= a < BASE + 8 * NW) or (a - BASE) % 8:
                raise cint.NoEval('write outside the head of the type record')
            mem[a] = v
            writes.append(((a - BASE) // 8, v))

        def call(nm, e, it):
            if nm == 'Type_Scan':
                c = it.ev(e[2][1])
                scans.append((it.ev(e[2][0]), c))
                return SCANV.get(c, 1)
            raise cint.NoEval('call %s' % nm)
        atoms = {('global', 'NULL'): 0}
        for c, t in TOK.items():
            atoms[('global', c)] = t
        it = cint.CInt(P, fn, atoms=atoms, call=call, mem=rd, memw=wr, recurse=True, max_steps=4000)
        r = it.run([BASE, cls_tok])
        return r, writes, scans
    slot = {}
    verdict = {}
    unsup = None
    for c, t in TOK.items():
        r, writes, scans = run(t, {})
        if r[0] == 'stuck':
            unsup = unsup or '%s: %s' % (c, r[1])
            continue
        msg = None
        if not (r[0] == 'ret' and r[1] == SCANV[t]):
            msg = 'empty cache: answers %s, the scan answers %s' % (r[1], SCANV[t])
        elif any(s_ != (BASE, t) for s_ in scans):
            msg = 'the scan is asked about %s' % (scans,)
        elif len(writes) > 1 or any(not (0 <= i < cache_num) or v != SCANV[t] for i, v in writes):
            msg = 'empty cache: writes %s (word index, value); the record reserves %d cache words and the answer is %s' % (writes, cache_num, SCANV[t])
        if writes and not msg:
            slot[c] = writes[0][0]
        verdict[c] = msg
    full = {BASE + 8 * i: SCANV[TOK[c]] for c, i in slot.items()}
    for c, t in TOK.items():
        if verdict.get(c) or c not in verdict:
            continue
        for label, words in (('every cached class filled in', full), ('every other cached class filled in', {a: v for a, v in full.items() if c not in slot or a != BASE + 8 * slot[c]})):
            r, writes, scans = run(t, words)
            if r[0] == 'stuck':
                unsup = unsup or '%s: %s' % (c, r[1])
            elif not (r[0] == 'ret' and r[1] == SCANV[t]):
                verdict[c] = verdict[c] or '%s: answers %s, the scan answers %s' % (label, r[1], SCANV[t])
            elif any(v != SCANV[t] or not 0 <= i < cache_num for i, v in writes):
                verdict[c] = verdict[c] or '%s: writes %s' % (label, writes)
    if unsup and not any(verdict.values()):
        ctx.undecided(rule, 'evaluation', site(fn), 'Type_Instance leaves the evaluated fragment: ' + unsup)
        return cache_num
    cached = [c for c in names if c in slot]
    for c in names:
        if c not in slot and not verdict.get(c):
            continue           # a global the function mentions that is not a cached class (answered by the scan; covered by fall-through)
        ctx.check(not verdict.get(c), rule, 'entry:' + c, site(fn),
                  'the cache entry for class %s reads and fills one slot index below CELLO_CACHE_NUM with Type_Scan(self, %s) and returns it (empty, full and partly filled cache evaluated)' % (c, c),
                  [verdict[c]] if verdict.get(c) else None)
    dup = {}
    for c, i in slot.items():
        dup.setdefault(i, []).append(c)
    dup = {i: cs for i, cs in dup.items() if len(cs) > 1}
    ctx.check(not dup, rule, 'distinct', site(fn), 'no two classes share a cache slot', ['shared slots: %s' % dup] if dup else None)
    ctx.check(len(cached) <= cache_num, rule, 'count', site(fn), 'the cache entries (%d) fit the cache words a type record reserves (%d)' % (len(cached), cache_num))
    other = '(a class without an entry)'
    ctx.check(not verdict.get(other) and other not in slot, rule, 'fall-through', site(fn), 'a class without a cache entry is answered by Type_Scan(self, cls) and leaves the record alone',
              [verdict.get(other) or 'writes cache word %s' % slot.get(other)] if (verdict.get(other) or other in slot) else None)
    ctx.floor(rule, 3 + (18 if cache_num else 0))
    return cache_num


def check_state(P, ctx):
    """dispatch answers are functions of (type record, class) only: the lookup functions keep no other mutable state"""
    rule = 'C08.writers'
    E = Effects(P)
    allowed = {  # function -> description of the only stores it may make into the type record / object header
        'Type_Instance': 'cache slot <- scan result', 'Type_Scan': 'triple.cls <- cls on a name match', 'Type_Of': 'static header type <- Type'}
    for fname in ('Type_Instance', 'Type_Scan', 'Type_Of', 'Type_Implements', 'Type_Method_At_Offset', 'Type_Implements_Method_At_Offset',
                  'type_of', 'instance', 'implements', 'type_instance', 'type_implements', 'method_at_offset', 'type_method_at_offset',
                  'implements_method_at_offset', 'type_implements_method_at_offset', 'cast'):
        fn = P.fn(fname)
        ctx.fn(fn)
        E.local_env(fn)
        bad = None
        nst = 0
        for s_ in ir.stmts(fn['body']):
            if s_['k'] == 'decl':
                for d in s_['decls']:
                    if d['static']:
                        bad = bad or (s_['line'], 'static local `%s` keeps state between lookups' % d['name'])
        for e, ln in ir.all_exprs(fn['body']):
            for ev in util.expr_events(e, None):
                if ev['t'] != 'write':
                    continue
                lhs = ir.top_nocast(ev['lhs'])
                if lhs[0] in ('local', 'param'):
                    # static locals are caught above; writes to file-scope state:
                    continue
                if lhs[0] == 'global':
                    bad = bad or (ln, 'store to file-scope variable `%s`' % lhs[1])
                    continue
                roots = E.param_roots(fn, lhs[1] if lhs[0] in ('arrow', 'dot', 'idx') else lhs[2] if lhs[0] == 'un' else lhs)
                nst += 1
                if any(isinstance(r, tuple) and r[0] == 'global' for r in roots):
                    bad = bad or (ln, 'store through file-scope state: %s' % ir.fmt(lhs))
                elif fname not in allowed:
                    bad = bad or (ln, 'store `%s` in a lookup function that should be read-only' % ir.fmt(lhs))
                elif not roots or not all(r == ('param', 0) for r in roots):
                    bad = bad or (ln, 'store `%s` is not into the queried type record / object header' % ir.fmt(lhs))
        if bad:
            ctx.refuted(rule, fname, site(fn, bad[0]), 'a lookup must depend on the type record and the class only, whatever was looked up before and from whichever thread: ' + bad[1])
        else:
            ctx.proved(rule, fname, site(fn), 'no state besides %s (%d stores)' % (allowed.get(fname, 'locals'), nst))
    # the memoisation writes store values determined by (record, class): idempotent under repetition and races
    fn = P.fn('Type_Scan')
    g = P.cfg(fn)
    N = util.Norm(P, fn, inline=False)
    w = [(n, N.canon(ev['lhs']), N.canon(ev['rhs'])) for n in g.live() if n['expr'] is not None for ev in util.expr_events(n['expr'], n)
         if ev['t'] == 'write' and ir.top_nocast(ev['lhs'])[0] in ('arrow', 'dot', 'idx', 'un')]
    ok = len(w) == 1 and w[0][1][0] in ('arrow', 'dot') and w[0][1][2] == 'cls' and w[0][2] == ('param', 1)
    ctx.check(ok, rule, 'Type_Scan:memo', site(fn), 'the only store of the scan records the queried class in the matching triple')
    # type_of evaluated on header memory: a NULL type word (statically declared type object) is replaced by Type and Type is returned;
    # any other type word is returned as it is and nothing is written; nothing but the type word is ever written
    from . import cint
    fn = P.fn('Type_Of')
    ctx.fn(fn)
    fields = [x[0] for x in P.records['Header']['fields']]
    HDR = 8 * len(fields)
    BASE = 100000
    OBJ = BASE + HDR
    TYPE_TOK = 8400
    bad, unsup = None, None
    for tword in (0, 8500):
        memory = {}
        for i, f in enumerate(fields):
            memory[BASE + 8 * i] = {'type': tword, 'alloc': P.enums.get('AllocStatic', 0), 'magic': P.enums.get('CELLO_MAGIC_NUM', 0xCe110)}[f]
        writes = []

        def rd(a, it, memory=memory):
            if a not in memory:
                raise cint.NoEval('read outside the header')
            return memory[a]

        def wr(a, v, w, it, memory=memory, writes=writes):
            writes.append((a - BASE, v))
            memory[a] = v
        r = cint.CInt(P, fn, atoms={('global', 'NULL'): 0, ('global', 'Type'): TYPE_TOK}, mem=rd, memw=wr, recurse=True, strict=True).run([OBJ])
        if r[0] == 'stuck':
            unsup = unsup or '%s' % (r[1],)
            continue
        want_ret = TYPE_TOK if tword == 0 else tword
        toff = 8 * fields.index('type')
        want_w = [(toff, TYPE_TOK)] if tword == 0 else []
        if not (r[0] == 'ret' and r[1] == want_ret and writes == want_w):
            bad = bad or 'header with type word %s: returns %s, writes %s (offset, value); expected %s and %s' % (tword or 'NULL', r[1] if r[0] == 'ret' else r[0], writes, want_ret, want_w)
    if unsup and not bad:
        ctx.undecided(rule, 'Type_Of:memo', site(fn), 'type_of leaves the evaluated fragment: ' + unsup)
    else:
        ctx.check(bad is None, rule, 'Type_Of:memo', site(fn), 'the only store of type_of replaces a NULL type word (static type object) by Type', [bad] if bad else None)
    ctx.floor(rule, 18)


def eval_scan(P, fn):
    """Evaluate Type_Scan on abstract type records: the instance triples (name, class, instance) from index CELLO_NBUILTINS on,
    ended by the all-NULL triple; up to 3 triples, each with its class word equal to the queried class / another class / unset,
    and its name equal or not to the queried class's name.  Expected: the instance of the first triple whose class word is the
    queried class; else the instance of the first triple whose name is *equal* to the class's name, after recording the class in
    that triple (and nothing else stored); else NULL.  Returns (scenarios, mismatch or None, unsupported or None)."""
    from . import cint
    import itertools
    nb = P.enums.get('CELLO_NBUILTINS')
    Q, OTHER = 9001, 9002           # class objects
    QNAME, ONAME, LONGER = 'Cmp', 'Len', 'Cmpx'         # class names: the queried one, another, one that merely starts with it
    n_eval = 0
    for k in range(0, 4):
        for combo in itertools.product(((Q, ONAME), (OTHER, QNAME), (0, QNAME), (0, ONAME), (OTHER, ONAME), (0, LONGER)), repeat=k):
            atoms = {('enum', 'CELLO_NBUILTINS'): nb, ('global', 'Type'): 9100}
            for idx, (cw, nm) in enumerate(combo):
                atoms[('elem', 'T', nb + idx, 'name')] = nm
                atoms[('elem', 'T', nb + idx, 'cls')] = cw
                atoms[('elem', 'T', nb + idx, 'inst')] = 7000 + idx
            atoms[('elem', 'T', nb + k, 'name')] = 0
            atoms[('elem', 'T', nb + k, 'cls')] = 0
            atoms[('elem', 'T', nb + k, 'inst')] = 0
            before = dict(atoms)

            def call(nm_, e, it):
                if nm_ == 'type_of':
                    return 9100
                if nm_ == 'Type_Builtin_Name':
                    return QNAME if it.ev(e[2][0]) == Q else ONAME
                if nm_ == 'strcmp':
                    a, b = it.ev(e[2][0]), it.ev(e[2][1])
                    return 0 if a == b else (1 if a > b else -1)
                if nm_ == 'strncmp':
                    a, b, n_ = it.ev(e[2][0]), it.ev(e[2][1]), it.ev(e[2][2])
                    a, b = a[:n_], b[:n_]
                    return 0 if a == b else (1 if a > b else -1)
                if nm_ == 'strlen':
                    return len(it.ev(e[2][0]))
                raise cint.NoEval('call %s' % nm_)
            it = cint.CInt(P, fn, atoms=atoms, call=call)
            r = it.run([('ep', 'T', 0), Q])
            n_eval += 1
            if r[0] == 'stuck' and 'no value for element' in str(r[1]):
                return n_eval, ('record with %d declared instance(s): the scan reads a triple outside the range from the first declared instance to the '
                                'terminating triple (%s at %s)' % (k, r[1], P.cfg(fn).describe(r[2]))), None
            if r[0] == 'stuck':
                return n_eval, None, '%s at %s' % (r[1], P.cfg(fn).describe(r[2]))
            want, want_store = 0, None
            hit = [i for i, (cw, nm) in enumerate(combo) if cw == Q]
            if hit:
                want = 7000 + hit[0]
            else:
                byname = [i for i, (cw, nm) in enumerate(combo) if nm == QNAME]
                if byname:
                    want = 7000 + byname[0]
                    want_store = ('elem', 'T', nb + byname[0], 'cls')
            got = r[1] if r[0] == 'ret' else r[0]
            changed = {kk for kk in it.atoms if isinstance(kk, tuple) and kk[0] == 'elem' and it.atoms[kk] != before.get(kk)}
            desc = 'record with triples (class word, name) %s, queried class Q named Cmp' % [('Q' if cw == Q else ('other' if cw == OTHER else 'unset'), nm) for cw, nm in combo]
            if got != want:
                return n_eval, '%s: returns %s, expected %s' % (desc, 'NULL' if got == 0 else ('instance %d' % (got - 7000) if isinstance(got, int) and got >= 7000 else got),
                                                              'NULL' if want == 0 else 'instance %d' % (want - 7000)), None
            wantset = {want_store} if want_store else set()
            if changed != wantset or (want_store and it.atoms[want_store] != Q):
                return n_eval, '%s: stores into %s, expected %s' % (desc, sorted(map(str, changed)), 'the class word of the matching triple only' if want_store else 'nothing'), None
    return n_eval, None, None


def check_scan(P, ctx):
    rule = 'C08.scan'
    fn = P.fn('Type_Scan')
    ctx.fn(fn)
    n, bad, unsup = eval_scan(P, fn)
    ctx.stats['paths'] += n
    if unsup:
        ctx.undecided(rule, 'Type_Scan', site(fn), 'the scan leaves the evaluated fragment: ' + unsup)
    else:
        ctx.check(bad is None, rule, 'Type_Scan', site(fn),
                  'the scan of a type record returns the instance recorded for the queried class, else the instance whose class name is equal (strcmp == 0) to the '
                  'class\'s name and records the class there, else NULL; it starts at the first declared instance and stops at the all-NULL triple '
                  '(%d abstract records evaluated)' % n, [bad] if bad else None)
    ctx.floor(rule, 1)


def eval_type_new(P, cache_num):
    """Type_New evaluated (cint) for 2..5 constructor arguments: the record it fills is read back triple by triple.  Expected: the cache
    triples empty; the name and size triples where Type_Builtin_Name / Type_Builtin_Size read them; one triple (NULL, name of the
    instance's class, instance) per instance argument, in order, from index CELLO_NBUILTINS; an all-NULL triple right behind the last
    one; nothing else written.  More than CELLO_MAX_INSTANCES instances: OutOfMemoryError before anything is written (checked builds).
    -> (mismatch, mismatch for the maximum, unsupported)"""
    from . import cint
    fn = P.fn('Type_New')
    nb = P.enums.get('CELLO_NBUILTINS')
    mx = P.enums.get('CELLO_MAX_INSTANCES')
    bad, badmax, unsup = None, None, None
    REC = ('ep', 'trec', 0)

    def run(n):
        atoms = {('global', 'NULL'): 0}

        def call(nm, e, it):
            if nm == 'get':
                k = it.ev(e[2][1])
                if isinstance(k, tuple) and k[0] == 'stack':
                    return 7000 + k[2][0]
                raise cint.NoEval('get with a key that is no Int literal')
            if nm == 'len':
                return n
            if nm == 'c_str':
                v = it.ev(e[2][0])
                return ('name-of', v)
            if nm == 'c_int':
                return 40
            if nm == 'type_of':
                return ('class-of', it.ev(e[2][0]))
            raise cint.NoEval('call %s' % nm)
        it = cint.CInt(P, fn, atoms=atoms, call=call, recurse=True, strict=True, max_steps=4000)
        it.atoms = atoms
        return it.run([REC, 9100]), atoms
    for n in (2, 3, 4, 5):
        r, atoms = run(n)
        if r[0] == 'stuck':
            unsup = unsup or '%d arguments: %s' % (n, r[1])
            continue
        if r[0] != 'ret':
            bad = bad or '%d arguments: does not return' % n
            continue
        rec = {}
        for k_, v in atoms.items():
            if k_[0] == 'elem' and k_[1] == 'trec':
                rec.setdefault(k_[2], {})[k_[3]] = v
        ce = cache_num // 3
        want = {}
        for i in range(ce):
            want[i] = (0, 0, 0)
        # where the accessors read name and size
        names = {}
        for f, val in (('Type_Builtin_Name', ('name-of', 7000)), ('Type_Builtin_Size', 40)):
            ab = util.accessor_body(P, f)
            idx = None
            if ab is not None:
                e = ir.canon(ab[1])
                if e[0] == 'dot' and e[1][0] == 'idx':
                    idx = loops_ev(e[1][2])
            if idx is None:
                return None, None, 'accessor %s not evaluable' % f
            names[idx] = val
        for idx, val in names.items():
            want[idx] = (0, 'lit', val)
        for k in range(n - 2):
            want[nb + k] = (0, ('name-of', ('class-of', 7002 + k)), 7002 + k)
        want[nb + n - 2] = (0, 0, 0)
        got = {i: (t.get('cls'), ('lit' if isinstance(t.get('name'), tuple) and t.get('name')[0] == 'str' else t.get('name')), t.get('inst')) for i, t in rec.items()}
        if got != want:
            diff = sorted(set(got) ^ set(want)) or [i for i in sorted(want) if got.get(i) != want[i]]
            i = diff[0]
            bad = bad or '%d constructor arguments (%d instances): triple %d of the record is %s, expected %s' % (n, n - 2, i, got.get(i, 'not written'), want.get(i, 'not written'))
    if mx is not None and 'ndebug' not in P.config:
        r, atoms = run(mx + 3)
        if r[0] == 'stuck' and 'step bound' not in str(r[1]):
            unsup = unsup or 'too many instances: %s' % (r[1],)
        elif not (r[0] == 'term' and r[1] == ('throw', 'OutOfMemoryError')) or any(k_[0] == 'elem' and k_[1] == 'trec' for k_ in atoms):
            badmax = 'with %d instances (maximum %d): %s' % (mx + 1, mx, 'the record is written before the refusal' if r[0] == 'term' else 'no OutOfMemoryError')
    return bad, badmax, unsup


def check_type_new_all_instances(P, ctx):
    """a run-time type records every instance it was given (evaluated: eval_type_new)"""
    rule = 'C08.runtime-type-complete'
    fn = P.fn('Type_New')
    ctx.fn(fn)
    hw = len(P.records['Header']['fields'])
    wt = P.types.get('WObj')
    cache_num = (wt['header'].index(('str', '__Name')) - 1 - hw) if wt and ('str', '__Name') in wt['header'] else None
    if cache_num is None:
        ctx.undecided(rule, 'Type_New', site(fn), 'cannot locate the cache words of a static object')
    else:
        bad, badmax, unsup = eval_type_new(P, cache_num)
        if unsup and not bad:
            ctx.undecided(rule, 'Type_New', site(fn), 'Type_New leaves the evaluated fragment: ' + unsup)
        else:
            ctx.check(bad is None, rule, 'Type_New', site(fn), 'Type_New copies every instance argument into the type record (2..5 constructor arguments evaluated)', [bad] if bad else None)
    ctx.floor(rule, 1)


def check_layout(P, ctx, cache_num):
    rule = 'C08.layout'
    hw = len(P.records['Header']['fields'])
    nb = P.enums.get('CELLO_NBUILTINS')
    mx = P.enums.get('CELLO_MAX_INSTANCES')
    wt = P.types.get('WObj')
    hdr = wt['header'] if wt else []
    ok = wt is not None and ('str', '__Name') in hdr and ('str', '__Size') in hdr
    if ok:
        iname, isize = hdr.index(('str', '__Name')), hdr.index(('str', '__Size'))
        first_inst = hdr.index(('str', 'Cmp')) - 1
        ok = cache_num % 3 == 0 and nb == 2 + cache_num // 3 and (iname - 1 - hw) == cache_num and isize == iname + 3 and (first_inst - hw) == 3 * nb and \
            hdr[-3:] == [('int', 0), ('int', 0), ('int', 0)]
    ctx.check(ok, rule, 'static-object', 'include/Cello.h (CelloObject)',
              'a static type record is: header words, CELLO_CACHE_NUM cache words, the __Name and __Size triples, the instance triples from index CELLO_NBUILTINS = 2 + CACHE_NUM/3, a NULL triple',
              ['header words %d, cache words %s, NBUILTINS %s' % (hw, cache_num, nb)])
    # accessors of name / size
    for f, off in (('Type_Builtin_Name', 0), ('Type_Builtin_Size', 1)):
        ab = util.accessor_body(P, f)
        ok = ab is not None
        if ok:
            e = ir.canon(ab[1])
            ok = e[0] == 'dot' and e[2] == 'inst' and e[1][0] == 'idx' and e[1][1] == ('param', 0) and loops_ev(e[1][2]) == cache_num // 3 + off
        ctx.check(ok, rule, f, site(P.fn(f)), 'reads the inst word of triple CACHE_NUM/3 + %d' % off)
    # run-time types (evaluated: eval_type_new)
    from . import poly as _p
    fn = P.fn('Type_New')
    ctx.fn(fn)
    tbad, tbadmax, tunsup = eval_type_new(P, cache_num)
    if tunsup and not tbad:
        ctx.undecided(rule, 'Type_New', site(fn), 'Type_New leaves the evaluated fragment: ' + tunsup)
    else:
        ctx.check(tbad is None, rule, 'Type_New', site(fn), 'a run-time type record gets its name/size triples at the indices the accessors read, its instances from index CELLO_NBUILTINS on, and the terminating NULL triple right after the last instance',
                  [tbad] if tbad else None)
    fn = P.fn('Type_Alloc')
    g = P.cfg(fn)
    N = util.Norm(P, fn)
    cs = [c for n in g.live() if n['expr'] is not None for c in ir.calls(n['expr']) if ir.callee_name(c) == 'calloc']
    ok = len(cs) == 1
    if ok:
        total = _p.from_expr(N.canon(cs[0][2][0])) * _p.from_expr(N.canon(cs[0][2][1]))
        total = total.subst({'CELLO_NBUILTINS': _p.Poly.const(nb), 'CELLO_MAX_INSTANCES': _p.Poly.const(mx), 'sizeof(struct Type)': _p.Poly.const(24)})
        ok = total == _p.Poly.atom('H') + _p.Poly.const(24 * (nb + mx + 1))
    ctx.check(ok, rule, 'Type_Alloc', site(fn), 'the block of a run-time type holds the header and NBUILTINS + MAX_INSTANCES + 1 triples (room for the terminator at the maximum instance count)')
    fn = P.fn('Type_New')
    if 'ndebug' not in ctx.config:
        if tunsup and not tbadmax:
            ctx.undecided(rule, 'Type_New:max', site(fn), 'Type_New leaves the evaluated fragment: ' + tunsup)
        else:
            ctx.check(tbadmax is None, rule, 'Type_New:max', site(fn), 'more than CELLO_MAX_INSTANCES instances are refused before anything is written', [tbadmax] if tbadmax else None)
    ctx.floor(rule, 5)


def loops_ev(e):
    from .loops import ev, NoEval
    try:
        return ev(e, {})
    except NoEval:
        return None


def check_vtable_calls(P, ctx):
    """every indirect call through a member of an instance obtained with instance()/type_instance() is preceded by
    null tests of the instance and of the member"""
    rule = 'C08.no-unguarded-vtable-call'
    macro_sites = {}
    nsites = 0
    for fn in P.all_functions():
        if not (fn['unit'].startswith('src/') or fn['unit'].endswith('macros.c')):
            continue
        g = None
        for s_ in ir.stmts(fn['body']):
            for e in ir.stmt_exprs(s_):
                for c in ir.calls(e):
                    callee = ir.top_nocast(c[1])
                    if callee[0] != 'arrow':
                        continue
                    base = ir.top_nocast(callee[1])
                    src = None
                    if base[0] == 'call' and ir.callee_name(base) in ('method_at_offset', 'type_method_at_offset'):
                        continue          # checked lookup (C12.dispatcher-checks)
                    if base[0] == 'local':
                        defs = util.single_defs(fn)
                        d = defs.get(base[2])
                        if d is not None and ir.top_nocast(d)[0] == 'call' and ir.callee_name(ir.top_nocast(d)) in ('instance', 'type_instance'):
                            src = base
                        elif d is not None:
                            # a table obtained through the checked lookup: the called member must be among the validated ones
                            chk = [x for x in ir.walk(d) if x[0] == 'call' and ir.callee_name(x) in ('method_at_offset', 'type_method_at_offset')]
                            if chk:
                                validated = {ir.top_nocast(x[2][3])[1] for x in chk if ir.top_nocast(x[2][3])[0] == 'str'}
                                nsites += 1
                                mac = s_.get('macro')
                                okv = callee[2] in validated
                                if mac and mac[0] and mac[0].endswith('Cello.h'):
                                    macro_sites.setdefault((mac, callee[2]), []).append((fn, s_['line'], okv))
                                else:
                                    ctx.check(okv, rule, '%s:%s' % (fn['name'], callee[2]), site(fn, s_['line']),
                                              'the member `%s` called through a cached instance is one of the members the checked lookup validated (%s)' % (callee[2], sorted(validated)))
                    if src is None:
                        continue
                    nsites += 1
                    g = g or P.cfg(fn, lower_ternary=True)
                    node = [n for n in g.live() if n['expr'] is not None and n['line'] == s_['line'] and any(x is c or x == c for x in ir.calls(n['expr']))]
                    if not node:
                        continue
                    node = node[0]
                    v = ir.canon(src)
                    m = ir.canon(('arrow', src, callee[2]))
                    gi = guards_of(g, lambda cc, n_: False if cc == v else (cc[1] == '==' if cc[0] == 'bin' and cc[1] in ('==', '!=') and v in (cc[2], cc[3]) and ('int', 0) in (cc[2], cc[3]) else None))
                    gm = guards_of(g, lambda cc, n_: False if cc == m else (cc[1] == '==' if cc[0] == 'bin' and cc[1] in ('==', '!=') and m in (cc[2], cc[3]) and ('int', 0) in (cc[2], cc[3]) else None))
                    ok = any(g.must_pass(node['id'], through_edges=[(x['id'], not b)]) for x, b in gi) and any(g.must_pass(node['id'], through_edges=[(x['id'], not b)]) for x, b in gm)
                    mac = s_.get('macro')
                    if mac and mac[0] and mac[0].endswith('Cello.h'):
                        macro_sites.setdefault((mac, callee[2]), []).append((fn, s_['line'], ok))
                        continue
                    ctx.check(ok, rule, '%s:%s' % (fn['name'], callee[2]), site(fn, s_['line']),
                              'the member `%s` is invoked only after the instance and the member were tested for NULL (an unimplemented class or empty member must not be called)' % callee[2])
    for (mac, member), lst in sorted(macro_sites.items(), key=str):
        bad = [x for x in lst if not x[2]]
        key = 'macro@Cello.h:%s' % member
        if bad:
            ctx.refuted(rule, key, 'include/Cello.h:%s (macro expansion)' % mac[1],
                        'the macro calls `%s` on the raw result of instance(x, Iter): iterating an object whose type does not implement the class '
                        'dereferences NULL instead of raising ClassError (%d expansion sites, e.g. %s:%s)' % (member, len(lst), bad[0][0]['file'], bad[0][1]))
        else:
            ctx.proved(rule, key, 'include/Cello.h:%s' % mac[1], 'guarded at all %d expansion sites' % len(lst))
    ctx.stats['call_sites'] += nsites
    ctx.floor(rule, 20)


class MemberMismatch(Exception):
    pass


def check_member_addressing(P, ctx):
    """implements_method / type_implements_method answer for the member they name: the macro expansions (witness unit, compiled against
    the current header) are evaluated down to the read of the instance table, for the first and the third member of a class and every
    pattern of set / empty members — the answer is whether *that* member is set"""
    from . import cint
    import itertools
    rule = 'C08.member-addressing'
    TYPE, INST, OBJ = 8500, 700000, 5000
    for wname, idx, through in (('w_implements_first', 0, 'object'), ('w_implements_third', 2, 'object'),
                                ('w_type_implements_first', 0, 'type'), ('w_type_implements_third', 2, 'type')):
        fn = P.fn(wname)
        bad, unsup, ncase = None, None, 0
        for pat in itertools.product((0, 1), repeat=4):
            def call(nm, e, it):
                if nm == 'Type_Of':
                    return TYPE
                if nm == 'Type_Scan':
                    return INST
                raise cint.NoEval('call %s' % nm)

            def mem(a, it, pat=pat):
                k, r = divmod(a - INST, 8)
                if r or not 0 <= k < 4:
                    raise MemberMismatch('reads the instance table at byte %d: not where a member of the class starts' % (a - INST))
                return 4242 + k if pat[k] else 0
            # (offsetof(struct Get, <member>) in the expansion: the byte offset of the member the witness names)
            atoms = {('global', 'NULL'): 0, ('offsetof',): 8 * idx, ('global', 'Get'): 8600}
            it = cint.CInt(P, fn, atoms=atoms, call=call, recurse=True, mem=mem, strict=True)
            it.atoms = atoms
            try:
                r = it.run([OBJ if through == 'object' else TYPE])
            except MemberMismatch as x:
                bad = bad or 'the test of member %d %s' % (idx + 1, x)
                continue
            ncase += 1
            if r[0] != 'ret' or not isinstance(r[1], int):
                unsup = unsup or 'members %s: %s' % (pat, r[1])
            elif bool(r[1]) != bool(pat[idx]):
                bad = bad or 'members (get, set, mem, rem) set as %s: the test of member %d answers %s' % (pat, idx + 1, bool(r[1]))
        ctx.stats['paths'] += ncase
        what = '%s(%s, Get, %s)' % ('implements_method' if through == 'object' else 'type_implements_method', 'x' if through == 'object' else 'T', ('get', 'set', 'mem')[idx])
        if unsup and not bad:
            ctx.undecided(rule, wname, site(fn), 'leaves the evaluated fragment: ' + unsup)
        else:
            ctx.check(bad is None, rule, wname, site(fn), '%s is true exactly when that member is set in the type\'s Get instance (16 patterns evaluated)' % what, [bad] if bad else None)
    ctx.floor(rule, 4)


def run(ctx, load):
    P = load(None, 'default', [WITNESS])
    ctx.stats['units'] = set(k for k in P.units if k.startswith('src/')) | {'witness/macros.c', 'include/Cello.h'}
    ctx.stats['configs'] = ['default']
    cn = check_cache(P, ctx)
    check_state(P, ctx)
    check_scan(P, ctx)
    check_type_new_all_instances(P, ctx)
    if cn is not None:
        check_layout(P, ctx, cn)
    before = len(ctx.obs)
    check_dispatcher(P, ctx)
    for o in ctx.obs[before:]:
        o['rule'] = 'C08.method-guard'
    ctx.floors.pop(('C12.dispatcher-checks', ctx.config), None)
    ctx.floor('C08.method-guard', 11)
    check_vtable_calls(P, ctx)
    check_member_addressing(P, ctx)
    # the cache is consulted by the dispatcher alone: a reader elsewhere is not covered by the agreement of entry and scan decided above
    from .rules_c18 import check_cache_regions
    ctx.borrow('C08.cache-only-in-dispatcher', 2, lambda: check_cache_regions(P, ctx), only=lambda o: o['rule'] == 'C18.cache-transparent' and ('raw-cache-read' in o['key'] or o['key'].startswith('src/') or o['key'] == 'anchor'))
    if ctx.tier == 'thorough':
        for cfg in ('nocache', 'ndebug', 'ndebug+nocache'):
            Pc = load(None, cfg, [WITNESS])
            ctx.stats['configs'].append(cfg)
            cn2 = check_cache(Pc, ctx)
            check_scan(Pc, ctx)
            if cn2 is not None:
                check_layout(Pc, ctx, cn2)
            check_state(Pc, ctx)
        ctx.config = 'default'


EXPLANATION = (
    'Decided: (a) cache-wiring — every expanded cache entry of Type_Instance tests one class literal, reads and fills the same slot index '
    '(< CELLO_CACHE_NUM, pairwise distinct, one per class) with Type_Scan(self, that class) and returns it; the fall-through is the full '
    'scan; (b) writers — the lookup functions keep no state other than idempotent memoisation into the queried record (no static or '
    'file-scope variables, no stores elsewhere); (c) scan — both passes start at the first declared instance, advance one triple per step, '
    'stop at the NULL triple, match by class pointer, then by *exact* name equality; (d) layout — static and run-time type records place '
    'cache words, name/size triples, instance triples and the terminator where the accessors and the scan expect them, for the '
    'configured cache size (thorough: also without cache / without checks); (e) method-guard — ClassError/ValueError tests dominate the '
    'returns of the method lookup and cast; (f) no indirect call through a member of an instance()-obtained table without NULL tests '
    '(the foreach macro is a recorded known finding). Not decided: memory-model behaviour of the benign memoisation races.')
