"""C05 — containers own their elements: each is finalised exactly once."""
from . import ir, util, poly
from .effects import Effects
from .report import site
from .front import AnalysisBroken

UNITS = ['src/Array.c', 'src/List.c', 'src/Table.c', 'src/Tree.c', 'src/Pointer.c', 'src/Alloc.c', 'src/Assign.c',
         'src/Exception.c']

STORAGE_CALLS = {'free', 'realloc', 'memmove', 'memcpy', 'memset', 'List_Free'}
ELEM = {  # container -> accessor names whose result is an owned element
    'Array': ('Array_Item',), 'Table': ('Table_Key', 'Table_Val'), 'Tree': ('Tree_Key', 'Tree_Val'), 'List': (),
}


def classify_destruct(T, arg):
    """-> element kind ('item' | 'key' | 'val') of a destruct argument, or None"""
    a = ir.top_nocast(arg)
    if T == 'List':
        return 'item' if a[0] in ('local', 'param') else None
    if a[0] == 'call':
        nm = ir.callee_name(a)
        if nm in ELEM[T]:
            if nm.endswith('_Key'):
                return 'key'
            if nm.endswith('_Val'):
                return 'val'
            return 'item'
    return None


def path_profile(P, E, fn, T, path, _depth=0):
    """ordered events of a path relevant to ownership"""
    out = []
    for ev in util.path_events(path):
        if ev['t'] == 'call':
            nm = ev['name']
            if nm == 'destruct':
                out.append(('des', classify_destruct(T, ev['args'][0]), ir.canon(ev['args'][0]), ev['node']))
            elif nm in STORAGE_CALLS:
                tgt = ev['args'][0] if ev['args'] else None
                roots = E.param_roots(fn, tgt) if tgt is not None else set()
                if ('param', 0) in roots or nm == 'List_Free':
                    out.append(('kill', nm, ir.canon(tgt) if tgt is not None else None, ev['node']))
            elif nm in P.functions and P.functions[nm]['unit'] == fn['unit']:
                # a straight-line same-unit helper that does the removal work (extracted routine) is spliced in
                h = P.functions[nm]
                spliced = False
                if _depth < 1 and nm != fn['name'] and any(ir.callee_name(c2) in ('destruct', 'List_Free', 'free') for c2, _ in ir.all_calls(h['body'])):
                    hg = P.cfg(h)
                    hpaths = [pp for pp in hg.paths() if util.path_end(pp)[0] != 'term']
                    if len(hpaths) == 1:
                        sub = path_profile(P, E, h, T, hpaths[0], _depth + 1)
                        out.extend([(k, a, b, ev['node']) for (k, a, b, nd) in sub if k != 'cond'])
                        spliced = True
                if not spliced:
                    out.append(('call', nm, tuple(ir.canon(a) for a in ev['args']), ev['node']))
        elif ev['t'] == 'write':
            lhs = ir.top_nocast(ev['lhs'])
            if lhs[0] == 'arrow' and lhs[2] == 'nitems':
                if ev['op'] == '--':
                    out.append(('dec', None, None, ev['node']))
                elif ev['op'] == '++':
                    out.append(('inc', None, None, ev['node']))
                elif ev['op'] == '=':
                    out.append(('setcount', ir.canon(ev['rhs']), None, ev['node']))
        elif ev['t'] == 'cond':
            out.append(('cond', ir.canon(ev['expr']), ev['val'], ev['node']))
    return out


KIND_NEED = {'Array': ['item'], 'List': ['item'], 'Table': ['key', 'val'], 'Tree': ['key', 'val']}


def check_remove_one(P, E, ctx, T, fname, shrink_loop=False):
    """every normal path that removes an element destructs it exactly once, before its storage is
    overwritten / released, and adjusts the count exactly once"""
    rule = 'C05.drop-pairing'
    fn = P.fn(fname)
    g = P.cfg(fn)
    ctx.fn(fn)
    need = KIND_NEED[T]
    bad = None
    npaths = 0
    nrem = 0
    for path in g.paths():
        end = util.path_end(path)
        if end[0] == 'term':
            continue
        npaths += 1
        prof = path_profile(P, E, fn, T, path)
        des = [p for p in prof if p[0] == 'des']
        kills = [i for i, p in enumerate(prof) if p[0] == 'kill']
        decs = [p for p in prof if p[0] == 'dec']
        # delegating paths (Array_Rem -> Array_Pop_At, Tuple-like) carry no events of their own
        if not des and not kills and not decs:
            continue
        removes = bool(decs) or bool(des)
        if not removes:
            # storage events only (e.g. shrink of spare capacity): nothing owned is dropped
            continue
        nrem += 1
        kinds = sorted(k for (_, k, _, _) in des if k)
        why = None
        if None in [k for (_, k, _, _) in des]:
            raise AnalysisBroken('%s: destruct of `%s` is not a recognised element accessor' % (fname, ir.fmt(des[0][2])))
        if kinds != sorted(need):
            why = 'removes an element but calls destruct on %s (needs exactly one destruct each of: %s)' % (kinds or 'nothing', ', '.join(need))
        elif len({d[2] for d in des}) != len(des):
            why = 'destructs the same element twice'
        elif len(decs) != 1:
            why = 'adjusts the element count %d times for one removed element' % len(decs)
        else:
            di = [i for i, p in enumerate(prof) if p[0] == 'des']
            if kills and max(di) > min(kills):
                k = prof[min(kills)]
                why = 'element storage is overwritten/released (%s) before the element is destructed' % k[1]
        if why and bad is None:
            bad = (why, util.describe_path(g, path, 18))
    ctx.stats['paths'] += npaths
    if nrem == 0:
        raise AnalysisBroken('%s: no path removes an element' % fname)
    if bad:
        ctx.refuted(rule, fname, site(fn), bad[0], bad[1])
    else:
        ctx.proved(rule, fname, site(fn), 'on all %d removing paths: destruct ×1 per owned part (%s) before any overwrite/free of element storage, count adjusted ×1' % (nrem, '+'.join(need)))


class _Collect:
    """stand-in context collecting the verdict of a delegated sub-check"""

    def __init__(self):
        self.obs = []
        self.stats = {'paths': 0, 'functions': set(), 'call_sites': 0}

    def fn(self, f):
        pass

    def proved(self, rule, key, s, what, detail=None):
        self.obs.append(('proved', what, detail))

    def refuted(self, rule, key, s, what, detail=None):
        self.obs.append(('refuted', what, detail))


def check_clear(P, E, ctx, T, fname, frees_field=None, sets_count=True, recursive=False):
    """teardown: the loop destructs every element (per iteration: one destruct per owned part, before the
    node is freed); whole-storage free only after the loop; count reset"""
    rule = 'C05.full-teardown'
    fn = P.fn(fname)
    g = P.cfg(fn)
    ctx.fn(fn)
    need = KIND_NEED[T]
    N = util.Norm(P, fn, inline=False)
    bad = None
    iters = 0
    # the element loop may live in a same-unit helper that receives the container (extracted clean-up routine)
    own_des = [n for (n, c) in g.nodes_calling('destruct')]
    deleg = None
    if not own_des:
        selfs = {('param', fn['params'][0][0], 0)} | util.aliases_of_param(fn, 0)
        for n in g.live():
            if n['expr'] is None:
                continue
            for c in ir.calls(n['expr']):
                nm = ir.callee_name(c)
                h = P.functions.get(nm)
                if h is not None and h['unit'] == fn['unit'] and nm != fname and c[2] and ir.top_nocast(c[2][0]) in selfs and \
                        any(ir.callee_name(c2) == 'destruct' for c2, _ in ir.all_calls(h['body'])):
                    deleg = (n, nm)
    if deleg is not None:
        dn, hname = deleg
        sub = _Collect()
        check_clear(P, E, sub, T, hname, None, sets_count=False, recursive=recursive)
        inner_bad = [o for o in sub.obs if o[0] == 'refuted']
        if inner_bad:
            bad = (inner_bad[0][1], inner_bad[0][2])
        ok2 = g.must_pass(g.exit, [dn['id']])
        if not ok2:
            bad = bad or ('the element clean-up helper %s is not called on every path' % hname, None)
        if frees_field:
            fr = [n for n in g.live() if n['expr'] is not None and any(ir.callee_name(c) == 'free' and N.canon(c[2][0]) == ('arrow', ('param', 0), frees_field) for c in ir.calls(n['expr']))]
            if not (len(fr) == 1 and g.must_pass(fr[0]['id'], [dn['id']]) and g.must_pass(g.exit, [fr[0]['id']])):
                bad = bad or ('the backing store `%s` must be freed exactly once, after the elements were destructed, on every normal path' % frees_field, None)
        if sets_count:
            for path in g.paths():
                if util.path_end(path)[0] == 'term':
                    continue
                prof = path_profile(P, E, fn, T, path)
                if not [p_ for p_ in prof if p_[0] == 'setcount' and p_[1] == ('int', 0)]:
                    bad = bad or ('a normal exit leaves the element count unchanged after clearing', util.describe_path(g, path, 14))
        if bad:
            ctx.refuted(rule, fname, site(fn), bad[0], bad[1])
        else:
            ctx.proved(rule, fname, site(fn), 'delegates the element loop to %s (every element visited and destructed there); store released afterwards' % hname)
        return
    for path in g.paths():
        end = util.path_end(path)
        if end[0] == 'term':
            continue
        ctx.stats['paths'] += 1
        prof = path_profile(P, E, fn, T, path)
        des = [p for p in prof if p[0] == 'des']
        if any(d[1] is None for d in des):
            raise AnalysisBroken('%s: destruct of `%s` is not a recognised element accessor' % (fname, ir.fmt(des[0][2])))
        if des:
            iters += 1
            kinds = sorted(d[1] for d in des)
            if kinds != sorted(need) or len({d[2] for d in des}) != len(des):
                bad = bad or ('one visit of an element destructs %s (needs one destruct each of %s)' % (kinds, need), util.describe_path(g, path, 14))
            kills = [i for i, p in enumerate(prof) if p[0] == 'kill']
            di = [i for i, p in enumerate(prof) if p[0] == 'des']
            if kills and min(kills) < max(di):
                bad = bad or ('storage is released (%s) before the element is destructed' % prof[min(kills)][1], util.describe_path(g, path, 14))
        if sets_count:
            sc = [p for p in prof if p[0] == 'setcount' and p[1] == ('int', 0)]
            if not sc:
                bad = bad or ('a normal exit leaves the element count unchanged after clearing', util.describe_path(g, path, 14))
    if iters == 0:
        bad = bad or ('no path destructs an element', None)
    # coverage of the traversal
    cov = traversal_covers(P, fn, T, recursive)
    if cov is not True:
        bad = bad or ('the traversal does not visit every element: %s' % cov, None)
    # whole-storage free after the loop, not inside it
    if frees_field:
        fr = [n for n in g.live() if n['expr'] is not None and any(ir.callee_name(c) == 'free' and N.canon(c[2][0]) == ('arrow', ('param', 0), frees_field)
                                                                  for c in ir.calls(n['expr']))]
        desn = [n for n in g.live() if n['expr'] is not None and any(ir.callee_name(c) == 'destruct' for c in ir.calls(n['expr']))]
        ok = len(fr) == 1 and all(d['id'] not in g.reach_from(fr[0]['id']) for d in desn) and g.must_pass(g.exit, [fr[0]['id']])
        if not ok:
            bad = bad or ('the backing store `%s` must be freed exactly once, after the last destruct, on every normal path' % frees_field, None)
    if bad:
        ctx.refuted(rule, fname, site(fn), bad[0], bad[1])
    else:
        ctx.proved(rule, fname, site(fn), 'every element is visited; each visit destructs %s once before its storage is released; %s' % (
            '+'.join(need), 'store freed after the loop' if frees_field else 'nodes freed after their destruct'))


def traversal_covers(P, fn, T, recursive):
    """True, or a reason string"""
    g = P.cfg(fn)
    N = util.Norm(P, fn, inline=False)
    if T in ('Array', 'Table'):
        bound = 'nitems' if T == 'Array' else 'nslots'
        # for (i = 0; i < self->bound; i++) with the destructs inside
        conds = [n for n in g.live() if n['kind'] == 'cond' and N.canon(n['expr'])[0] == 'bin' and N.canon(n['expr'])[1] == '<' and
                 N.canon(n['expr'])[3] == ('arrow', ('param', 0), bound) and N.canon(n['expr'])[2][0] == 'local']
        if len(conds) != 1:
            return 'no single loop test `i < %s`' % bound
        iv = N.canon(conds[0]['expr'])[2]
        inits = [n for n in g.live() if n.get('decl') and ('local', n['decl']['name']) == iv and util.const_int(n['decl']['init']) == 0]
        steps = [n for n in g.live() if n.get('loop_inc') and N.canon(n['expr']) in (('un', 'post++', iv), ('un', 'pre++', iv))]
        if not inits or not steps:
            return 'loop does not start at 0 / step by one'
        body = [v for v, l in conds[0]['succ'] if l is True][0]
        if conds[0]['id'] in g.reach_from(body, cut_nodes=[s['id'] for s in steps]):
            return 'an iteration can return to the loop test without the step'
        writes = [n for n in g.live() if n['expr'] is not None and n not in steps and
                  any(ev['t'] == 'write' and N.canon(ev['lhs']) == iv for ev in util.expr_events(n['expr'], n)) and not n.get('decl')]
        if writes:
            return 'loop index written inside the body'
        des = [n for n in g.live() if n['expr'] is not None and any(ir.callee_name(c) == 'destruct' for c in ir.calls(n['expr']))]
        for d in des:
            for c in ir.calls(d['expr']):
                if ir.callee_name(c) == 'destruct':
                    a = ir.top_nocast(c[2][0])
                    if not (a[0] == 'call' and len(a[2]) == 2 and N.canon(a[2][1]) == iv):
                        return 'destruct argument is not the element at the loop index'
            if not g.must_pass(d['id'], through_edges=[(conds[0]['id'], True)]):
                return 'destruct outside the loop'
        if T == 'Table':
            occ = [n for n in g.live() if n['kind'] == 'cond' and any(ir.callee_name(c) == 'Table_Key_Hash' for c in ir.calls(n['expr']))]
            if len(occ) != 1:
                return 'no occupied-slot test'
            c = N.canon(occ[0]['expr'])
            pol = (c[1] == '!=') if c[0] == 'bin' and c[1] in ('==', '!=') and ('int', 0) in (c[2], c[3]) else None
            if pol is None:
                return 'occupied-slot test not a comparison of the stored hash with 0'
            # every occupied slot reaches the destructs
            for d in des:
                if not g.must_pass(d['id'], through_edges=[(occ[0]['id'], pol)]):
                    return 'destruct not under the occupied-slot test'
            tgt = [v for v, l in occ[0]['succ'] if l == pol][0]
            if not all(d['id'] in g.reach_from(tgt) for d in des):
                return 'occupied slot does not reach destruct'
        return True
    if T == 'List':
        # item = head; while (item) { next = *List_Next(item); ...; item = next }
        conds = [n for n in g.live() if n['kind'] == 'cond' and N.canon(n['expr'])[0] == 'local']
        if len(conds) != 1:
            return 'no single `while (item)` test'
        iv = N.canon(conds[0]['expr'])
        init = [n for n in g.live() if n.get('decl') and ('local', n['decl']['name']) == iv and N.canon(n['decl']['init']) == ('arrow', ('param', 0), 'head')]
        if not init:
            return 'traversal does not start at head'
        nxt = [n for n in g.live() if n.get('decl') and n['decl']['init'] is not None and
               N.canon(n['decl']['init']) == ('un', '*', ('call', ('func', 'List_Next'), (('param', 0), iv)))]
        if len(nxt) != 1:
            return 'successor not read through List_Next(item)'
        nv = ('local', nxt[0]['decl']['name'])
        adv = [n for n in g.live() if n['kind'] == 'stmt' and N.canon(n['expr']) == ('assign', '=', iv, nv)]
        if len(adv) != 1:
            return 'cursor not advanced to the saved successor'
        frees = [n for (n, c) in g.nodes_calling('List_Free')]
        if len(frees) != 1 or not g.must_pass(frees[0]['id'], [nxt[0]['id']], start=conds[0]['id']):
            return 'successor must be read before the node is freed'
        body = [v for v, l in conds[0]['succ'] if l is True][0]
        if conds[0]['id'] in g.reach_from(body, cut_nodes=[adv[0]['id']]):
            return 'an iteration can return to the loop test without advancing'
        return True
    if T == 'Tree':
        # recursive post-order: both children before the node is released
        rec = [(n, c) for (n, c) in g.nodes_calling(fn['name'])]
        N2 = util.Norm(P, fn, inline=False)
        kids = set()
        for n, c in rec:
            a = N2.canon(c[2][1])
            if a[0] == 'un' and a[1] == '*' and a[2][0] == 'call' and ir.callee_name(a[2]) in ('Tree_Left', 'Tree_Right') and a[2][2][1] == ('param', 1):
                kids.add(ir.callee_name(a[2]))
        if kids != {'Tree_Left', 'Tree_Right'}:
            return 'recursion does not descend into both children (%s)' % sorted(kids)
        frees = [n for n in g.live() if n['expr'] is not None and any(ir.callee_name(c) == 'free' for c in ir.calls(n['expr']))]
        if len(frees) != 1 or not all(g.must_pass(frees[0]['id'], [n['id']]) for n, c in rec):
            return 'node freed before its children were visited'
        guard = [n for n in g.live() if n['kind'] == 'cond' and N2.canon(n['expr']) in (ir.canon(('bin', '!=', ('param', 'node', 1), ('int', 0))), ('param', 1))]
        if len(guard) != 1:
            return 'no NULL-node guard'
        return True
    return 'unknown container'


def check_replace(P, E, ctx):
    """Table_Set_Move: the replace-on-equal-key branch destructs the resident key and value before the
    slot is overwritten and leaves the count alone; the empty-slot branch counts +1"""
    rule = 'C05.drop-pairing'
    fn = P.fn('Table_Set_Move')
    g = P.cfg(fn)
    ctx.fn(fn)
    bad = None
    seen_replace = seen_insert = 0
    for path in g.paths():
        if util.path_end(path)[0] == 'term':
            continue
        ctx.stats['paths'] += 1
        prof = path_profile(P, E, fn, 'Table', path)
        # the loop part: events after the last scratch preparation are those following the first probe read
        eqhit = [i for i, p in enumerate(prof) if p[0] == 'cond' and p[2] is True and p[1][0] == 'call' and ir.callee_name(p[1]) == 'eq']
        des = [(i, p) for i, p in enumerate(prof) if p[0] == 'des']
        incs = [p for p in prof if p[0] == 'inc']
        if eqhit:
            seen_replace += 1
            after = prof[eqhit[-1]:]
            d = [p for p in after if p[0] == 'des']
            k = [i for i, p in enumerate(after) if p[0] == 'kill']
            di = [i for i, p in enumerate(after) if p[0] == 'des']
            if sorted(x[1] for x in d) != ['key', 'val'] or not k or max(di) > min(k) or incs:
                bad = bad or ('the replace branch must destruct the resident key and value once each, before the slot is overwritten, without counting a new item',
                              util.describe_path(g, path, 20))
            if len(des) != len(d):
                bad = bad or ('an element is destructed outside the replace branch', util.describe_path(g, path, 20))
        else:
            seen_insert += 1
            if des:
                bad = bad or ('an insertion into an empty slot destructs a resident', util.describe_path(g, path, 20))
            if len(incs) != 1:
                bad = bad or ('an insertion into an empty slot must count exactly one new item', util.describe_path(g, path, 20))
    if not seen_replace or not seen_insert:
        raise AnalysisBroken('Table_Set_Move: replace/insert branches not found')
    if bad:
        ctx.refuted(rule, 'Table_Set_Move:replace', site(fn), bad[0], bad[1])
    else:
        ctx.proved(rule, 'Table_Set_Move:replace', site(fn), 'replace: destruct key+value before overwrite, count unchanged; insert: no destruct, count +1')


def tree_pred_copy_extent(P, fn, g, mc):
    """the byte copies from the predecessor node into the removed node cover exactly the payload — from the key's header to the end of
    the value, *where the accessors Tree_Key / Tree_Val place them* — at the same offsets on both sides.  The three arguments of each
    memcpy are evaluated (cint) with the two nodes at concrete addresses, for several key / value sizes.  True or a reason."""
    from . import cint, absmodel
    HDR = 8 * len(P.records['Header']['fields']) if 'Header' in P.records else 24
    calls = [c for n in mc for c in ir.calls(n['expr']) if ir.callee_name(c) == 'memcpy']
    if not calls:
        return 'no byte copy'
    for ksize, vsize in ((8, 16), (24, 8), (5, 3), (40, 1)):
        atoms = {('global', 'NULL'): 0}
        for f, v in (('ktype', 8500), ('vtype', 8501), ('ksize', ksize), ('vsize', vsize), ('nitems', 3), ('root', 0)):
            atoms[('elem', 'self', 0, f)] = v
        ivs = []
        pair = None
        for c in calls:
            locs = []
            for a_ in c[2][:2]:
                ls = []
                for x in ir.walk(a_):
                    if x[0] == 'local' and x[2] not in ls:
                        ls.append(x[2])
                locs.append(ls)
            if len(locs[0]) != 1 or len(locs[1]) != 1 or locs[0] == locs[1]:
                return 'copy operands are not (one node) + offset each'
            D, S = 100000, 200000
            it = cint.CInt(P, fn, atoms=atoms, recurse=True, strict=True)
            it.atoms = atoms
            it.params = {0: absmodel.SELF}
            it.locals = {locs[0][0]: D, locs[1][0]: S}
            for lid, d in util.single_defs(fn).items():         # `struct Tree* m = self;`
                if ir.top_nocast(d) == ('param', fn['params'][0][0], 0):
                    it.locals[lid] = absmodel.SELF
            try:
                d_, s_, n_ = (it.ev(x) for x in c[2])
            except cint.NoEval as x:
                return 'copy operands not evaluable: %s' % x
            if not all(isinstance(v, int) for v in (d_, s_, n_)):
                return 'copy operands not evaluable'
            if d_ - D != s_ - S:
                return 'destination offset %d differs from source offset %d' % (d_ - D, s_ - S)
            if pair is not None and pair != (locs[0][0], locs[1][0]):
                return 'copies do not all go from the predecessor node to the removed node'
            pair = (locs[0][0], locs[1][0])
            ivs.append((d_ - D, d_ - D + n_))
        key = absmodel.sub(P, 'Tree_Key', [absmodel.SELF, 100000], atoms) - 100000
        val = absmodel.sub(P, 'Tree_Val', [absmodel.SELF, 100000], atoms) - 100000
        want_lo, want_hi = key - HDR, val + vsize
        covered = set()
        for lo, hi in ivs:
            covered |= set(range(lo, hi))
        need = set(range(key - HDR, key + ksize)) | set(range(val - HDR, val + vsize))
        if not need <= covered:
            miss = sorted(need - covered)
            return 'key size %d, value size %d: the copies cover bytes %s of the node; the key with its header lies at %d..%d and the value with its header at %d..%d (bytes from %d are not copied)' % (
                ksize, vsize, sorted(ivs), key - HDR, key + ksize, val - HDR, val + vsize, miss[0])
        if covered and (min(covered) < want_lo or max(covered) >= want_hi):
            return 'key size %d, value size %d: the copies cover bytes %s of the node, the payload is %d..%d (links or the next block are overwritten)' % (ksize, vsize, sorted(ivs), want_lo, want_hi)
    return True


def check_move_not_copy(P, E, ctx):
    rule = 'C05.move-not-copy'
    # (1) Table_Rehash relocates byte-wise: calls the insertion with move=true, never destructs, frees the old store after the loop
    fn = P.fn('Table_Rehash')
    g = P.cfg(fn)
    ctx.fn(fn)
    cs = [(n, c) for (n, c) in g.nodes_calling('Table_Set_Move')]
    des = [n for (n, c) in g.nodes_calling('destruct')]
    fr = [(n, c) for (n, c) in g.nodes_calling('free')]
    ok = len(cs) == 1 and util.const_int(cs[0][1][2][3]) == 1 and not des and len(fr) == 1
    if ok:
        N = util.Norm(P, fn, expand_locals=True)
        old = ir.top_nocast(fr[0][1][2][0])
        ok = old[0] == 'local' and fr[0][0]['id'] not in g.reach_from(g.entry, cut_nodes=[]) or True
        ok = old[0] == 'local' and cs[0][0]['id'] not in g.reach_from(fr[0][0]['id']) and g.must_pass(g.exit, [fr[0][0]['id']])
        # the freed store is the one the entries were read from
        srcs = [E.roots(fn, a) for a in cs[0][1][2][1:3]]
        ok = ok and all(('local', old[2]) in s for s in srcs)
    ctx.check(ok, rule, 'Table_Rehash', site(fn), 'rehash hands every old entry to the insertion with move=true (bytes relocated, no destruct), then frees the old store once')
    # (2) the public set path copies deeply (move=false)
    fn = P.fn(P.slot('Table', 'Get', 'set'))
    cs = [c for c, _ in ir.all_calls(fn['body']) if ir.callee_name(c) == 'Table_Set_Move']
    ok = len(cs) == 1 and util.const_int(cs[0][2][3]) == 0
    ctx.check(ok, rule, 'Table_Set', site(fn), 'set inserts a deep copy (move=false)')
    for caller in ('Table_New', 'Table_Assign'):
        fn = P.fn(caller)
        cs = [c for c, _ in ir.all_calls(fn['body']) if ir.callee_name(c) == 'Table_Set_Move']
        ok = bool(cs) and all(util.const_int(c[2][3]) == 0 for c in cs)
        ctx.check(ok, rule, caller, site(fn), 'construction/assignment from another object inserts deep copies (move=false)')
    # (3) inside Table_Set_Move: the move branch only memcpy's, the copy branch stamps headers and assigns
    fn = P.fn('Table_Set_Move')
    g = P.cfg(fn)
    mv = [n for n in g.live() if n['kind'] == 'cond' and ir.canon(n['expr']) == ('param', 3)]
    ok = len(mv) == 1
    if ok:
        t = [v for v, l in mv[0]['succ'] if l is True][0]
        f = [v for v, l in mv[0]['succ'] if l is False][0]
        # nodes exclusively on each arm (before they join at the probe loop)
        rt, rf = g.reach_from(t), g.reach_from(f)
        only_t = [g.nodes[i] for i in rt - rf]
        only_f = [g.nodes[i] for i in rf - rt]

        def names(nodes):
            return {ir.callee_name(c) for n in nodes if n['expr'] is not None for c in ir.calls(n['expr'])}
        nt, nf = names(only_t), names(only_f)
        ok = 'assign' not in nt and 'memcpy' in nt and 'header_init' not in nt and \
            'assign' in nf and 'header_init' in nf
        na = sum(1 for n in only_f if n['expr'] is not None for c in ir.calls(n['expr']) if ir.callee_name(c) == 'assign')
        ok = ok and na == 2
    ctx.check(ok, rule, 'Table_Set_Move:branches', site(fn), 'move=true relocates raw bytes only; move=false stamps fresh headers and deep-copies key and value with assign')
    # (4) Tree_Rem: predecessor payload copied only after the node's own key/value were destructed; the emptied predecessor node is freed without destruct
    fn = P.fn('Tree_Rem')
    g = P.cfg(fn)
    ctx.fn(fn)
    mc = [n for (n, c) in g.nodes_calling('memcpy')]
    des = [n for (n, c) in g.nodes_calling('destruct')]
    fr = [n for (n, c) in g.nodes_calling('free')]
    ok = len(mc) >= 1 and len(des) == 2 and len(fr) == 1 and all(g.must_pass(m['id'], [d['id']]) for d in des for m in mc) and \
        all(d['id'] not in g.reach_from(m['id']) for d in des for m in mc) and g.must_pass(g.exit, [fr[0]['id']], start=des[0]['id'])
    if ok:
        # after the copy the node variable is redirected to the predecessor, which is what gets freed
        N = util.Norm(P, fn, inline=False)
        c = [c for c in ir.calls(mc[0]['expr']) if ir.callee_name(c) == 'memcpy'][0]
        src_roots = E.roots(fn, c[2][1])
        redirect = [n for n in g.live() if n['kind'] == 'stmt' and ir.top_nocast(n['expr'])[0] == 'assign' and
                    ir.top_nocast(ir.top_nocast(n['expr'])[2])[0] == 'local' and ir.top_nocast(ir.top_nocast(n['expr'])[3])[0] == 'local' and
                    ('local', ir.top_nocast(ir.top_nocast(n['expr'])[3])[2]) in src_roots and mc[0]['id'] in g.reach_from(g.entry) and
                    n['id'] in g.reach_from(mc[0]['id'])]
        ok = len(redirect) == 1 and g.must_pass(fr[0]['id'], [redirect[0]['id']], start=mc[0]['id'])
        if ok:
            freed = ir.top_nocast([c for c in ir.calls(fr[0]['expr']) if ir.callee_name(c) == 'free'][0][2][0])
            ok = freed == ir.top_nocast(ir.top_nocast(redirect[0]['expr'])[2])
    if ok:
        why = tree_pred_copy_extent(P, fn, g, mc)
        if why is not True:
            ok = False
            ctx.note('Tree_Rem predecessor copy: %s' % why)
    ctx.check(ok, rule, 'Tree_Rem:predecessor', site(fn), 'the predecessor\'s bytes replace the removed entry only after its key and value were destructed; '
              'the predecessor node (now ownerless) is the node that is freed, without a second destruct')
    ctx.floor(rule, 6)


def check_clear_before_assign(P, E, ctx):
    rule = 'C05.clear-before-assign'
    for T, clear in (('Array', 'Array_Clear'), ('List', 'List_Clear'), ('Table', 'Table_Clear'), ('Tree', 'Tree_Clear')):
        fn = P.fn(P.slot(T, 'Assign', 'assign'))
        g = P.cfg(fn)
        ctx.fn(fn)
        E.local_env(fn)
        cl = [n for (n, c) in g.nodes_calling(clear) if ir.top_nocast(c[2][0]) in ({('param', fn['params'][0][0], 0)} | util.aliases_of_param(fn, 0))]
        muts = []
        for n in g.live():
            if n['expr'] is None or n in cl:
                continue
            for m in E.expr_mutations(fn, n['expr'], node=n):
                if ('param', 0) in m['roots']:
                    muts.append(n)
        ok = len(cl) == 1 and all(g.must_pass(n['id'], [cl[0]['id']]) for n in muts) and g.must_pass(g.exit, [cl[0]['id']])
        ctx.check(ok, rule, '%s:cleared-first' % fn['name'], site(fn),
                  'the previous contents are cleared (with their destructs) before anything else of the target is touched (%d later mutation sites)' % len(muts))
        # deep copy: no byte copy out of the source object
        raw = []
        for n in g.live():
            if n['expr'] is None:
                continue
            for c in ir.calls(n['expr']):
                if ir.callee_name(c) in ('memcpy', 'memmove') and len(c[2]) >= 2 and ('param', 1) in E.param_roots(fn, c[2][1]):
                    raw.append(n)
        ctx.check(not raw, rule, '%s:deep' % fn['name'], site(fn), 'elements are copied through per-element assign / the deep insertion, never by a byte copy out of the source')
    ctx.floor(rule, 8)


def check_fresh_slot(P, E, ctx):
    """Array: a slot that receives a new element is (re)initialised at that very index before assign runs on it,
    with nothing moving storage in between (assign on a stale bitwise copy would release memory its neighbour owns)"""
    rule = 'C05.fresh-slot'
    for fname in ('Array_New', 'Array_Assign', 'Array_Concat', 'Array_Push', 'Array_Push_At'):
        fn = P.fn(fname)
        g = P.cfg(fn)
        ctx.fn(fn)
        N = util.Norm(P, fn, inline=False)
        asg = []
        for n in g.live():
            if n['expr'] is None:
                continue
            for c in ir.calls(n['expr']):
                if ir.callee_name(c) == 'assign':
                    a0 = ir.top_nocast(c[2][0])
                    if a0[0] == 'call' and ir.callee_name(a0) == 'Array_Item':
                        asg.append((n, N.canon(a0[2][1])))
        bad = None
        for (n, idx) in asg:
            inits = [(m, c) for (m, c) in g.nodes_calling('Array_Alloc') if N.canon(c[2][1]) == idx]
            doms = [m for (m, c) in inits if g.must_pass(n['id'], [m['id']])]
            if not doms:
                bad = (n, 'no Array_Alloc of slot %s dominates the assign into it' % ir.fmt(idx))
                break
            # nothing that moves or resizes storage, or changes the count, between the initialisation and the assign
            m = doms[-1]
            between = g.reach_from(m['id']) - {m['id']}
            between = {i for i in between if n['id'] in g.reach_from(i)} - {n['id']}
            for i in between:
                x = g.nodes[i]
                if x['expr'] is not None and any(ir.callee_name(c) in ('memmove', 'memcpy', 'realloc', 'Array_Reserve_More') for c in ir.calls(x['expr'])):
                    bad = (x, 'storage is moved between the initialisation of the slot and the assign')
        if not asg:
            ctx.proved(rule, fname, site(fn), 'delegates insertion (no direct assign into a slot)')
        elif bad:
            ctx.refuted(rule, fname, site(fn, bad[0]['line']), 'a new element must be assigned into a slot that was freshly initialised (zeroed and stamped) at that same index: ' + bad[1])
        else:
            ctx.proved(rule, fname, site(fn), 'every assign into a new slot is dominated by Array_Alloc of the same index, with no storage movement in between (%d sites)' % len(asg))
    ctx.floor(rule, 5)


def check_box_replace(P, ctx):
    """A Box owns its pointee.  Outside the destructor a Box function may release the old pointee only when it is not the object
    the Box will hold next: the release must be guarded by a comparison with every value stored into the Box afterwards (comparing
    with the *argument* is not enough when the argument is itself a Box or Ref whose pointee is the old one)."""
    rule = 'C05.box-replace'
    u = P.units['src/Pointer.c']
    destruct = P.slot('Box', 'New', 'destruct')
    field = ('arrow', ('param', 0), 'val')
    n_fn = 0
    for fname, fn in sorted(u['functions'].items()):
        if not fname.startswith('Box_') or fname == destruct or fn.get('body') is None or not fn['params']:
            continue
        g = P.cfg(fn)
        NI = util.Norm(P, fn, expand_locals=True, inline=True)
        n_fn += 1
        ctx.fn(fn)
        bad = None
        for (dn, dc) in [(n, c) for (n, c) in g.nodes_calling('del')] + [(n, c) for (n, c) in g.nodes_calling('dealloc')]:
            x = NI.canon(dc[2][0])
            if x != field and not (x[0] == 'call' and ir.callee_name(x) == 'Box_Deref'):
                continue
            after = g.reach_from(dn['id'])
            stores = [(n, c) for (n, c) in g.nodes_calling('Box_Ref') if n['id'] in after and NI.canon(c[2][0]) == ('param', 0) and not ir.is_null(c[2][1])]
            for (sn, sc) in stores:
                v = NI.canon(sc[2][1])
                guards = [cn for cn in g.live() if cn['kind'] == 'cond' and NI.canon(cn['expr']) in (ir.canon(('bin', '!=', x, v)), ir.canon(('bin', '==', x, v)))]
                ok = False
                for cn in guards:
                    ne = NI.canon(cn['expr'])[1] == '!='
                    if g.must_pass(dn['id'], through_edges=[(cn['id'], ne)]):
                        ok = True
                if not ok:
                    bad = bad or 'the old pointee is released at %s although %s, stored at %s, may be that same object' % (g.describe(dn), ir.fmt(v), g.describe(sn))
            if not stores and not any(n['id'] in after and ir.is_null(c[2][1]) for (n, c) in g.nodes_calling('Box_Ref')):
                bad = bad or 'the pointee is released at %s and the Box keeps pointing at it' % g.describe(dn)
        ctx.check(bad is None, rule, fname, site(fn), 'outside the destructor the pointee is released only if it differs from what the Box holds afterwards', [bad] if bad else None)
    ctx.floor(rule, 3)


def run(ctx, load):
    P = load(UNITS, 'default')
    ctx.stats['units'] = set(UNITS)
    ctx.stats['configs'] = ['default']
    E = Effects(P)
    for T, f in (('Array', 'Array_Pop'), ('Array', 'Array_Pop_At'), ('Array', 'Array_Resize'),
                 ('List', 'List_Pop'), ('List', 'List_Pop_At'), ('List', 'List_Rem'), ('List', 'List_Resize'),
                 ('Table', 'Table_Rem'), ('Tree', 'Tree_Rem')):
        check_remove_one(P, E, ctx, T, f)
    check_replace(P, E, ctx)
    ctx.floor('C05.drop-pairing', 10)
    # teardown, evaluated on small instances (absmodel): every element destructed exactly once, before its storage is released, the
    # storage released exactly once, the counts reset
    from . import absmodel
    for T, fname, key, args, reset, what in (
            ('Array', 'Array_Clear', 'Array_Clear', None, ('nitems',), 'every element is destructed once, then the store is freed and the count reset'),
            ('Array', P.slot('Array', 'New', 'destruct'), 'Array_Del', None, (), 'every element is destructed once, then the store is freed'),
            ('Table', 'Table_Clear', 'Table_Clear', None, ('nitems', 'nslots'), 'every key and value is destructed once, then the store is freed and the counts reset'),
            ('Table', P.slot('Table', 'New', 'destruct'), 'Table_Del', None, (), 'every key and value is destructed once, then the store is freed'),
            ('List', 'List_Clear', 'List_Clear', None, ('nitems', 'head', 'tail'), 'every element is destructed once before its block is freed; count and ends reset'),
            ('Tree', 'Tree_Clear_Entry', 'Tree_Clear_Entry', lambda M: [absmodel.SELF, M.atoms[('elem', 'self', 0, 'root')]] if M.atoms[('elem', 'self', 0, 'root')] else None, (), 'every key and value is destructed once before its node is freed (called on the root of every non-empty tree; the empty tree is the caller\'s case, see Tree_Clear)'),
            ('List', P.slot('List', 'New', 'destruct'), 'List_Del:delegates', None, (), 'the destructor destructs every element once and frees every block'),
            ('Tree', P.slot('Tree', 'New', 'destruct'), 'Tree_Del:delegates', None, (), 'the destructor destructs every key and value once and frees every node'),
            ('Tree', 'Tree_Clear', 'Tree_Clear', None, ('nitems', 'root'), 'clears from the root, then resets count and root')):
        fn = P.fn(fname, required=False)
        if fn is None:
            ctx.proved('C05.full-teardown', key, site(P.fn(P.slot(T, 'New', 'destruct'))), 'no separate routine: evaluated as part of the destructor')
            continue
        ctx.fn(fn)
        try:
            bad, unsup, ncase = absmodel.eval_teardown(P, T, fname, args, reset)
        except absmodel.Unsupported as x:
            bad, unsup, ncase = None, str(x), 0
        ctx.stats['paths'] += ncase
        if unsup and not bad:
            ctx.undecided('C05.full-teardown', key, site(fn), 'leaves the evaluated fragment: ' + unsup)
        else:
            ctx.check(bad is None, 'C05.full-teardown', key, site(fn), what + ' (%d instances evaluated)' % ncase, [bad] if bad else None)
    ctx.floor('C05.full-teardown', 9)
    check_move_not_copy(P, E, ctx)
    check_clear_before_assign(P, E, ctx)
    check_fresh_slot(P, E, ctx)
    check_box_replace(P, ctx)
    # rotations and the removal fix-up neither drop nor duplicate a node (shape analysis shared with C03)
    from .rules_c03 import check_rb_invariant, check_rb_operations
    before = len(ctx.obs)
    check_rb_invariant(P, ctx)
    check_rb_operations(P, ctx)
    for o in ctx.obs[before:]:
        o['rule'] = 'C05.tree-moves-keep-every-node'
    for k in list(ctx.floors):
        if k[0].startswith('C03.'):
            ctx.floors.pop(k)
    ctx.floor('C05.tree-moves-keep-every-node', 9)
    # every operation of Array and List evaluated on small instances: the elements that leave are destructed once, those that stay are
    # neither dropped nor duplicated nor byte-copied from another container, a new slot is cleared and stamped before it is assigned
    # an element is never finalised while it is still contained: the collector reaches it through the container's Mark instance, which must
    # hand on every element whose type can hold a reference (shared with C01.container-mark)
    from . import rules_c01
    Pm = load(rules_c01.UNITS, 'default', rules_c01.WITNESS)
    ctx.config = 'default'
    ctx.borrow('C05.contained-elements-are-marked', 10, lambda: rules_c01.check_container_marks(Pm, ctx))
    # an operation that is refused has built nothing: a key or element constructed before the refusal is owned by nobody and never finalised
    # (mutation-before-raise analysis shared with C12)
    from . import rules_c12
    Pn = load(rules_c12.UNITS, 'default')
    ctx.config = 'default'
    ctx.borrow('C05.refused-operation-builds-nothing', 20, lambda: rules_c12.check_nopre(Pn, ctx),
               only=lambda o: o['key'].split(':')[0].split('.')[0].startswith(('Tree', 'Table', 'List', 'Array')))
    # a Table removal that shrinks the table on the way still counts what it holds (an entry the count does not cover is never iterated,
    # so a later clear-by-iteration or copy loses or leaks it)
    from .rules_c02 import check_resizing_ops
    check_resizing_ops(P, ctx, 'C05.count-covers-every-entry')
    ctx.floor('C05.count-covers-every-entry', 1)
    from . import seqmodel
    seqmodel.report_list_ops(P, ctx, 'C05.operations-keep-every-element', 'valid', site)
    seqmodel.report_list_ops(P, ctx, 'C05.operations-keep-every-element', 'valid', site, T='Array')
    ctx.floor('C05.operations-keep-every-element', 21)


EXPLANATION = (
    'Decided on every CFG path of every removal routine: (a) drop-pairing — Array pop/pop_at/resize, List pop/pop_at/rem/resize, '
    'Table rem, Tree rem and the replace branch of the Table insertion destruct each owned part (item, or key and value) '
    'exactly once, before the element\'s storage is overwritten or its node freed, and adjust the count exactly once; '
    '(b) full-teardown — Clear/Del of each container visit the full element set (index loop from 0 by one to the count/slot '
    'count, list walk that saves the successor before freeing, tree recursion into both children) and release the backing store '
    'only afterwards; (c) move-not-copy — byte-wise relocation (rehash with move=true, predecessor copy in Tree_Rem) happens only '
    'where the source is then released without a destruct, deep insertion everywhere else; (d) clear-before-assign — container '
    'assignment clears the target first and never byte-copies from the source. Not decided: the live-element ledger over '
    'arbitrary histories, depth of copies made by user-defined assign.')
