"""C20 — File streams refuse use when closed, close exactly once, and delegate to stdio."""
from . import ir, util
from .report import site
from .rules_c12 import guards_of, dominated_by_guard, throw_only, succ_of

UNITS = ['src/File.c', 'src/Start.c', 'src/Exception.c']
WITNESS = '/verif/witness/macros.c'
STDIO_HANDLE_ARG = {'fclose': 0, 'pclose': 0, 'fseek': 0, 'ftell': 0, 'fflush': 0, 'feof': 0,
                    'fread': 3, 'fwrite': 3, 'vfprintf': 0, 'vfscanf': 0, 'fprintf': 0, 'fscanf': 0,
                    'fgetc': 0, 'fputc': 1, 'fgets': 2, 'fputs': 1, 'rewind': 0, 'fileno': 0, 'ferror': 0,
                    'clearerr': 0, 'setvbuf': 0, 'ungetc': 1, 'getc': 0, 'putc': 1}
KINDS = {'File': ('file', 'fclose', 'fopen'), 'Process': ('proc', 'pclose', 'popen')}
SLOT_MEMBERS = [('Stream', m) for m in ('sopen', 'sclose', 'sseek', 'stell', 'sflush', 'seof', 'sread', 'swrite')] + \
               [('Format', 'format_to'), ('Format', 'format_from'), ('Start', 'start'), ('Start', 'stop'),
                ('Start', 'join'), ('Start', 'running'), ('New', 'construct_with'), ('New', 'destruct')]
DELEG = {  # member -> (stdio function, expected argument pattern, failure test on the result)
    'sseek': ('fseek', ('H', ('param', 1), ('param', 2)), 'nonzero'),
    'stell': ('ftell', ('H',), 'minus1'),
    'sflush': ('fflush', ('H',), 'nonzero'),
    'seof': ('feof', ('H',), None),
    'sread': ('fread', (('param', 1), ('param', 2), ('int', 1), 'H'), 'short'),
    'swrite': ('fwrite', (('param', 1), ('param', 2), ('int', 1), 'H'), 'short'),
    'format_to': ('vfprintf', ('H', ('param', 2), ('param', 3)), None),
    'format_from': ('vfscanf', ('H', ('param', 2), ('param', 3)), None),
}


def handle_expr(fn, field):
    """canonical forms denoting self's handle field"""
    selfs = {('param', fn['params'][0][0], 0)} | util.aliases_of_param(fn, 0)
    return {ir.canon(('arrow', s, field)) for s in selfs}


def check_type(P, ctx, T):
    field, closer, opener = KINDS[T]
    seen = set()
    for (C, m) in SLOT_MEMBERS:
        fname = P.slot(T, C, m, required=False)
        if not fname or fname in seen:
            continue
        seen.add(fname)
        fn = P.fn(fname)
        g = P.cfg(fn)
        ctx.fn(fn)
        H = handle_expr(fn, field)

        def null_pred(c, n):
            if c[0] == 'bin' and c[1] in ('==', '!=') and ((c[2] == ('int', 0) and c[3] in H) or (c[3] == ('int', 0) and c[2] in H)):
                return c[1] == '=='
            if c in H:
                return False      # `if (f->file)`: the false branch is the closed one
            return None
        guards = guards_of(g, null_pred)
        # ---- closed-guard: every stdio use of the handle is behind a closed test
        for n in g.live():
            if n['expr'] is None:
                continue
            for c in ir.calls(n['expr']):
                nm = ir.callee_name(c)
                if nm not in STDIO_HANDLE_ARG:
                    continue
                hi = STDIO_HANDLE_ARG[nm]
                if hi >= len(c[2]) or ir.canon(c[2][hi]) not in H:
                    continue
                ctx.stats['call_sites'] += 1
                key = '%s:%s' % (fname, nm)
                thr = dominated_by_guard(g, n['id'], guards, 'IOError')
                if thr is None:
                    # accept a non-null guard without throw (e.g. destructor: close only when open)
                    nn = [gd for gd in guards if g.must_pass(n['id'], through_edges=[(gd[0]['id'], not gd[1])])]
                    if nn:
                        ctx.proved('C20.closed-guard', key, site(fn, n['line']), '%s on the handle runs only when it is open' % nm)
                    else:
                        ctx.refuted('C20.closed-guard', key, site(fn, n['line']),
                                    '%s(%s) can be reached with a closed (NULL) handle: no `handle is NULL -> throw(IOError)` test '
                                    'dominates it (every sibling operation has one)' % (nm, ir.fmt(c[2][hi])),
                                    ['call: %s' % g.describe(n)])
                else:
                    ctx.proved('C20.closed-guard', key, site(fn, n['line']), '%s is dominated by the closed-handle test that raises IOError' % nm)
        # ---- delegation
        if (C, m) and m in DELEG and P.slot(T, C, m, required=False) == fname:
            lib, pattern, failtest = DELEG[m]
            cs = [(n, c) for n in g.live() if n['expr'] is not None for c in ir.calls(n['expr']) if ir.callee_name(c) == lib]
            key = '%s.%s' % (T, m)
            in_cond = bool(cs) and cs[0][0]['kind'] == 'cond'
            ok = len(cs) == 1
            detail = None
            if ok:
                n, c = cs[0]
                args = [ir.canon(a) for a in c[2]]
                ok = len(args) == len(pattern)
                for a, p in zip(args, pattern):
                    if p == 'H':
                        ok = ok and a in H
                    else:
                        ok = ok and a == p
                detail = ['call: %s' % g.describe(n)]
                if ok and not g.must_pass(g.exit, [n['id']]):
                    ok = False
                    detail.append('a normal exit is reachable without calling %s (the operation is silently skipped on that path)' % lib)
            ctx.check(ok, 'C20.delegation', key + ':call', site(fn), '%s maps to %s on the object\'s own handle with its arguments in order' % (m, lib), detail)
            if ok and failtest:
                n, c = cs[0]
                res = None
                if n.get('decl'):
                    res = ('local', n['decl']['name'])
                conds = [x for x in g.live() if x['kind'] == 'cond' and ((res is not None and util.mentions(ir.canon(x['expr']), lambda y: y == res)) or
                                                                       any(ir.callee_name(c2) == lib for c2 in ir.calls(x['expr'])))]
                thr = False
                after = g.reach_from(n['id']) | {n['id']}
                for t in g.live():
                    if t['kind'] == 'term' and t['why'] == ('throw', 'IOError') and t['id'] in after and conds and \
                            g.must_pass(t['id'], [x['id'] for x in conds]):
                        thr = True
                ctx.check(thr, 'C20.delegation', key + ':error', site(fn), 'a failure result of %s is translated to IOError' % lib)
            if ok and m in ('stell', 'sread', 'swrite', 'seof', 'format_to', 'format_from'):
                n, c = cs[0]
                rets = [x for x in g.live() if x['kind'] == 'ret']
                if n.get('decl'):
                    res = ('local', n['decl']['name'])
                    good = bool(rets) and all(ir.canon(x['expr']) == res for x in rets)
                else:
                    # the returned expression is the call itself (modulo conversions), not a combination with something else
                    good = bool(rets) and all(x['expr'] is not None and ir.canon(x['expr']) == ir.canon(c) for x in rets) and n['kind'] == 'ret'
                ctx.check(good, 'C20.delegation', key + ':result', site(fn), 'the value returned is %s\'s result' % lib)
    # ---- close-once, evaluated (cint): the close function, the destructor and open, for an open / a closed object and a close call
    # that succeeds / reports an error.  The stream is disposed of by fclose/pclose whatever they return, so after the call the handle
    # must be NULL on *every* exit, raising ones included; nothing closes a stream that is not open; open on an open object closes the old
    # stream first.
    from . import cint
    closef = P.slot(T, 'Stream', 'sclose')
    delf = P.slot(T, 'New', 'destruct')
    openf = P.slot(T, 'Stream', 'sopen')
    HND, NEWH = 70000, 71000

    def run(fname, handle, err, open_ok=True, extra=(), other_err=0):
        fn_ = P.fn(fname)
        ev_ = []

        def call(nm, e, it):
            if nm in ('fflush', 'fseek', 'ftell', 'ferror', 'feof', 'fileno', 'clearerr', 'fsync'):
                # any other library call on the stream on the way: it succeeds, or (other_err) reports a failure
                return -1 if other_err else 0
            if nm == closer:
                ev_.append(('close', it.ev(e[2][0])))
                return err
            if nm == opener:
                ev_.append(('open',))
                return NEWH if open_ok else 0
            if nm == 'freopen':
                # C: the stream is closed whatever happens; on success the same FILE object is the new stream, on failure it is gone
                st_ = it.ev(e[2][2])
                ev_.append(('close', st_))
                ev_.append(('open',))
                return st_ if open_ok else 0
            if nm == 'c_str':
                return 7300
            raise cint.NoEval('call %s' % nm)
        atoms = {('global', 'NULL'): 0, ('elem', 'self', 0, field): handle}
        it = cint.CInt(P, fn_, atoms=atoms, call=call, recurse=True, strict=True)
        it.atoms = atoms
        r = it.run([('ep', 'self', 0)] + list(extra))
        return r, ev_, atoms.get(('elem', 'self', 0, field))
    res = {'close': None, 'del': None, 'reopen': None, 'openfail': None}
    unsup = None
    for handle in (0, HND):
        for err in (0, 1):
            lab = '%s object, %s %s' % ('open' if handle else 'closed', closer, 'reports an error' if err else 'succeeds')
            # close
            r, ev_, h = run(closef, handle, err)
            if r[0] == 'stuck':
                unsup = unsup or 'close, %s: %s' % (lab, r[1])
            elif handle == 0:
                if not (r[0] == 'term' and r[1] == ('throw', 'IOError') and not ev_):
                    res['close'] = res['close'] or '%s: %s' % (lab, 'a stream is closed' if ev_ else 'no IOError')
            else:
                okc = ev_ == [('close', HND)] and h == 0 and ((r[0] == 'ret') if not err else (r[0] == 'term' and r[1] == ('throw', 'IOError')))
                if not okc:
                    res['close'] = res['close'] or '%s: calls %s, the handle is %s afterwards, %s' % (lab, ev_ or 'nothing', 'NULL' if h == 0 else 'still set (the next close hits the disposed stream)',
                                                                                                   'returns' if r[0] == 'ret' else 'raises %s' % (r[1][1] if isinstance(r[1], tuple) else r[1]))
                # ... and when another library call made on the way (a flush before the close) reports a failure: the stream is still closed
                # once and the handle cleared, or close, del and the with exit all leave the descriptor open for good
                r, ev_, h = run(closef, handle, err, other_err=1)
                if r[0] == 'stuck':
                    unsup = unsup or 'close, %s: %s' % (lab, r[1])
                elif not (ev_ == [('close', HND)] and h == 0):
                    res['close'] = res['close'] or '%s, a library call made before it reports a failure: calls %s, the handle is %s afterwards' % (lab, ev_ or 'no ' + closer, 'NULL' if h == 0 else 'still set: the stream is never closed')
            # destructor
            r, ev_, h = run(delf, handle, err)
            if r[0] == 'stuck':
                unsup = unsup or 'destructor, %s: %s' % (lab, r[1])
            else:
                want = [('close', HND)] if handle else []
                if ev_ != want or h != 0:
                    res['del'] = res['del'] or '%s: calls %s, the handle is %s afterwards' % (lab, ev_ or 'nothing', 'NULL' if h == 0 else 'still set')
            # open
            r, ev_, h = run(openf, handle, err, True, [7400, 7500])
            if r[0] == 'stuck':
                unsup = unsup or 'open, %s: %s' % (lab, r[1])
            else:
                if handle and err:
                    okc = ev_[:1] == [('close', HND)] and h in (0, NEWH) and (r[0] == 'term' or ev_ == [('close', HND), ('open',)])
                else:
                    okc = ev_ == ([('close', HND)] if handle else []) + [('open',)] and h in (NEWH, HND if handle else NEWH) and h != 0 and r[0] == 'ret'
                if not okc:
                    res['reopen'] = res['reopen'] or '%s: calls %s, the handle is %s afterwards' % (lab, ev_ or 'nothing', {0: 'NULL', NEWH: 'the new stream', HND: 'the old stream'}.get(h, h))
    for handle in (0, HND):
        r, ev_, h = run(openf, handle, 0, False, [7400, 7500])
        if r[0] == 'stuck':
            unsup = unsup or 'open failing: %s' % r[1]
        elif not (r[0] == 'term' and r[1] == ('throw', 'IOError')):
            res['openfail'] = res['openfail'] or 'a failed %s does not raise IOError' % opener
        elif h != 0:
            res['openfail'] = res['openfail'] or 'after a failed %s on an %s object the handle is %s: the previous stream was closed on the way, the next operation uses a disposed stream' % (
                opener, 'open' if handle else 'unopened', 'the old stream' if h == HND else h)
    for key, fname, what in (('close', closef, closef + ':handle-cleared'), ('del', delf, delf + ':closes-iff-open'), ('reopen', openf, openf + ':reopen-closes-first'),
                             ('openfail', openf, openf + ':open-failure')):
        fn_ = P.fn(fname)
        ctx.fn(fn_)
        text = {'close': 'after %s the handle is NULL on every exit, raising ones included (a second close cannot reach the disposed stream); a closed object raises IOError' % closer,
                'del': 'the destructor closes the stream exactly when it is open, and leaves no handle behind',
                'reopen': 'opening an already open object closes the previous stream before %s and stores the new handle' % opener,
                'openfail': 'a failed %s raises IOError' % opener}[key]
        if unsup and not res[key]:
            ctx.undecided('C20.close-once', what, site(fn_), 'leaves the evaluated fragment: ' + unsup)
        else:
            ctx.check(res[key] is None, 'C20.close-once', what, site(fn_), text, [res[key]] if res[key] else None)
    # with-block: Start.stop is the close function
    ctx.check(P.slot(T, 'Start', 'stop', required=False) == closef, 'C20.with', T + ':stop-is-close', site(P.fn(closef)),
              'leaving a with block (Start.stop) closes the stream: the Start.stop slot holds the close function')


def check_with(P, ctx):
    rule = 'C20.with'
    f = P.fn('w_with')
    g = P.cfg(f)
    conds = [n for n in g.live() if n['kind'] == 'cond']
    st = [n for (n, c) in g.nodes_calling('start_in')]
    sp = [n for (n, c) in g.nodes_calling('stop_in')]
    body = [n for (n, c) in g.nodes_calling('w_handler')]
    ok = len(conds) == 1 and len(st) == 1 and len(sp) == 1 and len(body) == 1
    if ok:
        v = ir.top_nocast(st[0]['expr'])
        ok = v[0] == 'assign' and ir.canon(conds[0]['expr']) == ir.canon(('bin', '!=', v[2], ('int', 0)))
        e = ir.top_nocast(sp[0]['expr'])
        ok = ok and e[0] == 'assign' and e[2] == v[2] and ir.top_nocast(ir.top_nocast(e[3])[2][0]) == v[2]
        ok = ok and g.must_pass(conds[0]['id'], [sp[0]['id']], start=body[0]['id']) and sp[0].get('loop_inc')
    ctx.check(ok, rule, 'with:expansion', site(f), 'with(x in S) runs the body once between start_in(S) and stop_in(x)')
    # stop_in: calls the stop slot when present, returns NULL on every path (evaluated: type with/without Start, member set/empty)
    from . import cint
    f = P.fn('stop_in')
    ctx.fn(f)
    SELF_, FN = 5000, 4242
    bad_ret, bad_call, unsup = None, None, None
    for has_inst in (0, 1):
        for has_member in (0, 1):
            events = []

            def call(nm, e, it, has_inst=has_inst, events=events):
                if nm is None:
                    events.append((it.ev(e[1]), [it.ev(x) for x in e[2]]))
                    return 0
                if nm == 'instance':
                    if it.ev(e[2][0]) != SELF_ or ir.top_nocast(e[2][1]) != ('global', 'Start'):
                        events.append(('instance of something else', []))
                    return ('ep', 'inst', 0) if has_inst else 0
                raise cint.NoEval('call %s' % nm)
            atoms = {('global', 'NULL'): 0, ('elem', 'inst', 0, 'stop'): FN if has_member else 0, ('elem', 'inst', 0, 'start'): 1111, ('elem', 'inst', 0, 'join'): 2222,
                     ('elem', 'inst', 0, 'running'): 3333}
            r = cint.CInt(P, f, atoms=atoms, call=call).run([SELF_])
            label = 'type %s' % ('without Start' if not has_inst else ('whose Start has no stop member' if not has_member else 'with a stop function'))
            if r[0] == 'stuck':
                unsup = '%s: %s' % (label, r[1])
                continue
            if not (r[0] == 'ret' and r[1] == 0):
                bad_ret = bad_ret or '%s: %s' % (label, 'returns %s' % (r[1],) if r[0] == 'ret' else 'does not return')
            want = [(FN, [SELF_])] if has_inst and has_member else []
            if events != want:
                bad_call = bad_call or '%s: calls %s' % (label, events or 'nothing')
    if unsup and not (bad_ret or bad_call):
        ctx.undecided(rule, 'stop_in:returns-null', site(f), 'stop_in leaves the evaluated fragment: ' + unsup)
        ctx.undecided(rule, 'stop_in:calls-stop', site(f), 'stop_in leaves the evaluated fragment: ' + unsup)
    else:
        ctx.check(bad_ret is None, rule, 'stop_in:returns-null', site(f), 'stop_in returns NULL on every path, so the with loop runs its body exactly once', [bad_ret] if bad_ret else None)
        ctx.check(bad_call is None, rule, 'stop_in:calls-stop', site(f), 'stop_in invokes the Start.stop member of the object\'s own type on the object (once, when the type has one; nothing else)',
                  [bad_call] if bad_call else None)
    ctx.floor(rule, 5)


def run(ctx, load):
    P = load(UNITS, 'default', [WITNESS])
    ctx.stats['units'] = set(UNITS) | {'witness/macros.c'}
    ctx.stats['configs'] = ['default']
    for T in ('File', 'Process'):
        check_type(P, ctx, T)
    check_with(P, ctx)
    ctx.floor('C20.closed-guard', 18)
    ctx.floor('C20.delegation', 30)
    ctx.floor('C20.close-once', 8)
    # text written to a File with print_to is read back with scan_from: every literal of the format — blanks too, which %c, %[ and a quoted
    # String do not skip — is matched against the input, and every conversion goes through the File's format_from (shared with C15 / C14)
    from . import rules_c15, rules_c14
    Ps = load(rules_c15.UNITS, 'default')
    ctx.config = 'default'
    ctx.borrow('C20.formatted-read-back', 8, lambda: rules_c15.check_scan(Ps, ctx))
    ctx.borrow('C20.formatted-write', 8, lambda: rules_c14.check_print(Ps, ctx))


EXPLANATION = (
    'Decided: (a) closed-guard — in every function stored in the Stream/Format/Start/New slots of File and Process, each stdio '
    'call that receives the object\'s handle field is dominated by a `handle is NULL -> throw(IOError)` test (or, in the '
    'destructor, by a non-null guard); (b) close-once — after fclose/pclose every normal exit clears the handle, the destructor '
    'closes exactly when open, open closes a previous stream first and raises IOError on failure; (c) with — the macro expansion '
    'runs the body once between start_in/stop_in, stop_in returns NULL and calls Start.stop, whose slot is the close function; '
    '(d) delegation — seek/tell/flush/eof/read/write/format map onto fseek/ftell/fflush/feof/fread/fwrite/vfprintf/vfscanf on '
    'the object\'s own handle with arguments in order, failure results are translated to IOError and the result is returned. '
    'Not decided: byte-for-byte round trip, buffering and positions (stdio\'s behaviour).')
