"""The collector's registry as a finite set, evaluated.

A registry of 5 slots is a list of entries (pointer, stored hash, root flag, mark) addressed as `gc->entries[i]`; the hash of a pointer
is whatever the scenario says (GC_Hash is answered by the model), GC_Probe and everything else is the library's source evaluated by
cint.  Starting from the empty registry, pointers whose home slots collide and wrap around the end of the table are registered with
the library's own insertion; then each is looked up, marked and removed.  After every step the slots are read back and must

  * hold exactly the registered pointers, each once, with the root flag it was registered with and the mark it has,
  * store `home slot + 1` as the hash of every entry (0 only in empty slots),
  * be *searchable*: walking from an entry's home slot to the slot it is in meets no empty slot and no resident that is closer to its
    own home than the walk is long — the two conditions under which a lookup that gives up at an empty slot or at a resident with a
    smaller probe distance still finds the entry.  (Which of two equally displaced entries comes first is not prescribed.)

A removal finalises the removed pointer once (destruct, then dealloc of what destruct returned) and decrements the count once; a
lookup and a marking change nothing but the mark; marking an unmarked registered pointer sets its mark and traces it once.
What happens for a pointer that is not registered is reported as an outcome (`finalised` or not), the rules decide what to make of it.
"""
import itertools
from . import ir, util, cint

NS = 5
GC, ENTS, FL = ('ep', 'gc', 0), ('ep', 'ents', 0), ('ep', 'fl', 0)
FIELDS = ('ptr', 'hash', 'root', 'marked')


class Mismatch(Exception):
    pass


class GCWorld:
    def __init__(self, P, homes, nslots=NS):
        self.P = P
        self.homes = homes                      # pointer -> home slot
        self.ns = nslots
        self.atoms = {('global', 'NULL'): 0, ('elem', 'gc', 0, 'entries'): ENTS, ('elem', 'gc', 0, 'nslots'): nslots, ('elem', 'gc', 0, 'nitems'): 0,
                      ('elem', 'gc', 0, 'mitems'): 1000, ('elem', 'gc', 0, 'minptr'): 0, ('elem', 'gc', 0, 'maxptr'): 1 << 40,
                      ('elem', 'gc', 0, 'running'): 1, ('elem', 'gc', 0, 'freenum'): 0, ('elem', 'gc', 0, 'freelist'): 0, ('elem', 'gc', 0, 'bottom'): 0}
        self.extra_fields = [f[0] for f in P.records['GCEntry']['fields'] if f[0] not in FIELDS]
        for i in range(nslots):
            for f in FIELDS + tuple(self.extra_fields):
                self.atoms[('elem', 'ents', i, f)] = 0
        self.events = []
        # sizeof(struct GCEntry) by natural alignment of its fields
        off, al = 0, 1
        for f in P.records['GCEntry']['fields']:
            t = str(f[1])
            sz = 8 if ('*' in t or 'long' in t or t in ('var', 'size_t', 'uint64_t', 'int64_t', 'uintptr_t')) else (1 if t in ('bool', '_Bool', 'char', 'unsigned char', 'signed char') else (2 if 'short' in t else 4))
            off = (off + sz - 1) // sz * sz + sz
            al = max(al, sz)
        self.esize = (off + al - 1) // al * al
        self.atoms[('sizeof', ir.fmt(('sizeof', ('type', 'struct GCEntry'))))] = self.esize

    def slot_of(self, addr, what):
        if isinstance(addr, tuple) and addr[0] == 'ep' and addr[1] == 'ents' and 0 <= addr[2] < self.ns:
            return addr[2]
        raise Mismatch('%s something that is not a slot of the registry (%r)' % (what, addr))

    def call(self, nm, e, it):
        if nm == 'GC_Hash':
            p = it.ev(e[2][0])
            if p not in self.homes:
                raise Mismatch('hash of a pointer that is not part of the scenario')
            return self.homes[p] + self.ns * (3 + (p // 8) % 4)          # the modulo matters
        if nm in ('memset',):
            d, v, n = it.ev(e[2][0]), it.ev(e[2][1]), it.ev(e[2][2])
            i = self.slot_of(d, 'clears')
            if v != 0 or n != self.entry_size(it):
                raise Mismatch('clears %s bytes with %s: not one whole entry with zeroes' % (n, v))
            for f in FIELDS + tuple(self.extra_fields):
                self.atoms[('elem', 'ents', i, f)] = 0
            return d
        if nm in ('memcpy', 'memmove'):
            d, s_, n = it.ev(e[2][0]), it.ev(e[2][1]), it.ev(e[2][2])
            i, j = self.slot_of(d, 'copies to'), self.slot_of(s_, 'copies from')
            if n != self.entry_size(it):
                raise Mismatch('moves %s bytes of an entry of %s bytes: not the whole entry' % (n, self.entry_size(it)))
            for f in FIELDS + tuple(self.extra_fields):
                self.atoms[('elem', 'ents', i, f)] = self.atoms[('elem', 'ents', j, f)]
            return d
        if nm == 'destruct':
            self.events.append(('destruct', it.ev(e[2][0])))
            return it.ev(e[2][0])
        if nm == 'dealloc':
            self.events.append(('dealloc', it.ev(e[2][0])))
            return 0
        if nm == 'GC_Recurse':
            self.events.append(('trace', it.ev(e[2][1])))
            return 0
        raise cint.NoEval('call %s' % nm)

    def entry_size(self, it):
        return self.esize

    def run(self, fname, args, max_steps=3000):
        fn = self.P.fn(fname)
        it = cint.CInt(self.P, fn, atoms=self.atoms, call=self.call, recurse=True, max_steps=max_steps, max_depth=6, strict=True)
        it.atoms = self.atoms
        return it.run(args)

    # -- read back ----------------------------------------------------------------------------------------------------------
    def slots(self):
        return [tuple(self.atoms[('elem', 'ents', i, f)] for f in FIELDS) for i in range(self.ns)]

    def read(self):
        """({pointer: (root, marked, slot)}, problem or None)"""
        out = {}
        sl = self.slots()
        for i, (p, h, r, m) in enumerate(sl):
            if h == 0:
                if p or r or m:
                    return out, 'slot %d is marked empty (hash 0) but still holds a pointer or a flag' % i
                continue
            if p not in self.homes:
                return out, 'slot %d holds %s, which was never registered' % (i, p)
            if p in out:
                return out, 'pointer %s is registered twice (slots %d and %d)' % (self.name(p), out[p][2], i)
            if h != self.homes[p] + 1:
                return out, 'slot %d stores hash %s for a pointer whose home slot is %d (home slot + 1 expected)' % (i, h, self.homes[p])
            out[p] = (r, m, i)
        # searchable
        for p, (r, m, i) in out.items():
            home = self.homes[p]
            d = (i - home) % self.ns
            for j in range(d):
                q, hq = sl[(home + j) % self.ns][0], sl[(home + j) % self.ns][1]
                if hq == 0:
                    return out, '%s sits in slot %d, %d steps from its home slot %d, behind the empty slot %d: a lookup gives up there' % (self.name(p), i, d, home, (home + j) % self.ns)
                dq = ((home + j) - (hq - 1)) % self.ns
                if dq < j:
                    return out, '%s sits in slot %d, %d steps from its home slot %d, behind %s which is only %d steps from its own: a lookup gives up there' % (
                        self.name(p), i, d, home, self.name(q), dq)
        return out, None

    def name(self, p):
        return 'p%d(home %d)' % (p // 8, self.homes.get(p, -1))


def patterns():
    out = []
    for homes in itertools.product((0, 3, 4), repeat=3):
        out.append((list(homes), [0, 1, 2]))
    out += [([4, 4, 4, 4], [0, 1, 2, 3]), ([3, 4, 3, 0], [3, 0, 2, 1]), ([0, 0, 4, 4], [2, 0, 3, 1]), ([2, 1, 0, 4], [0, 1, 2, 3])]
    return out


_CACHE = {}


def eval_registry(P):
    """-> {'bad': {op: first mismatch}, 'unsup': {op: reason}, 'n': cases, 'unregistered_rem': set of outcomes, 'noslots_rem': outcome}
    ops: set, mem, rem, mark"""
    if id(P) in _CACHE:
        return _CACHE[id(P)]
    setf, memf, remf, markf = 'GC_Set_Ptr', None, 'GC_Rem_Ptr', 'GC_Mark_Item'
    memf = 'GC_Mem_Ptr' if P.fn('GC_Mem_Ptr', required=False) else P.slot('GC', 'Get', 'mem')
    for f in (setf, remf, markf):
        if P.fn(f, required=False) is None:
            res = {'bad': {}, 'unsup': {o: 'no function %s' % f for o in ('set', 'mem', 'rem', 'mark')}, 'n': 0, 'unregistered_rem': set(), 'noslots_rem': None}
            _CACHE[id(P)] = res
            return res
    bad = {'set': None, 'mem': None, 'rem': None, 'mark': None}
    unsup = {'set': None, 'mem': None, 'rem': None, 'mark': None}
    outcomes = set()
    ncase = 0
    ABSENT = (8 * 90, 8 * 91)
    for homes, order in patterns():
        ptrs = [8 * (10 + k) for k in range(len(homes))]
        hm = {p: h for p, h in zip(ptrs, homes)}
        hm[ABSENT[0]] = 0
        hm[ABSENT[1]] = 4
        W = GCWorld(P, hm)
        model = {}                                   # pointer -> [root, marked]
        label0 = 'pointers with home slots %s' % homes
        hist = ''

        def check(op, lab, W=W, model=model):
            got, prob = W.read()
            if prob:
                bad[op] = bad[op] or '%s: afterwards %s' % (lab, prob)
                return False
            want = {p: tuple(v) for p, v in model.items()}
            if {p: v[:2] for p, v in got.items()} != want:
                bad[op] = bad[op] or '%s: the registry now holds %s, expected %s (pointer: root flag, mark)' % (
                    lab, {W.name(p): v[:2] for p, v in sorted(got.items())}, {W.name(p): v for p, v in sorted(want.items())})
                return False
            return True

        def lookups(op, lab, W=W, model=model):
            # every registered pointer is found by the library's own lookup, the others are not
            for q in sorted(set(model) | set(ABSENT) | set(ptrs)):
                W.events = []
                before = W.slots()
                r = W.run(memf, [GC, q])
                if r[0] == 'stuck':
                    unsup['mem'] = unsup['mem'] or '%s, then mem(%s): %s' % (lab, W.name(q), r[1])
                    continue
                okq = r[0] == 'ret' and bool(r[1]) == (q in model) and W.slots() == before and not W.events
                if not okq:
                    msg = '%s, then mem(%s, %s): %s' % (lab, W.name(q), 'registered' if q in model else 'not registered',
                                                       ('returns %s' % (r[1],) if r[0] == 'ret' else 'does not return') + ('' if W.slots() == before else ', and changes the registry'))
                    bad['mem'] = bad['mem'] or msg
            return True
        try:
            for k in order:
                p = ptrs[k]
                root = k % 2
                W.events = []
                W.atoms[('elem', 'gc', 0, 'nitems')] = len(model) + 1          # the caller counts before it inserts
                r = W.run(setf, [GC, p, root])
                ncase += 1
                lab = '%s, after%s: register %s%s' % (label0, hist or ' nothing', W.name(p), ' as a root' if root else '')
                hist += ' +%s' % W.name(p)
                if r[0] == 'stuck':
                    unsup['set'] = unsup['set'] or '%s: %s' % (lab, r[1])
                    raise StopIteration
                model[p] = [root, 0]
                if r[0] != 'ret' or W.events or not check('set', lab):
                    bad['set'] = bad['set'] or '%s: %s' % (lab, 'does not return' if r[0] != 'ret' else 'finalises something')
                    raise StopIteration
                lookups('set', lab)
            # (registering a pointer a second time is not part of any property: an object is allocated once)
            # marking: an unregistered pointer, then each registered one twice
            for q in list(ABSENT) + [ptrs[k] for k in order]:
                for again in (0, 1):
                    W.events = []
                    r = W.run(markf, [GC, q])
                    ncase += 1
                    lab = '%s, after%s: mark %s%s' % (label0, hist, W.name(q), ' again' if again else '')
                    if r[0] == 'stuck':
                        unsup['mark'] = unsup['mark'] or '%s: %s' % (lab, r[1])
                        continue
                    want_ev = [('trace', q)] if (q in model and not model[q][1]) else []
                    if q in model:
                        model[q][1] = 1
                    if r[0] != 'ret' or W.events != want_ev:
                        bad['mark'] = bad['mark'] or '%s: %s' % (lab, 'does not return' if r[0] != 'ret' else 'traces %s, expected %s' % (
                            [W.name(x[1]) for x in W.events] or 'nothing', [W.name(x[1]) for x in want_ev] or 'nothing'))
                    if not check('mark', lab):
                        # (do not let a wrong mark show up again under every later step)
                        got_, _p = W.read()
                        for p_ in model:
                            if p_ in got_:
                                model[p_][1] = got_[p_][1]
            # removal: an unregistered pointer, then the registered ones in a different order
            for q in [ABSENT[0], ABSENT[1]] + [ptrs[k] for k in (order[1:] + order[:1])]:
                W.events = []
                before = W.slots()
                r = W.run(remf, [GC, q])
                ncase += 1
                lab = '%s, after%s: remove %s' % (label0, hist, W.name(q))
                if r[0] == 'stuck':
                    unsup['rem'] = unsup['rem'] or '%s: %s' % (lab, r[1])
                    raise StopIteration
                fin = W.events[:2] == [('destruct', q), ('dealloc', q)] and len(W.events) == 2
                if q not in model:
                    outcomes.add('finalised' if fin else ('nothing' if not W.events else 'other'))
                    if r[0] != 'ret' or W.slots() != before or W.atoms[('elem', 'gc', 0, 'nitems')] != len(model) or (W.events and not fin):
                        bad['rem'] = bad['rem'] or '%s (not registered): %s' % (lab, 'the registry or the count is changed' if r[0] == 'ret' else 'does not return')
                    continue
                del model[q]
                hist += ' -%s' % W.name(q)
                if r[0] != 'ret':
                    bad['rem'] = bad['rem'] or '%s: does not return' % lab
                    raise StopIteration
                if not fin:
                    bad['rem'] = bad['rem'] or '%s: %s; the removed object is finalised once (destruct, then dealloc)' % (lab, ', '.join('%s(%s)' % (x[0], W.name(x[1]) if x[1] in hm else x[1]) for x in W.events) or 'finalises nothing')
                if W.atoms[('elem', 'gc', 0, 'nitems')] != len(model):
                    bad['rem'] = bad['rem'] or '%s: the count is %s, %d pointers are registered' % (lab, W.atoms[('elem', 'gc', 0, 'nitems')], len(model))
                if not check('rem', lab):
                    raise StopIteration
                lookups('rem', lab)
        except StopIteration:
            pass
        except Mismatch as x:
            op_ = 'rem' if ' remove ' in lab else ('mark' if ' mark ' in lab else 'set')
            bad[op_] = bad[op_] or '%s: %s' % (lab, x)
    # a registry without slots
    noslots = None
    W = GCWorld(P, {8 * 10: 0}, nslots=0)
    W.events = []
    r = W.run(remf, [GC, 8 * 10])
    if r[0] == 'ret':
        noslots = 'finalised' if W.events == [('destruct', 80), ('dealloc', 80)] else ('nothing' if not W.events else 'other')
    else:
        noslots = 'stuck' if r[0] == 'stuck' else 'raises'
    r = W.run(memf, [GC, 8 * 10])
    if not (r[0] == 'ret' and not r[1]):
        bad['mem'] = bad['mem'] or 'a registry without slots: mem %s' % ('returns %s' % (r[1],) if r[0] == 'ret' else 'does not return (%s)' % (r[1],))
    # a pointer that is not registered but stands on the sweep's pending list (its owner's destructor deletes it during the sweep)
    pending = None
    W = GCWorld(P, {8 * 10: 0, 8 * 11: 0, 8 * 90: 0})
    W.atoms[('elem', 'gc', 0, 'nitems')] = 1
    if W.run(setf, [GC, 8 * 10, 0])[0] == 'ret':
        W.atoms[('elem', 'gc', 0, 'freenum')] = 2
        W.atoms[('elem', 'gc', 0, 'freelist')] = FL
        W.atoms[('elem', 'fl', 0, None)] = 8 * 11
        W.atoms[('elem', 'fl', 1, None)] = 8 * 90
        W.events = []
        r = W.run(remf, [GC, 8 * 90])
        if r[0] == 'ret':
            struck = W.atoms.get(('elem', 'fl', 1, None)) == 0 and W.atoms.get(('elem', 'fl', 0, None)) == 8 * 11
            fin = W.events == [('destruct', 8 * 90), ('dealloc', 8 * 90)]
            pending = ('finalised' if fin else ('nothing' if not W.events else 'other')) + (', struck from the list' if struck else ', left on the list')
        else:
            pending = 'stuck: %s' % (r[1],) if r[0] == 'stuck' else 'raises'
    res = {'bad': bad, 'unsup': unsup, 'n': ncase, 'unregistered_rem': outcomes, 'noslots_rem': noslots, 'pending_rem': pending}
    _CACHE[id(P)] = res
    return res


_SWEEP = {}


def eval_sweep(P):
    """GC_Sweep evaluated on small registries: pointers registered with the library's own insertion (home slots that collide and wrap), each
    one a root, marked, or neither — every combination.  Required afterwards: exactly the roots and the marked pointers are still
    registered (each findable, flags kept, marks cleared), the count matches, every other pointer was finalised exactly once (destruct,
    then dealloc of what destruct returned) and nothing else was, the pending list was big enough for what was put on it, and it is
    released with its length reset.
    -> (mismatch or None, unsupported or None, cases)"""
    if id(P) in _SWEEP:
        return _SWEEP[id(P)]
    fn = P.fn('GC_Sweep', required=False)
    if fn is None or P.fn('GC_Set_Ptr', required=False) is None:
        _SWEEP[id(P)] = (None, 'no GC_Sweep / GC_Set_Ptr', 0)
        return _SWEEP[id(P)]
    bad, unsup, ncase = None, None, 0
    pats = [([0, 0, 0], [0, 1, 2]), ([4, 4, 4], [0, 1, 2]), ([3, 4, 0], [0, 1, 2]), ([0, 3, 4], [2, 1, 0]), ([4, 4, 4, 4], [0, 1, 2, 3]), ([3, 4, 3, 0], [3, 0, 2, 1]), ([0, 0, 4, 4], [2, 0, 3, 1])]
    for homes, order in pats:
        ptrs = [8 * (10 + k) for k in range(len(homes))]
        hm = {p: h for p, h in zip(ptrs, homes)}
        for kinds in itertools.product(('garbage', 'marked', 'root', 'marked root'), repeat=len(ptrs)):
            W = GCWorld(P, hm)
            ok = True
            for n_, k in enumerate(order):
                W.atoms[('elem', 'gc', 0, 'nitems')] = n_ + 1
                r = W.run('GC_Set_Ptr', [GC, ptrs[k], int('root' in kinds[k])])
                if r[0] != 'ret':
                    ok = False
            got, prob = W.read()
            if not ok or prob:
                unsup = unsup or 'the registry could not be built with GC_Set_Ptr (see the registry operations)'
                continue
            for p, k in zip(ptrs, kinds):
                W.atoms[('elem', 'ents', got[p][2], 'marked')] = int('marked' in k)
            state = {'cap': None, 'freed': 0}
            W.events = []
            W.atoms[('elem', 'gc', 0, 'freelist')] = 0
            W.atoms[('elem', 'gc', 0, 'freenum')] = 0

            def call(nm, e, it, W=W, state=state):
                if nm == 'realloc':
                    state['cap'] = it.ev(e[2][1]) // 8
                    return FL
                if nm == 'free':
                    if it.ev(e[2][0]) == FL:
                        state['freed'] += 1
                        W.events.append(('free-list',))
                    return 0
                if nm in ('GC_Resize_Less', 'GC_Resize_More'):
                    return 0
                return W.call(nm, e, it)
            it = cint.CInt(P, fn, atoms=W.atoms, call=call, recurse=True, max_steps=6000, max_depth=6, strict=True)
            it.atoms = W.atoms
            label = 'pointers with home slots %s, %s' % (homes, ', '.join('%s %s' % (W.name(p), k) for p, k in zip(ptrs, kinds)))
            try:
                r = it.run([GC])
            except Mismatch as x:
                bad = bad or '%s: %s' % (label, x)
                continue
            ncase += 1
            if r[0] == 'stuck':
                if r[1] == 'step bound':
                    bad = bad or '%s: the sweep does not end' % label
                else:
                    unsup = unsup or '%s: %s' % (label, r[1])
                continue
            if r[0] != 'ret':
                bad = bad or '%s: the sweep does not return' % label
                continue
            keep = {p for p, k in zip(ptrs, kinds) if k != 'garbage'}
            got, prob = W.read()
            if prob:
                bad = bad or '%s: afterwards %s' % (label, prob)
                continue
            want = {p: (int('root' in k), 0) for p, k in zip(ptrs, kinds) if p in keep}
            if {p: v[:2] for p, v in got.items()} != want:
                bad = bad or '%s: afterwards the registry holds %s; the roots and marked pointers with their marks cleared are %s (pointer: root flag, mark)' % (
                    label, {W.name(p): v[:2] for p, v in sorted(got.items())}, {W.name(p): v for p, v in sorted(want.items())})
                continue
            if W.atoms[('elem', 'gc', 0, 'nitems')] != len(keep):
                bad = bad or '%s: the count is %s, %d pointers stay registered' % (label, W.atoms[('elem', 'gc', 0, 'nitems')], len(keep))
                continue
            des = [x[1] for x in W.events if x[0] == 'destruct']
            dea = [x[1] for x in W.events if x[0] == 'dealloc']
            gone = sorted(set(ptrs) - keep)
            if sorted(des) != gone or sorted(dea) != gone:
                bad = bad or '%s: finalises %s (destruct) / %s (dealloc); the unreachable pointers are %s' % (label, [W.name(x) if x in hm else x for x in des], [W.name(x) if x in hm else x for x in dea], [W.name(x) for x in gone])
                continue
            wrote = [k_[2] for k_ in W.atoms if isinstance(k_, tuple) and len(k_) == 4 and k_[0] == 'elem' and k_[1] == 'fl']
            if wrote and (state['cap'] is None or max(wrote) >= state['cap']):
                bad = bad or '%s: the pending list is written at index %d, %s entries were reserved for it' % (label, max(wrote), state['cap'])
                continue
            # (whether the list is released at once or kept for the next sweep is not prescribed; if it is released, that happens after
            # the last pending pointer was finalised)
            if state['freed'] and W.events[-1] != ('free-list',):
                bad = bad or '%s: the pending list is released before the last pending pointer is finalised' % label
    _SWEEP[id(P)] = (bad, unsup, ncase)
    return _SWEEP[id(P)]
