"""Counted-loop recognition and partial evaluation of loop headers.

A loop header (init; cond; step) over an induction variable is *evaluated* by
the analyser for small concrete values of the symbolic bound(s), giving the
visited index sequence; rules compare that with the required set. This is
robust to the spelling of the header (`i != n`, `i <= n-1`, `++i`, ...)."""
from . import ir, util
from .front import AnalysisBroken

M64 = 1 << 64


class NoEval(Exception):
    pass


def ev(e, env, unsigned=True):
    """evaluate an integer expression; env maps canonical atom (expr tuple) -> int"""
    e = ir.top_nocast(e)
    if e in env:
        return env[e]
    k = e[0]
    if k == 'int':
        return e[1]
    if k == 'zero':
        return 0
    if k == 'sizeof' and e[1][0] == 'type':
        t = e[1][1]
        if t.endswith('*'):
            return 8
        from .poly import SIZEOF
        if t in SIZEOF:
            return SIZEOF[t]
        raise NoEval('sizeof %s' % t)
    if k == 'call' and '__call__' in env:
        return env['__call__'](e, env)
    if k == 'global' and '__global__' in env:
        return env['__global__'](e)
    if k == 'un':
        if e[1] == '-':
            return -ev(e[2], env, unsigned)
        if e[1] == '!':
            return 0 if ev(e[2], env, unsigned) else 1
    if k == 'cond':
        return ev(e[2], env, unsigned) if ev(e[1], env, unsigned) else ev(e[3], env, unsigned)
    if k == 'bin':
        op = e[1]
        if op == '&&':
            return 1 if ev(e[2], env, unsigned) and ev(e[3], env, unsigned) else 0
        if op == '||':
            return 1 if ev(e[2], env, unsigned) or ev(e[3], env, unsigned) else 0
        a, b = ev(e[2], env, unsigned), ev(e[3], env, unsigned)
        if op in ('+', '-', '*'):
            r = a + b if op == '+' else (a - b if op == '-' else a * b)
            return r % M64 if unsigned else r
        if op == '/':
            if b == 0:
                raise NoEval('div0')
            if not unsigned and (a < 0) != (b < 0):
                return -(abs(a) // abs(b))        # C division truncates toward zero
            return a // b
        if op == '%':
            if b == 0:
                raise NoEval('mod0')
            if not unsigned and (a < 0 or b < 0):
                q = -(abs(a) // abs(b)) if (a < 0) != (b < 0) else abs(a) // abs(b)
                return a - q * b
            return a % b
        if unsigned:
            a %= M64
            b %= M64
        return {'<': a < b, '<=': a <= b, '>': a > b, '>=': a >= b, '==': a == b, '!=': a != b}[op] and 1 or 0
    raise NoEval('cannot evaluate %s' % ir.fmt(e))


class Loop:
    """a structured loop in a CFG: head join node, its condition nodes, body entry,
    the induction variable (if any), init / step expressions"""

    def __init__(self, g, head):
        self.g = g
        self.head = head

    def cond_nodes(self):
        out = []
        seen = set()
        stack = [v for v, _ in self.head['succ']]
        while stack:
            u = stack.pop()
            if u in seen:
                continue
            seen.add(u)
            n = self.g.nodes[u]
            if n['kind'] == 'cond' and n['line'] == self.head['line']:
                out.append(n)
                stack.extend(v for v, _ in n['succ'])
        return out


def loops_of(g):
    return [Loop(g, n) for n in g.live() if n['kind'] == 'join' and n.get('loop')]


def counted_loop(g, N, cond_node):
    """describe the counted loop controlled by cond_node (a `iv OP bound` test):
    {'iv': ('local', name, id), 'init': expr, 'cond': expr, 'steps': [nodes], 'extra_writes': [nodes]}"""
    c = ir.nocast(cond_node['expr'])
    ivs = [x for x in ir.walk(c) if x[0] == 'local']
    if not ivs:
        return None
    # the induction variable is the local that is written inside the loop
    body = g.reach_from([v for v, l in cond_node['succ'] if l is True][0], cut_nodes=[])
    cand = None
    for iv in ivs:
        writes = []
        for i in body:
            n = g.nodes[i]
            if n['expr'] is None:
                continue
            for e in util.expr_events(n['expr'], n):
                if e['t'] == 'write' and ir.top_nocast(e['lhs']) == iv and cond_node['id'] in g.reach_from(i):
                    writes.append((n, e))
        if writes:
            cand = (iv, writes)
            break
    if cand is None:
        return None
    iv, writes = cand
    # init: the unique write to iv that dominates the loop test and is not inside the loop
    inits = []
    for n in g.live():
        if n['expr'] is None or n['id'] in body and cond_node['id'] in g.reach_from(n['id']) and n['id'] != cond_node['id'] and \
                any(n is w[0] for w in writes):
            continue
        for e in util.expr_events(n['expr'], n):
            if e['t'] == 'write' and ir.top_nocast(e['lhs']) == iv and not any(n is w[0] for w in writes):
                if g.must_pass(cond_node['id'], [n['id']]):
                    inits.append((n, e))
    return {'iv': iv, 'inits': inits, 'cond': c, 'writes': writes, 'cond_node': cond_node}


def iterate(loop, env, limit=12, unsigned=True, extra_cond=None):
    """evaluate the header: returns the list of induction values for which the body runs,
    or raises NoEval. env: atom -> int for the symbolic bounds."""
    iv = loop['iv']
    if len(loop['inits']) != 1:
        raise NoEval('induction variable has %d initialisations' % len(loop['inits']))
    init_ev = loop['inits'][0][1]
    if init_ev['op'] != '=':
        raise NoEval('init op')
    if len(loop['writes']) != 1:
        raise NoEval('induction variable written %d times in the loop' % len(loop['writes']))
    step = loop['writes'][0][1]
    e = dict(env)
    v = ev(init_ev['rhs'], e, unsigned)
    out = []
    for _ in range(limit):
        e[iv] = v
        if not ev(loop['cond'], e, unsigned):
            return out
        out.append(v if not unsigned or v < (1 << 63) else v - M64)
        op = step['op']
        if op == '++':
            v = v + 1
        elif op == '--':
            v = v - 1
        elif op == '+=':
            v = v + ev(step['rhs'], e, unsigned)
        elif op == '-=':
            v = v - ev(step['rhs'], e, unsigned)
        elif op == '=':
            v = ev(step['rhs'], e, unsigned)
        else:
            raise NoEval('step op %s' % op)
        if unsigned:
            v %= M64
    raise NoEval('does not terminate within %d iterations' % limit)


def step_on_every_iteration(g, loop):
    """from the body entry, every path back to the loop test passes the step"""
    cn = loop['cond_node']
    body = [v for v, l in cn['succ'] if l is True][0]
    steps = [w[0]['id'] for w in loop['writes']]
    # find the loop head (join) that the test belongs to: any path body -> cn without steps is a skip
    return cn['id'] not in g.reach_from(body, cut_nodes=steps)


def sole_exit(g, loop):
    """the loop controlled by loop['cond_node'] is left only through that test (its false edge): no second condition in the header,
    no break, no return inside — so when the header evaluation says it visits a range, every index of the range is really visited"""
    cn = loop['cond_node']
    body = [v for v, l in cn['succ'] if l is True]
    if not body:
        return False
    inside = g.reach_from(body[0], cut_nodes=[cn['id']]) | {cn['id']}
    # nodes from which the test is reachable again are in the loop; an edge from such a node to a node from which it is not is an exit
    back = {i for i in inside if cn['id'] in g.reach_from(i)} | {cn['id']}
    for i in back:
        for (v, l) in g.nodes[i]['succ']:
            if v not in back and i != cn['id']:
                if g.nodes[v]['kind'] == 'term':
                    continue        # raising is not "giving up early"
                return False
    return True
