"""Operations of the three sequence containers evaluated on small concrete instances (absmodel) against the abstract sequence.

List: the node blocks and link words are integer memory; a write is accepted only into a link word of a node of this list (the
addresses come from the type's own List_Next / List_Prev); after each operation the structure is read back from the memory —
head, next links to NULL, tail, prev links mirrored, count — and compared with the expected sequence; elements that left the
list must have been destructed once and their block freed once, elements that stay must be neither.
"""
from . import ir, util, cint, absmodel
from .absmodel import SELF, TERM, Mismatch, Unsupported


class ListWorld:
    def __init__(self, P, n):
        self.P = P
        self.M = absmodel.build(P, 'List', n)
        self.atoms = self.M.atoms
        self.words = self.M.words             # link words of the nodes
        self.elems = list(self.M.elems)
        self.block_of = {}                    # element -> block address
        self.elem_of_block = {}
        self.new = []                         # elements allocated during the operation
        self.events = []
        for el in self.elems:
            self._register_block(el)
        self.next_new = 50000

    def _free_block_addr(self, el):
        seen = []

        def call(nm, e, it):
            if nm == 'free':
                seen.append(it.ev(e[2][0]))
                return 0
            raise cint.NoEval('call %s' % nm)
        cint.CInt(self.P, self.P.fn('List_Free'), atoms=self.atoms, call=call, recurse=True).run([SELF, el])
        if len(seen) != 1:
            raise Unsupported('List_Free does not release one block')
        return seen[0]

    def _register_block(self, el):
        b = self._free_block_addr(el)
        self.block_of[el] = b
        self.elem_of_block[b] = el

    def add_node(self, el):
        """a freshly allocated node: its link words exist and are zero"""
        self.words[absmodel.sub(self.P, 'List_Next', [SELF, el], self.atoms)] = 0
        self.words[absmodel.sub(self.P, 'List_Prev', [SELF, el], self.atoms)] = 0
        self._register_block(el)
        self.new.append(el)

    def mem(self, a, it):
        if a in self.words:
            return self.words[a]
        raise Mismatch('reads a word that is no link of a node of this list')

    def memw(self, a, v, w, it):
        if a not in self.words:
            raise Mismatch('writes a word that is no link of a node of this list')
        self.words[a] = v

    def readback(self):
        """(sequence read through the next links, problems)"""
        P, atoms = self.P, self.atoms
        head, tail, cnt = atoms[('elem', 'self', 0, 'head')], atoms[('elem', 'self', 0, 'tail')], atoms[('elem', 'self', 0, 'nitems')]
        seq, seen = [], set()
        cur, prev = head, 0
        known = set(self.block_of)
        while cur != 0:
            if cur not in known:
                return seq, 'a next link (or head) points to something that is no node of the list'
            if cur in seen:
                return seq, 'the next links form a cycle'
            seen.add(cur)
            seq.append(cur)
            pv = self.words[absmodel.sub(P, 'List_Prev', [SELF, cur], atoms)]
            if pv != prev:
                return seq, 'the prev link of element %d of the new list does not point to its predecessor' % len(seq)
            prev = cur
            cur = self.words[absmodel.sub(P, 'List_Next', [SELF, cur], atoms)]
        if tail != (seq[-1] if seq else 0):
            return seq, 'tail is not the last node reached through the next links'
        if cnt != len(seq):
            return seq, 'the count is %s, %d nodes are linked' % (cnt, len(seq))
        return seq, None


def eval_list_op(P, op):
    """-> (mismatch on a valid call, mismatch on a call that must be refused, unsupported, cases)"""
    HDR = 8 * len(P.records['Header']['fields']) if 'Header' in P.records else 24
    slot = {'push': ('Push', 'push'), 'pop': ('Push', 'pop'), 'push_at': ('Push', 'push_at'), 'pop_at': ('Push', 'pop_at'),
            'rem': ('Get', 'rem'), 'mem': ('Get', 'mem'), 'get': ('Get', 'get'), 'set': ('Get', 'set'), 'resize': ('Resize', 'resize')}[op]
    fn = P.fn(P.slot('List', slot[0], slot[1]))
    OBJ, KEYOBJ = 31337, 9000
    bad, badr, unsup, ncase = None, None, None, 0
    for n in range(0, 4):
        if op in ('push',):
            variants = [None]
        elif op in ('pop',):
            variants = [None]
        elif op in ('pop_at', 'get', 'set', 'push_at'):
            variants = list(range(-n - 1, n + 1))
        elif op in ('rem', 'mem'):
            variants = list(range(n)) + ['absent'] + ([('dup', 0)] if n >= 2 else [])
        else:
            variants = list(range(0, n + 3))
        for var in variants:
            W = ListWorld(P, n)
            old = list(W.elems)
            target = None
            if op in ('rem', 'mem'):
                if var == 'absent':
                    target = set()
                elif isinstance(var, tuple):
                    target = {old[0], old[-1]}            # two elements are equal to the argument: the first one counts
                else:
                    target = {old[var]}

            def call(nm, e, it, W=W, var=var, target=target):
                if nm == 'c_int':
                    return var
                if nm == 'eq':
                    a, b = it.ev(e[2][0]), it.ev(e[2][1])
                    el = a if b == OBJ else (b if a == OBJ else None)
                    if el is None:
                        raise Mismatch('eq is applied to something that is not (an element, the argument)')
                    return int(el in target)
                if nm == 'destruct':
                    W.events.append(('destruct', it.ev(e[2][0])))
                    return it.ev(e[2][0])
                if nm == 'assign':
                    W.events.append(('assign', it.ev(e[2][0]), it.ev(e[2][1])))
                    return it.ev(e[2][0])
                if nm == 'free':
                    W.events.append(('free', it.ev(e[2][0])))
                    return 0
                if nm in ('calloc', 'malloc'):
                    W.pending = W.next_new
                    W.next_new += 10000
                    return W.pending
                if nm == 'header_init':
                    h = it.ev(e[2][0])
                    el = h + HDR
                    W.add_node(el)
                    if W.block_of[el] != getattr(W, 'pending', None):
                        raise Mismatch('the block List_Free would release for the new node is not the block that was allocated for it')
                    return el
                if nm == 'len' and it.ev(e[2][0]) == SELF:
                    return it.atoms[('elem', 'self', 0, 'nitems')]
                raise cint.NoEval('call %s' % nm)
            it = cint.CInt(P, fn, atoms=W.atoms, call=call, recurse=True, mem=W.mem, memw=W.memw, max_steps=6000, max_depth=6)
            it.atoms = W.atoms
            args = {'push': [SELF, OBJ], 'pop': [SELF], 'push_at': [SELF, OBJ, KEYOBJ], 'pop_at': [SELF, KEYOBJ], 'rem': [SELF, OBJ], 'mem': [SELF, OBJ],
                    'get': [SELF, KEYOBJ], 'set': [SELF, KEYOBJ, OBJ], 'resize': [SELF, var]}[op]
            label = 'list of %d, %s%s' % (n, op, '' if var is None else ('(%s)' % (var if not isinstance(var, tuple) else 'an argument equal to the first and the last element')))
            try:
                r = it.run(args)
            except Mismatch as x:
                bad = bad or '%s: %s' % (label, x)
                continue
            ncase += 1
            if r[0] == 'stuck':
                unsup = unsup or '%s: %s at %s' % (label, r[1], P.cfg(fn).describe(r[2]))
                continue
            # expectation
            refuse = None
            want_seq, want_ret, removed, appended = list(old), None, [], 0
            if op == 'push':
                appended = 1
            elif op == 'pop':
                if n == 0:
                    refuse = 'IndexOutOfBoundsError'
                else:
                    removed = [old[-1]]
            elif op in ('pop_at', 'get', 'set'):
                i = var + n if var < 0 else var
                if not 0 <= i < n:
                    refuse = 'IndexOutOfBoundsError'
                elif op == 'pop_at':
                    removed = [old[i]]
                elif op == 'get':
                    want_ret = old[i]
            elif op == 'push_at':
                i = var + n if var < 0 else var
                if i == 0 and var >= 0:
                    pos = 0
                elif not 0 <= i < n:
                    refuse = 'IndexOutOfBoundsError'
                    pos = None
                else:
                    pos = i
            elif op == 'rem':
                hit = [e_ for e_ in old if e_ in target]
                if not hit:
                    refuse = 'ValueError'
                else:
                    removed = [hit[0]]
            elif op == 'mem':
                want_ret = int(any(e_ in target for e_ in old))
            elif op == 'resize':
                if var < n:
                    removed = old[var:]
                else:
                    appended = var - n
            if refuse:
                if not (r[0] == 'term' and r[1] == ('throw', refuse)):
                    badr = badr or '%s: %s expected, %s' % (label, refuse, 'returns' if r[0] == 'ret' else 'raises %s' % (r[1][1] if isinstance(r[1], tuple) else r[1]))
                    continue
                seq, prob = W.readback()
                if prob or seq != old:
                    badr = badr or '%s: refused, but the list was changed first (%s)' % (label, prob or 'sequence differs')
                elif W.new or W.events:
                    badr = badr or '%s: refused, but before that %s: an element built for the list that is never stored is never finalised' % (
                        label, ', '.join(['a node is allocated'] * bool(W.new) + ['%s is called' % e_[0] for e_ in W.events]))
                continue
            if r[0] != 'ret':
                bad = bad or '%s: a valid call is refused (%s)' % (label, r[1][1] if isinstance(r[1], tuple) else r[1])
                continue
            seq, prob = W.readback()
            if prob:
                bad = bad or '%s: afterwards %s' % (label, prob)
                continue
            want_seq = [e_ for e_ in old if e_ not in removed]
            if op == 'push_at':
                if len(W.new) != 1:
                    bad = bad or '%s: %d nodes allocated' % (label, len(W.new))
                    continue
                want_seq = old[:pos] + [W.new[0]] + old[pos:]
            elif appended:
                if len(W.new) != appended:
                    bad = bad or '%s: %d nodes allocated, %d needed' % (label, len(W.new), appended)
                    continue
                want_seq = old + W.new

            def name(v):
                return 'e%d' % old.index(v) if v in old else ('new%d' % W.new.index(v) if v in W.new else str(v))
            if seq != want_seq:
                bad = bad or '%s: the list now reads %s, expected %s' % (label, [name(v) for v in seq], [name(v) for v in want_seq])
                continue
            des = [e_[1] for e_ in W.events if e_[0] == 'destruct']
            frees = [e_[1] for e_ in W.events if e_[0] == 'free']
            if sorted(des) != sorted(removed):
                bad = bad or '%s: destructs %s, the elements that leave the list are %s' % (label, [name(v) for v in des], [name(v) for v in removed])
            elif sorted(frees) != sorted(W.block_of[v] for v in removed):
                bad = bad or '%s: frees %d block(s), %d element(s) leave the list (or a block that is not theirs)' % (label, len(frees), len(removed))
            elif any(W.events.index(('free', W.block_of[v])) < W.events.index(('destruct', v)) for v in removed):
                bad = bad or '%s: a block is freed before its element is destructed' % label
            elif op in ('push', 'push_at') and ('assign', W.new[0], OBJ) not in W.events:
                bad = bad or '%s: the new element is not assigned from the argument' % label
            elif op == 'set' and W.events != [('assign', old[var + n if var < 0 else var], OBJ)]:
                bad = bad or '%s: %s' % (label, 'the element at the index is not assigned from the argument (%s)' % (W.events,))
            elif want_ret is not None and r[1] != want_ret:
                bad = bad or '%s: returns %s, expected %s' % (label, name(r[1]) if isinstance(r[1], int) and r[1] > 1 else r[1], name(want_ret) if want_ret > 1 else want_ret)
    return bad, badr, unsup, ncase


_CACHE = {}


def list_ops(P):
    """{op: (mismatch valid, mismatch refused, unsupported, cases)} for the nine List operations (memoised per program)"""
    key = id(P)
    if key not in _CACHE:
        out = {}
        for op in ('push', 'pop', 'push_at', 'pop_at', 'rem', 'mem', 'get', 'set', 'resize'):
            try:
                out[op] = eval_list_op(P, op)
            except Unsupported as x:
                out[op] = (None, None, str(x), 0)
        _CACHE[key] = out
    return _CACHE[key]


def report_list_ops(P, ctx, rule, which, site):
    """which: 'valid' or 'refused'"""
    res = list_ops(P)
    for op, (bad, badr, unsup, ncase) in res.items():
        slot = {'push': ('Push', 'push'), 'pop': ('Push', 'pop'), 'push_at': ('Push', 'push_at'), 'pop_at': ('Push', 'pop_at'),
                'rem': ('Get', 'rem'), 'mem': ('Get', 'mem'), 'get': ('Get', 'get'), 'set': ('Get', 'set'), 'resize': ('Resize', 'resize')}[op]
        fn = P.fn(P.slot('List', slot[0], slot[1]))
        ctx.fn(fn)
        if which == 'valid':
            ctx.stats['paths'] += ncase
        m = bad if which == 'valid' else badr
        if which == 'refused' and op in ('push', 'mem', 'resize'):
            continue          # these have no refused calls
        if unsup and not m:
            ctx.undecided(rule, 'List.' + op, site(fn), 'leaves the evaluated fragment: ' + unsup)
        elif which == 'valid':
            ctx.check(m is None, rule, 'List.' + op, site(fn), 'on lists of 0..3 elements, for every valid argument, the list afterwards reads (head, next links, tail, prev links, count) '
                      'as the abstract sequence; the elements that leave it are destructed once and their blocks freed once, the others untouched', [m] if m else None)
        else:
            ctx.check(m is None, rule, 'List.' + op, site(fn), 'a call that must be refused raises the documented exception with the list unchanged and nothing built for it '
                      '(no node allocated, no element assigned or destructed)', [m] if m else None)
