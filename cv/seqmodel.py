"""Operations of the three sequence containers evaluated on small concrete instances (absmodel) against the abstract sequence.

List: the node blocks and link words are integer memory; a write is accepted only into a link word of a node of this list (the
addresses come from the type's own List_Next / List_Prev); after each operation the structure is read back from the memory —
head, next links to NULL, tail, prev links mirrored, count — and compared with the expected sequence; elements that left the
list must have been destructed once and their block freed once, elements that stay must be neither.
"""
from . import ir, util, cint, absmodel
from .absmodel import SELF, TERM, Mismatch, Unsupported


MARKS = {}


class ListWorld:
    def __init__(self, P, n):
        self.P = P
        self.M = absmodel.build(P, 'List', n)
        self.atoms = self.M.atoms
        self.words = self.M.words             # link words of the nodes
        self.elems = list(self.M.elems)
        self.block_of = {}                    # element -> block address
        self.elem_of_block = {}
        self.new = []                         # elements allocated during the operation
        self.events = []
        for el in self.elems:
            self._register_block(el)
        self.next_new = 50000

    def _free_block_addr(self, el):
        seen = []

        def call(nm, e, it):
            if nm == 'free':
                seen.append(it.ev(e[2][0]))
                return 0
            raise cint.NoEval('call %s' % nm)
        cint.CInt(self.P, self.P.fn('List_Free'), atoms=self.atoms, call=call, recurse=True, strict=True).run([SELF, el])
        if len(seen) != 1:
            raise Unsupported('List_Free does not release one block')
        return seen[0]

    def _register_block(self, el):
        b = self._free_block_addr(el)
        self.block_of[el] = b
        self.elem_of_block[b] = el

    def add_node(self, el):
        """a freshly allocated node: its link words exist and are zero"""
        self.words[absmodel.sub(self.P, 'List_Next', [SELF, el], self.atoms)] = 0
        self.words[absmodel.sub(self.P, 'List_Prev', [SELF, el], self.atoms)] = 0
        self._register_block(el)
        self.new.append(el)

    def mem(self, a, it):
        if a in self.words:
            return self.words[a]
        raise Mismatch('reads a word that is no link of a node of this list')

    def memw(self, a, v, w, it):
        if a not in self.words:
            raise Mismatch('writes a word that is no link of a node of this list')
        self.words[a] = v

    def mark_here(self, what):
        """Called where an operation hands control to code outside the list (assign, destruct, eq, the cursor functions of another
        object): such code may allocate, an allocation may start a collection, and the collection marks this list *now*.  The
        list's Mark instance is evaluated on the state as it is at this moment: it must hand every node that is linked into the
        list to the callback (each once), whatever the count field says at this point."""
        P = self.P
        mk = P.slot('List', 'Mark', 'mark', required=False)
        if mk is None or getattr(self, 'in_mark', False):
            return
        head = self.atoms[('elem', 'self', 0, 'head')]
        linked, cur, guard = [], head, 0
        while cur != 0 and cur in self.block_of and guard < 20:
            linked.append(cur)
            cur = self.words.get(absmodel.sub(P, 'List_Next', [SELF, cur], self.atoms), 0)
            guard += 1
        seen = []
        FN, GC = 4242, 4300

        def call(nm, e, it):
            if nm is None:
                if it.ev(e[1]) != FN:
                    raise cint.NoEval('indirect call')
                seen.append(it.ev(e[2][1]))
                return 0
            raise cint.NoEval('call %s' % nm)
        self.in_mark = True
        try:
            snapshot = dict(self.atoms)
            it = cint.CInt(P, P.fn(mk), atoms=snapshot, call=call, recurse=True, mem=self.mem, max_steps=2000, strict=True)
            it.atoms = snapshot
            try:
                r = it.run([SELF, GC, FN])
            except Mismatch as x:
                r = ('mismatch', str(x), None)
        finally:
            self.in_mark = False
        if r[0] != 'ret' or sorted(seen) != sorted(linked):
            cnt = self.atoms[('elem', 'self', 0, 'nitems')]
            self.mark_problem = getattr(self, 'mark_problem', None) or (
                'when %s is called %d node(s) are linked and the count says %s: a collection started from there marks %s' % (
                    what, len(linked), cnt, ('%d of them' % len([v for v in seen if v in linked])) if r[0] == 'ret' else 'with an error (%s)' % (r[1],)))

    def readback(self):
        """(sequence read through the next links, problems)"""
        P, atoms = self.P, self.atoms
        head, tail, cnt = atoms[('elem', 'self', 0, 'head')], atoms[('elem', 'self', 0, 'tail')], atoms[('elem', 'self', 0, 'nitems')]
        seq, seen = [], set()
        cur, prev = head, 0
        known = set(self.block_of)
        while cur != 0:
            if cur not in known:
                return seq, 'a next link (or head) points to something that is no node of the list'
            if cur in seen:
                return seq, 'the next links form a cycle'
            seen.add(cur)
            seq.append(cur)
            pv = self.words[absmodel.sub(P, 'List_Prev', [SELF, cur], atoms)]
            if pv != prev:
                return seq, 'the prev link of element %d of the new list does not point to its predecessor' % len(seq)
            prev = cur
            cur = self.words[absmodel.sub(P, 'List_Next', [SELF, cur], atoms)]
        if tail != (seq[-1] if seq else 0):
            return seq, 'tail is not the last node reached through the next links'
        if cnt != len(seq):
            return seq, 'the count is %s, %d nodes are linked' % (cnt, len(seq))
        return seq, None


def eval_list_op(P, op):
    """-> (mismatch on a valid call, mismatch on a call that must be refused, unsupported, cases)"""
    HDR = 8 * len(P.records['Header']['fields']) if 'Header' in P.records else 24
    slot = {'push': ('Push', 'push'), 'pop': ('Push', 'pop'), 'push_at': ('Push', 'push_at'), 'pop_at': ('Push', 'pop_at'), 'concat': ('Concat', 'concat'),
            'rem': ('Get', 'rem'), 'mem': ('Get', 'mem'), 'get': ('Get', 'get'), 'set': ('Get', 'set'), 'resize': ('Resize', 'resize')}[op]
    fn = P.fn(P.slot('List', slot[0], slot[1]))
    OBJ, KEYOBJ = 31337, 9000
    bad, badr, unsup, ncase = None, None, None, 0
    marks = [None]
    for n in range(0, 4):
        if op == 'concat':
            variants = [0, 1, 2]                      # number of items the other iterable yields
        elif op in ('push',):
            variants = [None]
        elif op in ('pop',):
            variants = [None]
        elif op in ('pop_at', 'get', 'set', 'push_at'):
            variants = list(range(-n - 1, n + 1))
        elif op in ('rem', 'mem'):
            variants = list(range(n)) + ['absent'] + ([('dup', 0)] if n >= 2 else [])
        else:
            variants = list(range(0, n + 3))
        for var in variants:
            W = ListWorld(P, n)
            old = list(W.elems)
            target = None
            if op in ('rem', 'mem'):
                if var == 'absent':
                    target = set()
                elif isinstance(var, tuple):
                    target = {old[0], old[-1]}            # two elements are equal to the argument: the first one counts
                else:
                    target = {old[var]}

            def call(nm, e, it, W=W, var=var, target=target):
                if nm == 'c_int':
                    v = it.ev(e[2][0])
                    if isinstance(v, tuple) and v[0] == 'stack':
                        return v[2][0]
                    return var
                if nm == 'eq':
                    a, b = it.ev(e[2][0]), it.ev(e[2][1])
                    el = a if b == OBJ else (b if a == OBJ else None)
                    if el is None:
                        raise Mismatch('eq is applied to something that is not (an element, the argument)')
                    return int(el in target)
                if nm == 'destruct':
                    W.mark_here('a destructor')
                    W.events.append(('destruct', it.ev(e[2][0])))
                    return it.ev(e[2][0])
                if nm == 'assign':
                    W.mark_here('assign')
                    W.events.append(('assign', it.ev(e[2][0]), it.ev(e[2][1])))
                    return it.ev(e[2][0])
                if nm == 'free':
                    W.events.append(('free', it.ev(e[2][0])))
                    return 0
                if nm == 'method_at_offset' and op == 'concat':
                    return ('ep', 'iterinst', 0)
                if nm is None and op == 'concat':
                    f_ = it.ev(e[1])
                    W.mark_here('the cursor function of the other iterable')
                    if f_ == 8801:
                        return 7001 if var >= 1 else TERM
                    if f_ == 8802:
                        c_ = it.ev(e[2][1])
                        return c_ + 1 if c_ - 7000 < var else TERM
                    raise cint.NoEval('indirect call')
                if nm in ('calloc', 'malloc'):
                    W.pending = W.next_new
                    W.next_new += 10000
                    return W.pending
                if nm == 'header_init':
                    h = it.ev(e[2][0])
                    el = h + HDR
                    W.add_node(el)
                    if W.block_of[el] != getattr(W, 'pending', None):
                        raise Mismatch('the block List_Free would release for the new node is not the block that was allocated for it')
                    return el
                if nm == 'len' and it.ev(e[2][0]) == SELF:
                    return it.atoms[('elem', 'self', 0, 'nitems')]
                raise cint.NoEval('call %s' % nm)
            it = cint.CInt(P, fn, atoms=W.atoms, call=call, recurse=True, mem=W.mem, memw=W.memw, max_steps=6000, max_depth=6, strict=True)
            it.atoms = W.atoms
            W.atoms[('elem', 'iterinst', 0, 'iter_init')] = 8801
            W.atoms[('elem', 'iterinst', 0, 'iter_next')] = 8802
            args = {'push': [SELF, OBJ], 'pop': [SELF], 'push_at': [SELF, OBJ, KEYOBJ], 'pop_at': [SELF, KEYOBJ], 'rem': [SELF, OBJ], 'mem': [SELF, OBJ],
                    'get': [SELF, KEYOBJ], 'set': [SELF, KEYOBJ, OBJ], 'resize': [SELF, var], 'concat': [SELF, 7777000]}[op]
            label = 'list of %d, %s%s' % (n, op, '' if var is None else ('(%s)' % (var if not isinstance(var, tuple) else 'an argument equal to the first and the last element')))
            try:
                r = it.run(args)
            except Mismatch as x:
                bad = bad or '%s: %s' % (label, x)
                continue
            ncase += 1
            if r[0] == 'stuck':
                unsup = unsup or '%s: %s at %s' % (label, r[1], P.cfg(fn).describe(r[2]))
                continue
            # expectation
            refuse = None
            want_seq, want_ret, removed, appended = list(old), None, [], 0
            if op == 'push':
                appended = 1
            elif op == 'pop':
                if n == 0:
                    refuse = 'IndexOutOfBoundsError'
                else:
                    removed = [old[-1]]
            elif op in ('pop_at', 'get', 'set'):
                i = var + n if var < 0 else var
                if not 0 <= i < n:
                    refuse = 'IndexOutOfBoundsError'
                elif op == 'pop_at':
                    removed = [old[i]]
                elif op == 'get':
                    want_ret = old[i]
            elif op == 'push_at':
                i = var + n if var < 0 else var
                if i == 0 and var >= 0:
                    pos = 0
                elif not 0 <= i < n:
                    refuse = 'IndexOutOfBoundsError'
                    pos = None
                else:
                    pos = i
            elif op == 'rem':
                hit = [e_ for e_ in old if e_ in target]
                if not hit:
                    refuse = 'ValueError'
                else:
                    removed = [hit[0]]
            elif op == 'mem':
                want_ret = int(any(e_ in target for e_ in old))
            elif op == 'resize':
                if var < n:
                    removed = old[var:]
                else:
                    appended = var - n
            elif op == 'concat':
                appended = var
            if getattr(W, 'mark_problem', None):
                marks[0] = marks[0] or '%s: %s' % (label, W.mark_problem)
            if refuse:
                if not (r[0] == 'term' and r[1] == ('throw', refuse)):
                    badr = badr or '%s: %s expected, %s' % (label, refuse, 'returns' if r[0] == 'ret' else 'raises %s' % (r[1][1] if isinstance(r[1], tuple) else r[1]))
                    continue
                seq, prob = W.readback()
                if prob or seq != old:
                    badr = badr or '%s: refused, but the list was changed first (%s)' % (label, prob or 'sequence differs')
                elif W.new or W.events:
                    badr = badr or '%s: refused, but before that %s: an element built for the list that is never stored is never finalised' % (
                        label, ', '.join(['a node is allocated'] * bool(W.new) + ['%s is called' % e_[0] for e_ in W.events]))
                continue
            if r[0] != 'ret':
                bad = bad or '%s: a valid call is refused (%s)' % (label, r[1][1] if isinstance(r[1], tuple) else r[1])
                continue
            seq, prob = W.readback()
            if prob:
                bad = bad or '%s: afterwards %s' % (label, prob)
                continue
            want_seq = [e_ for e_ in old if e_ not in removed]
            if op == 'push_at':
                if len(W.new) != 1:
                    bad = bad or '%s: %d nodes allocated' % (label, len(W.new))
                    continue
                want_seq = old[:pos] + [W.new[0]] + old[pos:]
            elif appended:
                if len(W.new) != appended:
                    bad = bad or '%s: %d nodes allocated, %d needed' % (label, len(W.new), appended)
                    continue
                want_seq = old + W.new

            def name(v):
                return 'e%d' % old.index(v) if v in old else ('new%d' % W.new.index(v) if v in W.new else str(v))
            if seq != want_seq:
                bad = bad or '%s: the list now reads %s, expected %s' % (label, [name(v) for v in seq], [name(v) for v in want_seq])
                continue
            des = [e_[1] for e_ in W.events if e_[0] == 'destruct']
            frees = [e_[1] for e_ in W.events if e_[0] == 'free']
            if sorted(des) != sorted(removed):
                bad = bad or '%s: destructs %s, the elements that leave the list are %s' % (label, [name(v) for v in des], [name(v) for v in removed])
            elif sorted(frees) != sorted(W.block_of[v] for v in removed):
                bad = bad or '%s: frees %d block(s), %d element(s) leave the list (or a block that is not theirs)' % (label, len(frees), len(removed))
            elif any(W.events.index(('free', W.block_of[v])) < W.events.index(('destruct', v)) for v in removed):
                bad = bad or '%s: a block is freed before its element is destructed' % label
            elif op == 'concat' and [e_ for e_ in W.events if e_[0] == 'assign'] != [('assign', W.new[k_], 7001 + k_) for k_ in range(var)]:
                bad = bad or '%s: the new elements are not assigned from the items of the other iterable, in order' % label
            elif op in ('push', 'push_at') and ('assign', W.new[0], OBJ) not in W.events:
                bad = bad or '%s: the new element is not assigned from the argument' % label
            elif op == 'set' and W.events != [('assign', old[var + n if var < 0 else var], OBJ)]:
                bad = bad or '%s: %s' % (label, 'the element at the index is not assigned from the argument (%s)' % (W.events,))
            elif want_ret is not None and r[1] != want_ret:
                bad = bad or '%s: returns %s, expected %s' % (label, name(r[1]) if isinstance(r[1], int) and r[1] > 1 else r[1], name(want_ret) if want_ret > 1 else want_ret)
    MARKS[(id(P), op)] = marks[0]
    return bad, badr, unsup, ncase


_CACHE = {}


def list_ops(P, T='List'):
    """{op: (mismatch valid, mismatch refused, unsupported, cases)} for the nine operations of List / Array (memoised per program)"""
    key = (id(P), T)
    if key not in _CACHE:
        out = {}
        for op in ('push', 'pop', 'push_at', 'pop_at', 'rem', 'mem', 'get', 'set', 'resize', 'concat') + (('assign',) if T == 'Array' else ()):
            try:
                out[op] = (eval_list_op if T == 'List' else eval_array_op)(P, op)
            except Unsupported as x:
                out[op] = (None, None, str(x), 0)
        _CACHE[key] = out
    return _CACHE[key]


def report_list_ops(P, ctx, rule, which, site, T='List'):
    """which: 'valid' or 'refused'"""
    res = list_ops(P, T)
    for op, (bad, badr, unsup, ncase) in res.items():
        slot = {'push': ('Push', 'push'), 'pop': ('Push', 'pop'), 'push_at': ('Push', 'push_at'), 'pop_at': ('Push', 'pop_at'), 'concat': ('Concat', 'concat'),
                'rem': ('Get', 'rem'), 'mem': ('Get', 'mem'), 'get': ('Get', 'get'), 'set': ('Get', 'set'), 'resize': ('Resize', 'resize'), 'assign': ('Assign', 'assign')}[op]
        fn = P.fn(P.slot(T, slot[0], slot[1]))
        ctx.fn(fn)
        if which == 'valid':
            ctx.stats['paths'] += ncase
        m = bad if which == 'valid' else badr
        if which == 'refused' and op in ('push', 'mem', 'resize', 'concat', 'assign'):
            continue          # these have no refused calls
        if unsup and not m:
            ctx.undecided(rule, T + '.' + op, site(fn), 'leaves the evaluated fragment: ' + unsup)
        elif which == 'valid':
            ctx.check(m is None, rule, T + '.' + op, site(fn), ('on lists of 0..3 elements, for every valid argument, the list afterwards reads (head, next links, tail, prev links, count) '
                      'as the abstract sequence; the elements that leave it are destructed once and their blocks freed once, the others untouched') if T == 'List' else
                      ('on arrays of 0..3 elements (with and without spare capacity), for every valid argument, the first `count` slots afterwards hold the abstract sequence; '
                       'every slot touched lies inside the reservation; elements that leave are destructed once, a new element is cleared, stamped and assigned once'), [m] if m else None)
        else:
            ctx.check(m is None, rule, T + '.' + op, site(fn), 'a call that must be refused raises the documented exception with the container unchanged and nothing built for it '
                      '(no node allocated, no element assigned or destructed)', [m] if m else None)


# ---------------------------------------------------------------------------------------------------------------------------
# Array: element slots in one block.  The model keeps, per slot of the current capacity, what it holds ('e0', 'e1', ... the old
# elements; 'fresh' a slot zeroed and stamped by Array_Alloc; 'junk' uninitialised capacity).  realloc sets the capacity, memmove moves
# whole slots, Array_Alloc's memset + header_init make a slot fresh; element addresses come from Array_Item.

class ArrayWorld:
    def __init__(self, P, n, spare):
        self.P = P
        self.M = absmodel.build(P, 'Array', n)
        self.atoms = self.M.atoms
        self.atoms[('elem', 'self', 0, 'nslots')] = n + spare
        self.DATA = self.atoms[('elem', 'self', 0, 'data')]
        self.step = absmodel.sub(P, 'Array_Step', [SELF], self.atoms) if P.fn('Array_Step', required=False) else None
        it0 = absmodel.sub(P, 'Array_Item', [SELF, 0], self.atoms)
        if self.step is None:
            self.step = absmodel.sub(P, 'Array_Item', [SELF, 1], self.atoms) - it0
        self.hdr = it0 - self.DATA
        self.slots = ['e%d' % k for k in range(n)] + ['junk'] * spare
        self.zeroed = set()
        self.events = []
        self.freed = False

    def restep(self):
        """the element size may have changed (assign): the bytes reserved stay what they were, the slots are counted anew"""
        P = self.P
        if P.fn('Array_Step', required=False):
            st = absmodel.sub(P, 'Array_Step', [SELF], self.atoms)
        else:
            st = absmodel.sub(P, 'Array_Item', [SELF, 1], self.atoms) - absmodel.sub(P, 'Array_Item', [SELF, 0], self.atoms)
        if st != self.step:
            k = len(self.slots) * self.step // st
            if any(x != 'junk' and not x.startswith('dead') for x in self.slots):
                raise Mismatch('the element size changes while the storage still holds elements')
            self.slots = ['junk'] * k
            self.step = st

    def slot_of_elem(self, addr, what):
        off = addr - self.DATA - self.hdr
        if off % self.step or not 0 <= off // self.step < len(self.slots):
            raise Mismatch('%s an address that is no element inside the %d reserved slots' % (what, len(self.slots)))
        return off // self.step

    def slot_start(self, addr, what):
        off = addr - self.DATA
        if off % self.step or not 0 <= off // self.step <= len(self.slots):
            raise Mismatch('%s %d bytes into the storage: not a slot boundary inside the %d reserved slots' % (what, off, len(self.slots)))
        return off // self.step


def eval_array_op(P, op):
    """-> (mismatch on a valid call, mismatch on a call that must be refused, unsupported, cases)"""
    slot = {'push': ('Push', 'push'), 'pop': ('Push', 'pop'), 'push_at': ('Push', 'push_at'), 'pop_at': ('Push', 'pop_at'), 'concat': ('Concat', 'concat'),
            'rem': ('Get', 'rem'), 'mem': ('Get', 'mem'), 'get': ('Get', 'get'), 'set': ('Get', 'set'), 'resize': ('Resize', 'resize'), 'assign': ('Assign', 'assign')}[op]
    fn = P.fn(P.slot('Array', slot[0], slot[1]))
    OBJ, KEYOBJ = 31337, 9000
    NEWTYPE = 8600
    OTHER, OTHERDATA, T_ARRAY, T_ELSE = ('ep', 'other', 0), 66000000, 5550001, 5550002
    bad, badr, unsup, ncase = None, None, None, 0
    for n in range(0, 4):
        for spare in (0, 2):
            if op in ('push', 'pop'):
                variants = [None]
            elif op == 'concat':
                # the other iterable yields 0, 1 or 2 items; it is an Array of the same element type, or something else
                variants = [(k_, t_) for k_ in (0, 1, 2) for t_ in (T_ARRAY, T_ELSE)]
            elif op == 'assign':
                # the source yields 0..3 items of an element type of the same size, a smaller or a larger one; it offers len and get, or only a cursor
                variants = [(k_, (sz_, lg_)) for k_ in (0, 1, 2, 3) for sz_ in (8, 16, 40) for lg_ in (1, 0)]
            elif op in ('pop_at', 'get', 'set'):
                variants = list(range(-n - 1, n + 1))
            elif op == 'push_at':
                variants = list(range(-n - 2, n + 2))
            elif op in ('rem', 'mem'):
                variants = list(range(n)) + ['absent'] + ([('dup', 0)] if n >= 2 else [])
            else:
                variants = list(range(0, n + 3))
            for var in variants:
                W = ArrayWorld(P, n, spare)
                old = ['e%d' % k for k in range(n)]
                target = None
                if op in ('rem', 'mem'):
                    target = set() if var == 'absent' else ({'e0', 'e%d' % (n - 1)} if isinstance(var, tuple) else {'e%d' % var})
                othertype = None
                if op in ('concat', 'assign'):
                    var, othertype = var
                    for f_ in W.P.records['Array']['fields']:
                        nm_ = f_[0] if isinstance(f_, (tuple, list)) else f_
                        if ('elem', 'self', 0, nm_) in W.atoms:
                            W.atoms[('elem', 'other', 0, nm_)] = W.atoms[('elem', 'self', 0, nm_)]
                    W.atoms[('elem', 'other', 0, 'data')] = OTHERDATA
                    W.atoms[('elem', 'other', 0, 'nitems')] = var
                    W.atoms[('elem', 'other', 0, 'nslots')] = var
                    W.atoms[('global', 'Array')] = T_ARRAY
                    W.atoms[('elem', 'iterinst', 0, 'iter_init')] = 8801
                    W.atoms[('elem', 'iterinst', 0, 'iter_next')] = 8802

                def call(nm, e, it, W=W, var=var, target=target, othertype=othertype):
                    if nm == 'c_int':
                        v = it.ev(e[2][0])
                        if isinstance(v, tuple) and v[0] == 'stack':
                            return v[2][0]
                        return var
                    if op == 'assign':
                        if nm in ('implements_method', 'implements_method_at_offset') and it.ev(e[2][0]) == OTHER:
                            return 1 if ir.fmt(e[2][1]).endswith('Iter') else othertype[1]
                        if nm == 'iter_type' and it.ev(e[2][0]) == OTHER:
                            return NEWTYPE
                        if nm == 'size' and it.ev(e[2][0]) == NEWTYPE:
                            return othertype[0]
                        if nm == 'get' and it.ev(e[2][0]) == OTHER:
                            k_ = it.ev(e[2][1])
                            k_ = k_[2][0] if isinstance(k_, tuple) and k_[0] == 'stack' else None
                            if k_ is None or not 0 <= k_ < var:
                                raise Mismatch('get on the source with an index outside it')
                            return 7001 + k_
                        if nm in ('malloc', 'calloc') or (nm == 'realloc' and (it.ev(e[2][0]) == 0 or W.freed)):
                            b = it.ev(e[2][-1]) * (it.ev(e[2][0]) if nm == 'calloc' else 1)
                            if not W.freed and W.slots:
                                raise Mismatch('a new store is allocated while the old one is still held: it is never released')
                            W.slots = []
                            W.restep()
                            if b % W.step:
                                raise Mismatch('reserves %d bytes: not a whole number of slots' % b)
                            W.slots = ['junk'] * (b // W.step)
                            W.freed = False
                            W.fresh_store = True
                            return W.DATA
                        if nm in ('memset', 'header_init', 'assign', 'realloc'):
                            W.restep()
                    if op in ('concat', 'assign'):
                        if nm == 'len' and it.ev(e[2][0]) == OTHER:
                            return var
                        if nm == 'type_of' and it.ev(e[2][0]) == OTHER:
                            return othertype
                        if nm == 'method_at_offset':
                            return ('ep', 'iterinst', 0)
                        if nm in ('iter_init', 'iter_next') and it.ev(e[2][0]) == OTHER:
                            c_ = 7000 if nm == 'iter_init' else it.ev(e[2][1])
                            return c_ + 1 if c_ - 7000 < var else TERM
                        if nm is None:
                            f_ = it.ev(e[1])
                            if f_ == 8801:
                                return 7001 if var >= 1 else TERM
                            if f_ == 8802:
                                c_ = it.ev(e[2][1])
                                return c_ + 1 if c_ - 7000 < var else TERM
                            raise cint.NoEval('indirect call')
                        if nm in ('memmove', 'memcpy'):
                            s_ = it.ev(e[2][1])
                            if isinstance(s_, int) and OTHERDATA <= s_ < OTHERDATA + 100000 and it.ev(e[2][2]) != 0:
                                raise Mismatch('the bytes of the other Array\'s elements are copied into this one: elements are assigned (a deep copy), a byte copy shares what they own')
                    if nm == 'eq':
                        a, b = it.ev(e[2][0]), it.ev(e[2][1])
                        el = a if b == OBJ else (b if a == OBJ else None)
                        if el is None:
                            raise Mismatch('eq is applied to something that is not (an element, the argument)')
                        return int(W.slots[W.slot_of_elem(el, 'compares')] in target)
                    if nm == 'destruct':
                        a = it.ev(e[2][0])
                        k_ = W.slot_of_elem(a, 'destructs')
                        W.events.append(('destruct', W.slots[k_]))
                        W.slots[k_] = 'dead-' + W.slots[k_]
                        return a
                    if nm == 'assign':
                        a = it.ev(e[2][0])
                        W.events.append(('assign', W.slot_of_elem(a, 'assigns into'), W.slots[W.slot_of_elem(a, 'assigns into')], it.ev(e[2][1])))
                        return a
                    if nm == 'free':
                        if it.ev(e[2][0]) != W.DATA:
                            raise Mismatch('frees something that is not the storage')
                        W.freed = True
                        W.slots = []
                        return 0
                    if nm == 'realloc':
                        if it.ev(e[2][0]) != W.DATA:
                            raise Mismatch('reallocates something that is not the storage')
                        b = it.ev(e[2][1])
                        if b % W.step:
                            raise Mismatch('reserves %d bytes: not a whole number of slots' % b)
                        k = b // W.step
                        W.slots = W.slots[:k] + ['junk'] * max(0, k - len(W.slots))
                        return W.DATA
                    if nm == 'memset':
                        a, v, ln = it.ev(e[2][0]), it.ev(e[2][1]), it.ev(e[2][2])
                        s0 = W.slot_start(a, 'clears from')
                        if v != 0 or ln < W.hdr + (W.step - W.hdr) or s0 >= len(W.slots) or ln > W.step:
                            raise Mismatch('memset(%d bytes) does not clear exactly one reserved slot' % ln)
                        W.zeroed.add(s0)
                        W.slots[s0] = 'zero'
                        return a
                    if nm == 'header_init':
                        h = it.ev(e[2][0])
                        s0 = W.slot_start(h, 'stamps a header')
                        if s0 >= len(W.slots) or W.slots[s0] != 'zero':
                            raise Mismatch('a header is stamped on slot %d, which was not cleared first (or lies outside the reservation)' % s0)
                        W.slots[s0] = 'fresh'
                        return h + W.hdr
                    if nm in ('memmove', 'memcpy'):
                        d, s_, ln = it.ev(e[2][0]), it.ev(e[2][1]), it.ev(e[2][2])
                        if ln % W.step:
                            raise Mismatch('moves %d bytes: not a whole number of elements' % ln)
                        k = ln // W.step
                        ds, ss = W.slot_start(d, 'moves to'), W.slot_start(s_, 'moves from')
                        if k and (ds + k > len(W.slots) or ss + k > len(W.slots)):
                            raise Mismatch('moves %d elements from slot %d to slot %d: beyond the %d reserved slots' % (k, ss, ds, len(W.slots)))
                        if nm == 'memcpy' and k and abs(ds - ss) < k:
                            raise Mismatch('memcpy of overlapping ranges')
                        W.slots[ds:ds + k] = W.slots[ss:ss + k]
                        return d
                    if nm == 'len' and it.ev(e[2][0]) == SELF:
                        return it.atoms[('elem', 'self', 0, 'nitems')]
                    raise cint.NoEval('call %s' % nm)
                it = cint.CInt(P, fn, atoms=W.atoms, call=call, recurse=True, max_steps=6000, max_depth=6, strict=True)
                it.atoms = W.atoms
                args = {'push': [SELF, OBJ], 'pop': [SELF], 'push_at': [SELF, OBJ, KEYOBJ], 'pop_at': [SELF, KEYOBJ], 'rem': [SELF, OBJ], 'mem': [SELF, OBJ],
                        'get': [SELF, KEYOBJ], 'set': [SELF, KEYOBJ, OBJ], 'resize': [SELF, var], 'concat': [SELF, OTHER], 'assign': [SELF, OTHER]}[op]
                label = 'array of %d (%d slots reserved), %s%s' % (n, n + spare, op, '' if var is None else ('(%s)' % (var if not isinstance(var, tuple) else 'an argument equal to the first and the last element')))
                if op == 'assign':
                    label = 'array of %d (%d slots reserved), assign from a source of %d items of size %d %s' % (n, n + spare, var, othertype[0], 'with len and get' if othertype[1] else 'with a cursor only')
                if op == 'concat':
                    label = 'array of %d (%d slots reserved), concat of %s yielding %d items' % (n, n + spare, 'another Array of the same element type' if othertype == T_ARRAY else 'an iterable', var)
                try:
                    r = it.run(args)
                except Mismatch as x:
                    bad = bad or '%s: %s' % (label, x)
                    continue
                ncase += 1
                if r[0] == 'stuck':
                    unsup = unsup or '%s: %s at %s' % (label, r[1], P.cfg(fn).describe(r[2]))
                    continue
                refuse, want, want_ret, removed, want_assign = None, list(old), None, [], None
                if op == 'concat':
                    want = old + ['fresh'] * var
                elif op == 'assign':
                    want = ['fresh'] * var
                    removed = list(old)
                elif op == 'push':
                    want = old + ['fresh']
                    want_assign = n
                elif op == 'pop':
                    if n == 0:
                        refuse = 'IndexOutOfBoundsError'
                    else:
                        removed, want = [old[-1]], old[:-1]
                elif op in ('pop_at', 'get', 'set'):
                    i = var + n if var < 0 else var
                    if not 0 <= i < n:
                        refuse = 'IndexOutOfBoundsError'
                    elif op == 'pop_at':
                        removed, want = [old[i]], old[:i] + old[i + 1:]
                    elif op == 'get':
                        want_ret = W.DATA + W.step * i + W.hdr
                    else:
                        want_assign = i
                elif op == 'push_at':
                    i = var + n + 1 if var < 0 else var
                    if not 0 <= i <= n:
                        refuse = 'IndexOutOfBoundsError'
                    else:
                        want = old[:i] + ['fresh'] + old[i:]
                        want_assign = i
                elif op == 'rem':
                    hit = [e_ for e_ in old if e_ in target]
                    if not hit:
                        refuse = 'ValueError'
                    else:
                        removed = [hit[0]]
                        want = [e_ for e_ in old if e_ != hit[0]]
                elif op == 'mem':
                    want_ret = int(any(e_ in target for e_ in old))
                elif op == 'resize':
                    if var < n:
                        removed, want = old[var:], old[:var]
                cnt = W.atoms[('elem', 'self', 0, 'nitems')]
                if refuse:
                    if not (r[0] == 'term' and r[1] == ('throw', refuse)):
                        badr = badr or '%s: %s expected, %s' % (label, refuse, 'returns' if r[0] == 'ret' else 'raises %s' % (r[1][1] if isinstance(r[1], tuple) else r[1]))
                    elif W.slots[:n] != old or cnt != n or W.events or W.freed:
                        badr = badr or '%s: refused, but the array was changed first (count %s, elements %s, %s)' % (label, cnt, W.slots[:n], [e_[0] for e_ in W.events])
                    continue
                if r[0] != 'ret':
                    bad = bad or '%s: a valid call is refused (%s)' % (label, r[1][1] if isinstance(r[1], tuple) else r[1])
                    continue
                got = W.slots[:cnt] if 0 <= cnt <= len(W.slots) else None
                des = [e_[1] for e_ in W.events if e_[0] == 'destruct']
                asg = [e_ for e_ in W.events if e_[0] == 'assign']
                if got is None:
                    bad = bad or '%s: the count is %s, %d slots are reserved' % (label, cnt, len(W.slots))
                elif got != want:
                    bad = bad or '%s: the first %d slots hold %s, the sequence is %s' % (label, cnt, got, want)
                elif sorted(des) != sorted(removed):
                    bad = bad or '%s: destructs %s, the elements that leave the array are %s' % (label, des, removed)
                elif op == 'assign':
                    if [(a_[1], a_[3]) for a_ in asg] != [(k_, 7001 + k_) for k_ in range(var)]:
                        bad = bad or '%s: the new elements are not assigned from the items of the source, in order (%s)' % (label, [(a_[1], a_[3]) for a_ in asg])
                    elif W.atoms[('elem', 'self', 0, 'type')] != NEWTYPE:
                        bad = bad or '%s: the element type is not the source\'s' % label
                    elif W.atoms[('elem', 'self', 0, 'nslots')] > len(W.slots):
                        bad = bad or '%s: the slot count says %s, %d slots of the new element size are reserved' % (label, W.atoms[('elem', 'self', 0, 'nslots')], len(W.slots))
                elif op == 'concat':
                    if [(a_[1], a_[3]) for a_ in asg] != [(n + k_, 7001 + k_) for k_ in range(var)]:
                        bad = bad or '%s: the new elements are not assigned from the items of the other iterable, in order (%s)' % (label, [(a_[1], a_[3]) for a_ in asg])
                elif want_assign is not None and [(a_[1], a_[3]) for a_ in asg] != [(want_assign, OBJ)]:
                    bad = bad or '%s: assigns %s; expected the argument into slot %d' % (label, [(a_[1], a_[3]) for a_ in asg], want_assign)
                elif want_assign is None and asg:
                    bad = bad or '%s: an element is assigned (%s)' % (label, asg)
                elif want_ret is not None and r[1] != want_ret:
                    bad = bad or '%s: returns %s, expected %s' % (label, r[1], want_ret)
                elif op == 'resize' and var > 0 and len(W.slots) < max(var, cnt):
                    bad = bad or '%s: %d slots reserved afterwards' % (label, len(W.slots))
    return bad, badr, unsup, ncase
