"""Front end: compilation database from the repository's own Makefile, clang JSON
AST per unit, location reconstruction, conversion to the analysis IR.

Nothing here executes library code; clang is used with -fsyntax-only.
"""
import json, os, re, subprocess, sys, hashlib, pickle, tempfile, shutil
from concurrent.futures import ProcessPoolExecutor

REPO = os.environ.get('CV_REPO', '/repo')
VERIF = os.path.dirname(os.path.dirname(os.path.abspath(__file__)))


class AnalysisBroken(Exception):
    """The analysis cannot produce a verdict (exit 2): parse failure, vanished
    anchor, construct outside the fragment a rule understands."""


# --------------------------------------------------------------------------
# compilation database

def compile_db(repo=REPO):
    """[(unit_path, [flags])] from `make -n -B`; compiler swapped for clang,
    output/-c/-g flags dropped, everything else kept."""
    try:
        out = subprocess.run(['make', '-n', '-B', '-C', repo], capture_output=True,
                             text=True, timeout=60).stdout
    except Exception as e:
        raise AnalysisBroken('make -n -B failed: %s' % e)
    db = {}
    for line in out.splitlines():
        toks = line.split()
        if len(toks) < 3 or toks[0] not in ('cc', 'gcc', 'clang') or '-c' not in toks:
            continue
        srcs = [t for t in toks[1:] if t.endswith('.c') and t.startswith('src/')]
        if len(srcs) != 1:
            continue
        flags, skip = [], False
        for t in toks[1:]:
            if skip:
                skip = False
                continue
            if t == '-o':
                skip = True
                continue
            if t in ('-c', '-g', '-ggdb', '-Wall', '-Wno-unused') or t == srcs[0]:
                continue
            flags.append(t)
        if not any(f.startswith('-std=') for f in flags):
            flags.append('-std=gnu99')
        db[srcs[0]] = flags
    if not db:
        raise AnalysisBroken('no compile commands found in `make -n -B` output')
    # the Makefile's SRC is $(wildcard src/*.c): every file must be covered
    on_disk = sorted('src/' + f for f in os.listdir(os.path.join(repo, 'src')) if f.endswith('.c'))
    missing = [f for f in on_disk if f not in db]
    if missing:
        raise AnalysisBroken('units not in compile db: %s' % missing)
    return db


CONFIGS = {
    'default': [],
    'ndebug': ['-DCELLO_NDEBUG'],
    'nocache': ['-DCELLO_CACHE'],
    'ngc': ['-DCELLO_NGC'],
    'ndebug+nocache': ['-DCELLO_NDEBUG', '-DCELLO_CACHE'],
    'ndebug+ngc': ['-DCELLO_NDEBUG', '-DCELLO_NGC'],
    'nocache+ngc': ['-DCELLO_CACHE', '-DCELLO_NGC'],
    'ndebug+nocache+ngc': ['-DCELLO_NDEBUG', '-DCELLO_CACHE', '-DCELLO_NGC'],
}


# --------------------------------------------------------------------------
# AST dump and location reconstruction

def _dump(path, flags, cwd):
    cmd = ['clang', '-fsyntax-only', '-Xclang', '-ast-dump=json', '-w'] + flags + [path]
    p = subprocess.run(cmd, capture_output=True, cwd=cwd, timeout=120)
    if p.returncode != 0:
        raise AnalysisBroken('clang failed on %s: %s' % (path, p.stderr.decode()[-2000:]))
    try:
        return json.loads(p.stdout)
    except Exception as e:
        raise AnalysisBroken('bad JSON for %s: %s' % (path, e))


class _LocState:
    __slots__ = ('file', 'line')

    def __init__(self):
        self.file = None
        self.line = None


def _resolve_locs(node, st):
    """clang omits file/line when unchanged from the previously printed
    location; reconstruct in document order. Adds 'F' and 'L' to every bare
    location dict."""
    if isinstance(node, dict):
        for k, v in node.items():
            if k in ('loc', 'begin', 'end', 'spellingLoc', 'expansionLoc'):
                if isinstance(v, dict):
                    if 'spellingLoc' in v or 'expansionLoc' in v:
                        _resolve_locs(v, st)
                    elif v:
                        if 'file' in v:
                            st.file = v['file']
                        if 'line' in v:
                            st.line = v['line']
                        v['F'] = st.file
                        v['L'] = st.line
                continue
            if k == 'range':
                _resolve_locs(v, st)
                continue
            if isinstance(v, (dict, list)):
                _resolve_locs(v, st)
    elif isinstance(node, list):
        for x in node:
            _resolve_locs(x, st)


def loc_of(node):
    """(file, line, macro_spelling_line or None) of a node, using the expansion
    location (where it appears in the unit)."""
    r = node.get('range', {}).get('begin') or node.get('loc') or {}
    if 'expansionLoc' in r:
        e = r['expansionLoc']
        s = r.get('spellingLoc', {})
        return e.get('F'), e.get('L'), (s.get('F'), s.get('L'))
    return r.get('F'), r.get('L'), None


# --------------------------------------------------------------------------
# IR conversion

_DROP_CASTS = {'LValueToRValue', 'NoOp', 'ArrayToPointerDecay', 'FunctionToPointerDecay',
               'BitCast', 'NullToPointer', 'BuiltinFnToFnPtr', 'ToVoid', 'IntegralToBoolean',
               'PointerToBoolean', 'FloatingToBoolean'}
_KEEP_ICASTS = {'IntegralCast', 'FloatingToIntegral', 'IntegralToFloating', 'FloatingCast',
                'PointerToIntegral', 'IntegralToPointer'}


def _c_unescape(s):
    # s is the literal including quotes, possibly with prefix
    m = re.match(r'^[LuU8]*"(.*)"$', s, re.S)
    if not m:
        return s
    body = m.group(1)
    out, i = [], 0
    simple = {'n': '\n', 't': '\t', 'r': '\r', 'a': '\a', 'b': '\b', 'f': '\f', 'v': '\v',
              '\\': '\\', "'": "'", '"': '"', '?': '?', '0': '\0'}
    while i < len(body):
        c = body[i]
        if c == '\\' and i + 1 < len(body):
            d = body[i + 1]
            if d in simple and not (d == '0' and i + 2 < len(body) and body[i + 2].isdigit()):
                out.append(simple[d]); i += 2; continue
            if d == 'x':
                j = i + 2
                while j < len(body) and body[j] in '0123456789abcdefABCDEF':
                    j += 1
                out.append(chr(int(body[i + 2:j], 16) & 0xff)); i = j; continue
            if d.isdigit():
                j = i + 1
                while j < len(body) and j < i + 4 and body[j] in '01234567':
                    j += 1
                out.append(chr(int(body[i + 1:j], 8) & 0xff)); i = j; continue
            out.append(d); i += 2; continue
        out.append(c); i += 1
    return ''.join(out)


class Conv:
    """Converts one function body (or initialiser) to IR."""

    def __init__(self, local_ids, params, enum_vals):
        self.local_ids = local_ids      # set of VarDecl ids declared in the body
        self.params = params            # id -> (name, index)
        self.enum_vals = enum_vals

    def line(self, n):
        return loc_of(n)[1]

    def expr(self, n):
        if not n:
            return None
        k = n.get('kind')
        inner = n.get('inner', [])
        if k in ('ParenExpr', 'ConstantExpr', 'ExprWithCleanups'):
            return self.expr(inner[0])
        if k == 'ImplicitCastExpr':
            ck = n.get('castKind')
            x = self.expr(inner[0])
            if ck in _KEEP_ICASTS:
                t = n['type'].get('desugaredQualType', n['type']['qualType'])
                return ('icast', t, x)
            return x
        if k == 'CStyleCastExpr':
            t = n['type'].get('desugaredQualType', n['type']['qualType'])
            return ('cast', t, self.expr(inner[0]))
        if k == 'IntegerLiteral':
            return ('int', int(n['value']))
        if k == 'CharacterLiteral':
            return ('int', int(n['value']))
        if k == 'FloatingLiteral':
            return ('float', n['value'])
        if k == 'StringLiteral':
            return ('str', _c_unescape(n['value']))
        if k == 'DeclRefExpr':
            rd = n['referencedDecl']
            rk = rd['kind']
            if rk == 'ParmVarDecl':
                nm, idx = self.params.get(rd['id'], (rd.get('name'), -1))
                return ('param', nm, idx)
            if rk == 'FunctionDecl':
                return ('func', rd['name'])
            if rk == 'EnumConstantDecl':
                return ('enum', rd['name'])
            if rk == 'VarDecl':
                if rd['id'] in self.local_ids:
                    return ('local', rd['name'], rd['id'])
                return ('global', rd['name'])
            return ('ref', rk, rd.get('name'))
        if k == 'MemberExpr':
            ft = n.get('type', {})
            return ('arrow' if n.get('isArrow') else 'dot', self.expr(inner[0]), n.get('name'),
                    ft.get('desugaredQualType', ft.get('qualType')))
        if k == 'CallExpr':
            return ('call', self.expr(inner[0]), tuple(self.expr(a) for a in inner[1:]))
        if k == 'BinaryOperator':
            op = n['opcode']
            if op == '=':
                return ('assign', '=', self.expr(inner[0]), self.expr(inner[1]))
            return ('bin', op, self.expr(inner[0]), self.expr(inner[1]))
        if k == 'CompoundAssignOperator':
            return ('assign', n['opcode'], self.expr(inner[0]), self.expr(inner[1]))
        if k == 'UnaryOperator':
            op = n['opcode']
            if op in ('++', '--'):
                op = ('post' if n.get('isPostfix') else 'pre') + op
            return ('un', op, self.expr(inner[0]))
        if k == 'ArraySubscriptExpr':
            return ('idx', self.expr(inner[0]), self.expr(inner[1]))
        if k == 'ConditionalOperator':
            return ('cond', self.expr(inner[0]), self.expr(inner[1]), self.expr(inner[2]))
        if k == 'UnaryExprOrTypeTraitExpr':
            if 'argType' in n:
                t = n['argType'].get('desugaredQualType', n['argType']['qualType'])
                return (n.get('name', 'sizeof'), ('type', t))
            e = self.expr(inner[0]) if inner else None
            t = inner[0]['type'].get('desugaredQualType', inner[0]['type']['qualType']) if inner else '?'
            return (n.get('name', 'sizeof'), ('type', t), e)
        if k == 'CompoundLiteralExpr':
            t = n['type'].get('desugaredQualType', n['type']['qualType'])
            return ('compound', t, self.expr(inner[0]) if inner else None)
        if k == 'InitListExpr':
            els = []
            if 'array_filler' in n:
                for a in n['array_filler']:
                    if a.get('kind') == 'ImplicitValueInitExpr':
                        continue
                    els.append(self.expr(a))
            else:
                els = [self.expr(a) for a in inner]
            return ('initlist', tuple(els))
        if k == 'ImplicitValueInitExpr':
            return ('zero',)
        if k == 'OffsetOfExpr':
            return ('offsetof', n['type']['qualType'])
        if k == 'PredefinedExpr':
            return ('str', '__func__')
        if k == 'VAArgExpr':
            return ('va_arg', self.expr(inner[0]) if inner else None)
        if k == 'StmtExpr':
            return ('stmtexpr',)
        if k == 'GNUNullExpr':
            return ('int', 0)
        if k == 'DesignatedInitExpr':
            return ('designated', tuple(self.expr(a) for a in inner))
        if k == 'OpaqueValueExpr':
            return self.expr(inner[0]) if inner else ('opaque',)
        if k == 'BinaryConditionalOperator':
            return ('other', k)
        raise AnalysisBroken('unhandled expression kind %s at line %s' % (k, self.line(n)))

    def stmt(self, n):
        if not n:
            return None
        k = n.get('kind')
        inner = n.get('inner', [])
        ln = self.line(n)
        mac = loc_of(n)[2]
        base = {'line': ln}
        if mac:
            base['macro'] = mac
        if k == 'CompoundStmt':
            return dict(base, k='block', body=[self.stmt(c) for c in inner])
        if k == 'DeclStmt':
            decls = []
            for d in inner:
                if d.get('kind') != 'VarDecl':
                    continue
                self.local_ids.add(d['id'])
                init = None
                di = [c for c in d.get('inner', []) if c.get('kind', '').endswith(('Expr', 'Literal', 'Operator'))]
                if 'init' in d and di:
                    init = self.expr(di[-1])
                t = d['type'].get('desugaredQualType', d['type']['qualType'])
                decls.append({'name': d['name'], 'id': d['id'], 'init': init, 'type': t,
                              'qual': d['type']['qualType'],
                              'static': d.get('storageClass') == 'static'})
            return dict(base, k='decl', decls=decls)
        if k == 'IfStmt':
            c = self.expr(inner[0])
            t = self.stmt(inner[1])
            e = self.stmt(inner[2]) if len(inner) > 2 else None
            return dict(base, k='if', cond=c, then=t, els=e)
        if k == 'WhileStmt':
            return dict(base, k='while', cond=self.expr(inner[0]), body=self.stmt(inner[1]))
        if k == 'DoStmt':
            return dict(base, k='do', body=self.stmt(inner[0]), cond=self.expr(inner[1]))
        if k == 'ForStmt':
            init, condvar, cond, inc, body = (inner + [{}] * 5)[:5]
            return dict(base, k='for',
                        init=self.stmt(init) if init else None,
                        cond=self.expr(cond) if cond else None,
                        inc=self.expr(inc) if inc else None,
                        body=self.stmt(body) if body else None)
        if k == 'SwitchStmt':
            return dict(base, k='switch', cond=self.expr(inner[0]), body=self.stmt(inner[1]))
        if k == 'CaseStmt':
            return dict(base, k='case', val=self.expr(inner[0]), body=self.stmt(inner[-1]) if len(inner) > 1 else None)
        if k == 'DefaultStmt':
            return dict(base, k='default', body=self.stmt(inner[0]) if inner else None)
        if k == 'BreakStmt':
            return dict(base, k='break')
        if k == 'ContinueStmt':
            return dict(base, k='continue')
        if k == 'ReturnStmt':
            return dict(base, k='return', expr=self.expr(inner[0]) if inner else None)
        if k == 'NullStmt':
            return dict(base, k='null')
        if k in ('GotoStmt', 'LabelStmt', 'IndirectGotoStmt'):
            raise AnalysisBroken('goto/label at line %s is outside the analysed fragment' % ln)
        # expression statement
        return dict(base, k='expr', expr=self.expr(n))


def _collect_local_ids(n, acc):
    if isinstance(n, dict):
        if n.get('kind') == 'VarDecl':
            acc.add(n['id'])
        for c in n.get('inner', []):
            _collect_local_ids(c, acc)


def _is_repo_file(f, roots):
    if f is None:
        return False
    if f.startswith('/usr') or f.startswith('/lib'):
        return False
    return True


def build_unit(path, flags, cwd, extra=()):
    """Parse one unit and return a picklable Unit dict."""
    tu = _dump(path, list(flags) + list(extra), cwd)
    _resolve_locs(tu, _LocState())
    unit = {'path': path, 'functions': {}, 'globals': {}, 'records': {}, 'enums': {},
            'protos': {}, 'typedefs': {}}
    enum_vals = {}
    # first pass: enums
    for d in tu.get('inner', []):
        if d.get('kind') == 'EnumDecl':
            cur = -1
            for c in d.get('inner', []):
                if c.get('kind') != 'EnumConstantDecl':
                    continue
                val = None
                for e in c.get('inner', []):
                    v = _const_int(e, enum_vals)
                    if v is not None:
                        val = v
                cur = val if val is not None else cur + 1
                enum_vals[c['name']] = cur
    unit['enums'] = enum_vals
    for d in tu.get('inner', []):
        k = d.get('kind')
        f, ln, _ = loc_of(d) if d.get('range', {}).get('begin') else (None, None, None)
        lf = d.get('loc', {})
        if 'expansionLoc' in lf:
            f = lf['expansionLoc'].get('F'); ln = lf['expansionLoc'].get('L')
        elif lf:
            f = lf.get('F', f); ln = lf.get('L', ln)
        if not _is_repo_file(f, None):
            if k == 'FunctionDecl':
                unit['protos'][d.get('name')] = {'type': d['type']['qualType'], 'file': f, 'system': True}
            continue
        if k == 'RecordDecl' and d.get('completeDefinition'):
            fields = []
            for c in d.get('inner', []):
                if c.get('kind') == 'FieldDecl':
                    fields.append((c['name'], c['type'].get('desugaredQualType', c['type']['qualType']), c['type']['qualType']))
            unit['records'][d.get('name')] = {'fields': fields, 'file': f, 'line': ln, 'tag': d.get('tagUsed')}
        elif k == 'FunctionDecl':
            body = [c for c in d.get('inner', []) if c.get('kind') == 'CompoundStmt']
            params = [c for c in d.get('inner', []) if c.get('kind') == 'ParmVarDecl']
            attrs = [c.get('kind') for c in d.get('inner', []) if c.get('kind', '').endswith('Attr')]
            if not body:
                unit['protos'].setdefault(d['name'], {'type': d['type']['qualType'], 'file': f, 'system': False})
                continue
            pmap = {p['id']: (p.get('name'), i) for i, p in enumerate(params)}
            conv = Conv(set(), pmap, enum_vals)
            ir = conv.stmt(body[0])
            endl = d.get('range', {}).get('end', {})
            endl = endl.get('expansionLoc', endl).get('L')
            unit['functions'][d['name']] = {
                'name': d['name'], 'file': f, 'line': ln, 'end': endl, 'static': d.get('storageClass') == 'static',
                'type': d['type']['qualType'],
                'params': [(p.get('name'), p['type'].get('desugaredQualType', p['type']['qualType'])) for p in params],
                'body': ir, 'attrs': attrs}
        elif k == 'VarDecl':
            init = None
            di = [c for c in d.get('inner', []) if 'Attr' not in c.get('kind', '')]
            if 'init' in d and di:
                conv = Conv(set(), {}, enum_vals)
                init = conv.expr(di[-1])
            prev = unit['globals'].get(d['name'])
            g = {'name': d['name'], 'file': f, 'line': ln, 'init': init,
                 'type': d['type'].get('desugaredQualType', d['type']['qualType']),
                 'qual': d['type']['qualType'],
                 'static': d.get('storageClass') == 'static', 'extern': d.get('storageClass') == 'extern'}
            if prev is None or init is not None or (prev.get('extern') and not g['extern']):
                if prev is not None and prev.get('init') is not None and init is None:
                    pass
                else:
                    unit['globals'][d['name']] = g
        elif k == 'TypedefDecl':
            unit['typedefs'][d['name']] = d['type'].get('desugaredQualType', d['type']['qualType'])
    return unit


def _const_int(e, enum_vals):
    k = e.get('kind')
    if k in ('ConstantExpr', 'ParenExpr', 'ImplicitCastExpr', 'CStyleCastExpr'):
        if 'value' in e and k == 'ConstantExpr':
            try:
                return int(e['value'])
            except Exception:
                pass
        return _const_int(e['inner'][0], enum_vals) if e.get('inner') else None
    if k == 'IntegerLiteral':
        return int(e['value'])
    if k == 'DeclRefExpr' and e['referencedDecl']['kind'] == 'EnumConstantDecl':
        return enum_vals.get(e['referencedDecl']['name'])
    if k == 'BinaryOperator':
        a = _const_int(e['inner'][0], enum_vals); b = _const_int(e['inner'][1], enum_vals)
        if a is None or b is None:
            return None
        op = e['opcode']
        try:
            return {'+': a + b, '-': a - b, '*': a * b, '/': a // b if b else None,
                    '<<': a << b, '|': a | b}.get(op)
        except Exception:
            return None
    return None


def _worker(args):
    path, flags, cwd, extra = args
    try:
        return ('ok', build_unit(path, flags, cwd, extra))
    except AnalysisBroken as e:
        return ('broken', str(e))


def load_units(paths=None, config='default', repo=REPO, extra_units=()):
    """Parse the requested repo units (default: all) under a configuration.
    extra_units: [(abs_path, flags)] witness units from /verif/witness."""
    db = compile_db(repo)
    if paths is None:
        paths = sorted(db)
    jobs = []
    for p in paths:
        if p not in db:
            raise AnalysisBroken('unit %s vanished from the build' % p)
        jobs.append((p, db[p], repo, CONFIGS[config]))
    anyflags = next(iter(db.values()))
    for wp in extra_units:
        wflags = [f if not f.startswith('./') else f for f in anyflags]
        # -I ./include is relative to repo; run with cwd=repo
        jobs.append((wp, wflags, repo, CONFIGS[config]))
    units = {}
    with ProcessPoolExecutor(max_workers=min(16, max(1, len(jobs)))) as ex:
        for (p, _, _, _), (st, res) in zip(jobs, ex.map(_worker, jobs)):
            if st != 'ok':
                raise AnalysisBroken(res)
            units[p] = res
    return units
