"""Shape analysis of the red-black fix-up loops.

Abstract interpretation of the *source* of Tree_Set_Fix / Tree_Rem_Fix (and every Tree.c helper they reach, down to the raw
`*(var*)((char*)node + k*sizeof(var))` words) over a finite shape domain, used to check that a loop invariant is
inductive:

    abstract heap    materialised nodes (colour, left, right, parent) + *summary* links
                        sigma(C, k)  a whole valid red-black subtree whose root colour is in C and whose black height is h+k
                        up(...)      the unknown part of the tree above the highest materialised node
                     with one symbolic height h (constraint h >= lo, or h == c once a summary was found to be empty).
    focus            a summary is materialised when (and only when) the code reads the link: the state splits into the
                     finitely many cases (empty / red node / black node; for `up`: no parent / red or black parent, left or
                     right child, sibling summary).  Every abstract state denotes at least one concrete tree, so a violation
                     found is a concrete counter-example shape, not an artefact of over-approximation.
    transformer      the statements themselves, interpreted over that heap (no summaries of callee behaviour are assumed:
                     rotations, Tree_Replace, Tree_Sibling, the colour tag bit in the parent word are all interpreted).
    obligations      from every abstract state satisfying the invariant at the loop head, every path to `return` ends in a
                     valid red-black tree (links paired, no red node with a red child, equal black heights, same black
                     height and a compatible colour towards the unknown context above, root pointer and root colour), and
                     every path back to the loop head ends in a state satisfying the invariant for a node strictly nearer the root.

Nothing of the library is executed: the interpreter walks the analyser's CFG with abstract values.
"""
import time
from . import ir
from .front import AnalysisBroken

B, R = 0, 1


class Unsupported(Exception):
    pass


class NeedChoice(Exception):
    def __init__(self, n):
        self.n = n


class Infeasible(Exception):
    pass


class Violation(Exception):
    def __init__(self, what, line=None):
        Exception.__init__(self, what)
        self.what = what
        self.line = line


class Opt(str):
    """a choice label carrying data"""
    def __new__(cls, label, data):
        o = str.__new__(cls, label)
        o.data = data
        return o


class LoopBack(Exception):
    pass


class Raised(Exception):
    """the interpreted code throws a Cello exception: the path ends"""
    def __init__(self, why):
        self.why = why


class Returned(Exception):
    def __init__(self, v):
        self.v = v


def N_(i):
    return ('n', i)


class State:
    """abstract heap + height constraint + choice oracle"""

    def __init__(self, choices):
        self.choices = list(choices)
        self.pos = 0
        self.log = []
        self.nodes = {}
        self.next_id = 1
        self.root = ('unknown',)
        self.h_lo = 0
        self.h_eq = None
        self.trace = []
        self.freed = set()
        self.writes = 0

    # -- oracle ---------------------------------------------------------------
    def choose(self, options, what):
        """options: list of labels; returns the chosen label"""
        if not options:
            raise Infeasible()
        if len(options) == 1:
            self.log.append((what, options[0]))
            return options[0]
        if self.pos >= len(self.choices):
            raise NeedChoice(len(options))
        c = self.choices[self.pos]
        self.pos += 1
        self.log.append((what, options[c]))
        return options[c]

    # -- heights: terms ('h', k) = h + k with one symbolic h, or ('a', k) = the number k ------------------
    def can_be_zero(self, H):
        v, k = H
        if v == 'a':
            return k == 0
        if self.h_eq is not None:
            return self.h_eq + k == 0
        return -k >= self.h_lo

    def can_be_positive(self, H):
        v, k = H
        if v == 'a':
            return k >= 1
        if self.h_eq is not None:
            return self.h_eq + k >= 1
        return True

    def assume_zero(self, H):
        if H[0] == 'h':
            self.h_eq = -H[1]

    def assume_positive(self, H):
        if H[0] == 'h' and self.h_eq is None:
            self.h_lo = max(self.h_lo, 1 - H[1])

    def norm_h(self, H):
        if H[0] == 'h' and self.h_eq is not None:
            return ('a', self.h_eq + H[1])
        return H

    # -- nodes --------------------------------------------------------------------
    def new_node(self, col, left, right, parent, opaque=None, label='', reg=0):
        i = self.next_id
        self.next_id += 1
        self.nodes[i] = {'L': left, 'R': right, 'P': parent, 'C': col, 'opaque': opaque, 'label': label, 'reg': reg}
        return i

    def focus_down(self, owner, side):
        v = self.nodes[owner][side]
        if not (isinstance(v, tuple) and v[0] == 'sig'):
            return v
        _, cols, H = v
        opts = []
        if B in cols and self.can_be_zero(H):
            opts.append('empty')
        if B in cols and self.can_be_positive(H):
            opts.append('black')
        if R in cols:
            opts.append('red')
        c = self.choose(opts, 'subtree %s of %s (root in {%s}, black height %s)' % (
            side, self.name(owner), ','.join('RB'[x] for x in sorted(cols, reverse=True)), fmt_h(H)))
        if c == 'empty':
            self.assume_zero(H)
            nv = 0
        elif c == 'black':
            self.assume_positive(H)
            H1 = (H[0], H[1] - 1)
            i = self.new_node(B, ('sig', frozenset((B, R)), H1), ('sig', frozenset((B, R)), H1), N_(owner),
                              label='%s.%s' % (self.name(owner), side), reg=self.nodes[owner]['reg'])
            nv = N_(i)
        else:
            i = self.new_node(R, ('sig', frozenset((B,)), H), ('sig', frozenset((B,)), H), N_(owner),
                              label='%s.%s' % (self.name(owner), side), reg=self.nodes[owner]['reg'])
            nv = N_(i)
        self.nodes[owner][side] = nv
        return nv

    def focus_up(self, owner):
        v = self.nodes[owner]['P']
        if not (isinstance(v, tuple) and v[0] == 'up'):
            return v
        _, own, mode, c0, exp = v
        # exp: black height the context expects of the subtree hanging here
        opts = []
        if mode != 'inner' and (mode != 'generic' or c0 == B):
            opts.append(Opt('it is the root', ('root',)))
        for gc in ((B,) if (mode == 'black-parent' or (mode in ('generic', 'inner') and c0 == R)) else (B, R)):
            for side in ('L', 'R'):
                opts.append(Opt('%s parent, %s child' % ('red' if gc == R else 'black', 'left' if side == 'L' else 'right'), ('parent', gc, side)))
        c = self.choose(opts, 'context above %s' % self.name(owner)).data
        if c[0] == 'root':
            self.nodes[owner]['P'] = 0
            if self.root not in (('unknown',), ('maybe', owner), N_(owner)):
                raise Infeasible()
            self.root = N_(owner)
            return 0
        if self.root == ('maybe', owner):
            self.root = ('unknown',)
        _, gc, side = c
        other = 'R' if side == 'L' else 'L'
        sib = ('sig', frozenset((B, R)) if gc == B else frozenset((B,)), exp)
        g = self.new_node(gc, None, None, None, label='parent(%s)' % self.name(owner), reg=self.nodes[owner]['reg'])
        self.nodes[g][side] = N_(owner)
        self.nodes[g][other] = sib
        self.nodes[g]['P'] = ('up', g, 'generic', gc, (exp[0], exp[1] + (1 if gc == B else 0)))
        self.nodes[owner]['P'] = N_(g)
        return N_(g)

    def name(self, i):
        return self.nodes[i]['label'] or ('n%d' % i)

    # -- field access (word index 0 = left, 1 = right, 2 = parent | colour) ---------
    def read_word(self, v, k, line):
        if v == 0:
            raise Violation('reads word %d of a NULL node' % k, line)
        if not (isinstance(v, tuple) and v[0] == 'n'):
            raise Unsupported('field read through %r' % (v,))
        i = v[1]
        if k in (0, 1) and self.nodes[i]['L' if k == 0 else 'R'] == ('opq',):
            raise Violation('inspects a child of the node whose subtree is one black short (the caller is about to unlink that node; '
                            'nothing below it may influence the rebalancing)', line)
        if k == 0:
            return self.focus_down(i, 'L')
        if k == 1:
            return self.focus_down(i, 'R')
        if k == 2:
            p = self.focus_up(i)
            return ('tag', p, self.nodes[i]['C'])
        raise Unsupported('read of word %d of a node' % k)

    def write_word(self, v, k, x, line):
        if v == 0:
            raise Violation('writes word %d of a NULL node' % k, line)
        if not (isinstance(v, tuple) and v[0] == 'n'):
            raise Unsupported('field write through %r' % (v,))
        i = v[1]
        self.writes += 1
        if k in (0, 1):
            if x == ('opq',):
                raise Violation('relinks a child of the node whose subtree is one black short (the caller is about to unlink that node)', line)
            if isinstance(x, tuple) and x[0] == 'tag':
                raise Violation('stores a parent|colour word into a child link', line)
            if not (x == 0 or (isinstance(x, tuple) and x[0] == 'n')):
                raise Unsupported('stores %r into a child link' % (x,))
            old = self.nodes[i]['L' if k == 0 else 'R']
            if isinstance(old, tuple) and old[0] == 'sig':
                raise Violation('overwrites the %s link of %s without ever having looked at it: the subtree behind it may be non-empty and is lost'
                                % ('left' if k == 0 else 'right', self.name(i)), line)
            self.nodes[i]['L' if k == 0 else 'R'] = x
            return
        if k == 2:
            if isinstance(x, tuple) and x[0] == 'tag':
                p, c = x[1], x[2]
            else:
                p, c = x, B
            if not (p == 0 or (isinstance(p, tuple) and p[0] == 'n')):
                raise Unsupported('stores %r into the parent word' % (x,))
            self.nodes[i]['P'] = p
            self.nodes[i]['C'] = c
            return
        raise Unsupported('write of word %d of a node' % k)


class Interp:
    MAX_STEPS = 4000
    MAX_DEPTH = 8

    def __init__(self, P, st, top_fn):
        self.P = P
        self.st = st
        self.steps = 0
        self.top_fn = top_fn
        self.head_visits = 0
        self.heads_done = 0
        self.loop_head = None
        self.on_head = None
        self.lines = []
        self.hooks = {}

    # -- expressions -----------------------------------------------------------------
    def truth(self, v):
        if isinstance(v, bool):
            return v
        if isinstance(v, int):
            return v != 0
        if isinstance(v, tuple) and v[0] in ('n', 'payload'):
            return True
        raise Unsupported('truth value of %r' % (v,))

    def eq(self, a, b):
        def ptr(x):
            return x == 0 or (isinstance(x, tuple) and x[0] == 'n')
        if isinstance(a, int) and isinstance(b, int):
            return a == b
        if ptr(a) and ptr(b):
            return a == b
        raise Unsupported('comparison of %r and %r' % (a, b))

    def lvalue(self, e, fr, line):
        e = strip(e)
        k = e[0]
        if k == 'local':
            return ('lv_local', e[2])
        if k == 'param':
            return ('lv_param', e[2])
        if k == 'un' and e[1] == '*':
            a = self.ev(e[2], fr, line)
            if isinstance(a, tuple) and a[0] == 'addr':
                return ('lv_word', a[1], a[2])
            raise Unsupported('store through %r' % (a,))
        if k == 'arrow':
            b = self.ev(e[1], fr, line)
            if b == ('m',) and e[2] == 'root':
                return ('lv_root',)
            if b == ('m',):
                return ('lv_mfield', e[2])
            raise Unsupported('store to field %s' % e[2])
        raise Unsupported('assignment target %s' % ir.fmt(e))

    def store(self, lv, v, fr, line):
        if lv[0] == 'lv_local':
            fr['locals'][lv[1]] = v
        elif lv[0] == 'lv_param':
            fr['params'][lv[1]] = v
        elif lv[0] == 'lv_word':
            self.st.write_word(lv[1], lv[2], v, line)
        elif lv[0] == 'lv_root':
            if not (v == 0 or (isinstance(v, tuple) and v[0] == 'n')):
                raise Unsupported('stores %r into root' % (v,))
            self.st.root = v
            self.st.writes += 1
        elif lv[0] == 'lv_mfield':
            pass        # counters and sizes of the map record: not part of the shape

    def ev(self, e, fr, line):
        k = e[0]
        if k in ('cast', 'icast'):
            v = self.ev(e[2], fr, line)
            if k == 'icast' and isinstance(v, bool):
                return int(v)
            if 'bool' in str(e[1]) or '_Bool' in str(e[1]):
                if isinstance(v, int):
                    return int(v != 0)
                if isinstance(v, tuple) and v[0] == 'n':
                    return 1
            return v
        if k == 'int':
            return e[1]
        if k == 'zero':
            return 0
        if k in ('enum', 'global', 'str', 'func'):
            return ('opqv',)
        if k == 'param':
            if e[2] not in fr['params']:
                raise Unsupported('parameter %s' % e[1])
            return fr['params'][e[2]]
        if k == 'local':
            if e[2] not in fr['locals']:
                raise Unsupported('local %s read before assignment' % e[1])
            return fr['locals'][e[2]]
        if k == 'sizeof':
            t = e[1] if len(e) > 1 else None
            ts = e[2] if len(e) > 2 and e[2] is not None else e[1]
            s = ir.fmt(e)
            if 'void *' in s or 'var' in s:
                return ('W',)
            return ('sz',)
        if k == 'arrow':
            b = self.ev(e[1], fr, line)
            if b == ('m',) and e[2] == 'root':
                if self.st.root == ('unknown',):
                    raise Unsupported('reads m->root of an unmaterialised context')
                if isinstance(self.st.root, tuple) and self.st.root[0] == 'maybe':
                    return N_(self.st.root[1])
                return self.st.root
            if b == ('m',):
                return ('opqv',)
            raise Unsupported('reads field %s' % e[2])
        if k == 'un':
            op = e[1]
            if op == '*':
                a = self.ev(e[2], fr, line)
                if isinstance(a, tuple) and a[0] == 'addr':
                    return self.st.read_word(a[1], a[2], line)
                raise Unsupported('dereference of %r' % (a,))
            if op in ('pre++', 'pre--', 'post++', 'post--'):
                lv = self.lvalue(e[2], fr, line)
                if lv[0] == 'lv_mfield':
                    return ('opqv',)
                if lv[0] in ('lv_local', 'lv_param'):
                    tab = fr['locals'] if lv[0] == 'lv_local' else fr['params']
                    old = tab.get(lv[1])
                    if isinstance(old, int):
                        tab[lv[1]] = old + (1 if '++' in op else -1)
                        return tab[lv[1]] if op.startswith('pre') else old
                raise Unsupported('increment of %s' % ir.fmt(e[2]))
            v = self.ev(e[2], fr, line)
            if op == '!':
                return int(not self.truth(v))
            if op == '~' and isinstance(v, int):
                return ~v
            if op == '-' and isinstance(v, int):
                return -v
            raise Unsupported('unary %s' % op)
        if k == 'bin':
            op = e[1]
            if op == '&&':
                return int(self.truth(self.ev(e[2], fr, line)) and self.truth(self.ev(e[3], fr, line)))
            if op == '||':
                return int(self.truth(self.ev(e[2], fr, line)) or self.truth(self.ev(e[3], fr, line)))
            a = self.ev(e[2], fr, line)
            b = self.ev(e[3], fr, line)
            if op == '==':
                return int(self.eq(a, b))
            if op == '!=':
                return int(not self.eq(a, b))
            if op == '*':
                if isinstance(a, int) and b == ('W',):
                    return ('woff', a)
                if isinstance(b, int) and a == ('W',):
                    return ('woff', b)
                if isinstance(a, int) and isinstance(b, int):
                    return a * b
            if op == '+':
                for x, y in ((a, b), (b, a)):
                    if isinstance(x, tuple) and x[0] == 'n' and isinstance(y, tuple) and y[0] == 'woff':
                        return ('addr', x, y[1])
                    if x == 0 and isinstance(y, tuple) and y[0] == 'woff':
                        return ('addr', 0, y[1])
                    if isinstance(x, tuple) and x[0] == 'n' and y == ('W',):
                        return ('addr', x, 1)
                    if isinstance(x, tuple) and x[0] == 'addr' and isinstance(y, tuple) and y[0] == 'woff':
                        return ('addr', x[1], x[2] + y[1])
                    if isinstance(x, tuple) and x[0] == 'addr' and x[2] >= 3 and (y in (('sz',), ('opqv',)) or isinstance(y, int)):
                        return ('payload', x[1])
                    if isinstance(x, tuple) and x[0] == 'payload':
                        return x
                    if x in (('sz',), ('opqv',), ('W',)) and (y in (('sz',), ('opqv',), ('W',)) or isinstance(y, int) or (isinstance(y, tuple) and y[0] == 'woff')):
                        return ('sz',)
                    if isinstance(x, tuple) and x[0] == 'woff' and isinstance(y, tuple) and y[0] == 'woff':
                        return ('woff', x[1] + y[1])
                if isinstance(a, int) and isinstance(b, int):
                    return a + b
            if op == '&':
                for x, y in ((a, b), (b, a)):
                    if x in (('sz',), ('opqv',)) and (isinstance(y, int) or y in (('sz',), ('opqv',))):
                        return ('sz',)          # a size rounded with a mask is still some size
                for x, y in ((a, b), (b, a)):
                    if isinstance(y, int) and not isinstance(x, int):
                        t = x if (isinstance(x, tuple) and x[0] == 'tag') else ('tag', x, B)
                        if y == -2 or y == 0xfffffffffffffffe:
                            return t[1]
                        if y == 1:
                            return t[2]
                        if y == 0:
                            return 0
                        if y == -1 or y == 0xffffffffffffffff:
                            return x
                if isinstance(a, int) and isinstance(b, int):
                    return a & b
            if op == '|':
                for x, y in ((a, b), (b, a)):
                    if y == 1 and not (isinstance(x, int) and x != 0):
                        t = x if (isinstance(x, tuple) and x[0] == 'tag') else ('tag', x, B)
                        return ('tag', t[1], R)
                    if isinstance(y, int) and y == 0 and not isinstance(x, int):
                        return x
                if isinstance(a, int) and isinstance(b, int):
                    return a | b
            if op in ('-', '/', '%', '*', '>>', '<<') and (a in (('sz',), ('opqv',)) or b in (('sz',), ('opqv',))) and all(v in (('sz',), ('opqv',), ('W',)) or isinstance(v, int) for v in (a, b)):
                return ('sz',)
            if op in ('<', '>', '<=', '>=', '-') and isinstance(a, int) and isinstance(b, int):
                return {'<': int(a < b), '>': int(a > b), '<=': int(a <= b), '>=': int(a >= b), '-': a - b}[op]
            raise Unsupported('%s on %r, %r' % (op, a, b))
        if k == 'cond':
            return self.ev(e[2], fr, line) if self.truth(self.ev(e[1], fr, line)) else self.ev(e[3], fr, line)
        if k == 'assign':
            op = e[1]
            if op != '=':
                raise Unsupported('compound assignment')
            v = self.ev(e[3], fr, line)
            lv = self.lvalue(e[2], fr, line)
            self.store(lv, v, fr, line)
            return v
        if k == 'call':
            nm = ir.callee_name(e)
            if nm is None:
                raise Unsupported('indirect call')
            if nm in self.hooks:
                return self.hooks[nm](self, e, fr, line)
            fn = self.P.fn(nm, required=False)
            if fn is None or fn.get('body') is None:
                raise Unsupported('call of %s (no body in the analysed unit)' % nm)
            args = [self.ev(a, fr, line) for a in e[2]]
            return self.call(fn, args, fr['depth'] + 1)
        raise Unsupported('expression %s' % ir.fmt(e)[:60])

    # -- control -------------------------------------------------------------------------
    def call(self, fn, args, depth=0, top=False):
        if depth > self.MAX_DEPTH:
            raise Unsupported('call depth')
        g = self.P.cfg(fn)
        fr = {'params': dict(enumerate(args)), 'locals': {}, 'depth': depth}
        node = g.nodes[g.entry]
        while True:
            self.steps += 1
            if self.steps > self.MAX_STEPS:
                raise Unsupported('step bound')
            k = node['kind']
            line = node.get('line')
            if top:
                self.frame = fr
            if k == 'exit':
                return None
            if k == 'term':
                raise Raised(node['why'])
            if k == 'switch':
                raise Unsupported('switch in %s' % fn['name'])
            if k == 'join' and top and node.get('loop') and not fr.get('inner_loop_seen', {}).get(node['id']):
                if self.loop_head is None:
                    self.loop_head = node['id']
                if node['id'] == self.loop_head:
                    self.head_visits += 1
                    if self.head_visits > self.heads_done:
                        self.heads_done = self.head_visits
                        if self.head_visits >= 2 and self.on_head is not None:
                            if self.on_head(self, fr):
                                raise LoopBack()
            if k == 'ret':
                v = self.ev(node['expr'], fr, line) if node['expr'] is not None else None
                return v
            if k == 'cond':
                if top:
                    self.lines.append(line)
                v = self.truth(self.ev(node['expr'], fr, line))
                nxt = [w for (w, l) in node['succ'] if l == v]
                node = g.nodes[nxt[0]]
                continue
            if node['expr'] is not None:
                if top:
                    self.lines.append(line)
                self.ev(node['expr'], fr, line)
            if not node['succ']:
                return None
            node = g.nodes[node['succ'][0][0]]


def strip(e):
    while e[0] in ('cast', 'icast'):
        e = e[2]
    return e


# ---------------------------------------------------------------------------------------------
# validity of the abstract heap

def validate(st, start, irregular=None, deficient=None, root_red_ok=None, at_return=False, gone=()):
    """start: id of some materialised node in the tree.  irregular: node whose edge to its parent may be red-red.
    deficient: node whose subtree is counted one black higher than it is.  root_red_ok: id allowed to be a red root.
    gone: nodes that must no longer be part of the tree (freed)."""
    # climb
    top = start
    seen = set()
    while True:
        if top in seen:
            raise Violation('parent links form a cycle at %s' % st.name(top))
        seen.add(top)
        p = st.nodes[top]['P']
        if isinstance(p, tuple) and p[0] == 'n':
            top = p[1]
            continue
        break
    visited = set()

    def sub(v, parent):
        if v == 0:
            return ('a', 0), B
        if isinstance(v, tuple) and v[0] == 'sig':
            _, cols, H = v
            if parent is not None and st.nodes[parent]['C'] == R and R in cols:
                raise Violation('an unexamined subtree whose root may be red hangs under the red node %s' % st.name(parent))
            return st.norm_h(H), None
        if not (isinstance(v, tuple) and v[0] == 'n'):
            raise Violation('a child link holds %r' % (v,))
        i = v[1]
        if i in gone:
            raise Violation('the released node %s is still linked into the tree' % st.name(i))
        if i in visited:
            raise Violation('node %s is reachable through two child links' % st.name(i))
        visited.add(i)
        nd = st.nodes[i]
        if parent is not None:
            if nd['P'] != N_(parent):
                raise Violation('the parent link of %s does not point to %s, whose child it is' % (st.name(i), st.name(parent)))
            if st.nodes[parent]['C'] == R and nd['C'] == R and i != irregular:
                raise Violation('red node %s has the red child %s' % (st.name(parent), st.name(i)))
        if nd['opaque'] is not None:
            bh = st.norm_h(nd['opaque'])
            stack = [nd['L'], nd['R']]       # what hangs below an opaque node is not judged here
            while stack:
                w = stack.pop()
                if isinstance(w, tuple) and w[0] == 'n' and w[1] not in visited and w[1] in st.nodes:
                    visited.add(w[1])
                    stack += [st.nodes[w[1]]['L'], st.nodes[w[1]]['R']]
        else:
            l, _ = sub(nd['L'], i)
            r, _ = sub(nd['R'], i)
            if l != r:
                raise Violation('black heights differ below %s: left %s, right %s' % (st.name(i), fmt_h(l), fmt_h(r)))
            bh = (l[0], l[1] + (1 if nd['C'] == B else 0))
        if i == deficient:
            bh = (bh[0], bh[1] + 1)
        return bh, nd['C']

    bh, col = sub(N_(top), None)
    for i in st.nodes:
        if i not in visited and i not in gone and st.nodes[i]['reg'] == st.nodes[start]['reg']:
            raise Violation('node %s is no longer reachable from the top of the examined region (dropped from the tree)' % st.name(i))
    p = st.nodes[top]['P']
    if p == 0:
        if st.root != N_(top):
            raise Violation('%s has no parent but the root pointer does not point to it' % st.name(top))
        if col == R and top != root_red_ok:
            raise Violation('the root %s is red' % st.name(top))
    elif isinstance(p, tuple) and p[0] == 'up':
        _, own, mode, c0, exp = p
        if at_return and mode in ('I', 'J'):
            raise Violation('returns without having looked at the parent of %s (it may be red, or %s may be the root)' % (st.name(top), st.name(top)))
        if own != top:
            raise Violation('the context above still points to %s, not to %s' % (st.name(own), st.name(top)))
        if st.norm_h(bh) != st.norm_h(exp):
            raise Violation('the subtree at %s has black height %s, the tree above it needs %s' % (st.name(top), fmt_h(bh), fmt_h(exp)))
        if col == R and c0 == B and top != irregular:
            raise Violation('%s was black and is red now while its unexamined parent may be red' % st.name(top))
        if isinstance(st.root, tuple) and st.root[0] == 'n' and st.root != N_(top) and st.nodes[st.root[1]]['reg'] == st.nodes[top]['reg']:
            raise Violation('the root pointer was set to %s, which is not the top of the tree' % st.name(st.root[1]))
    else:
        raise Violation('parent word of %s holds %r' % (st.name(top), p))
    return top


def fmt_h(b):
    if b[0] == 'a':
        return str(b[1])
    return 'h%+d' % b[1] if b[1] else 'h'


def is_ancestor(st, a, d):
    """a is a proper ancestor of d"""
    cur = d
    for _ in range(100):
        p = st.nodes[cur]['P']
        if not (isinstance(p, tuple) and p[0] == 'n'):
            return False
        cur = p[1]
        if cur == a:
            return True
    return False


# ---------------------------------------------------------------------------------------------
# the two invariants

def rem_fix_state(st, cN):
    """I(N): a valid tree in which the subtree at N (black height h, root colour cN, never inspected) is one black short;
    the edge N-parent may be red-red (Tree_Rem gives N the colour of the child that will take its place)"""
    n = st.new_node(cN, ('opq',), ('opq',), None, opaque=('h', 0), label='N')
    st.nodes[n]['P'] = ('up', n, 'I', cN, ('h', 1))
    return n


def set_fix_state(st):
    """J(N): N is red with two black-rooted subtrees of black height h; the tree is valid except that N's parent may be red
    and that N may be the (red) root"""
    n = st.new_node(R, ('sig', frozenset((B,)), ('h', 0)), ('sig', frozenset((B,)), ('h', 0)), None, label='N')
    st.nodes[n]['P'] = ('up', n, 'J', R, ('h', 0))
    return n


MAX_UNROLL = 3
MAX_FOCUS = 14      # a path that needed more case splits than this without re-establishing the invariant is reported


def explore(P, fname, kind, max_runs=12000):
    """returns dict(runs=, returns=, loopbacks=, violations=[...], unsupported=[...])

    A path that comes back to the loop head is closed when the invariant holds there for a node strictly nearer the
    root.  When it does not hold the path is not condemned yet: the interpretation simply goes on with the state it has
    (at most MAX_UNROLL further iterations) and is judged by what it finally does; only a path that neither closes nor
    returns within that bound is reported, with the reason the invariant failed at its first come-back."""
    fn = P.fn(fname)
    res = {'runs': 0, 'returns': 0, 'loopbacks': 0, 'violations': [], 'unsupported': [], 'infeasible': 0,
           'max_choices': 0, 'max_nodes': 0, 'unrolled': 0}
    variants = [(R,), (B,)] if kind == 'rem' else [()]
    t0 = time.time()
    pending = []
    for var in variants:
        stack = [[]]
        while stack:
            choices = stack.pop()
            res['runs'] += 1
            if res['runs'] > max_runs or time.time() - t0 > 60:
                if pending:
                    # paths that came back to the loop head without the invariant and whose continuation does not fit the budget
                    res['violations'].append(pending[0])
                else:
                    res['unsupported'].append('more than %d abstract runs or 60 s' % max_runs)
                return res
            st = State(choices)
            n0 = rem_fix_state(st, var[0]) if kind == 'rem' else set_fix_state(st)
            it = Interp(P, st, fn)
            outcome = [None]
            first_fail = []

            def on_head(interp, fr):
                """True: the path closes here"""
                try:
                    nv = fr['params'].get(1)
                    if not (isinstance(nv, tuple) and nv[0] == 'n'):
                        raise Violation('continues with node = %r' % (nv,))
                    n1 = nv[1]
                    if kind == 'rem':
                        validate(st, n1, irregular=n1, deficient=n1, root_red_ok=None)
                        if st.nodes[n0]['C'] != var[0] or st.nodes[n0]['P'] != N_(n1) or st.nodes[n1]['C'] != B:
                            raise Violation('continues with %s, which is not the black parent of an unchanged N (the caller relies on N ending '
                                            'under a black parent)' % st.name(n1))
                    else:
                        if st.nodes[n1]['C'] != R:
                            raise Violation('continues with the black node %s (the loop invariant is about a red node)' % st.name(n1))
                        validate(st, n1, irregular=n1, root_red_ok=n1)
                    if not is_ancestor(st, n1, n0):
                        raise Violation('continues with %s, which is not nearer the root than N (no progress)' % st.name(n1))
                    return True
                except Violation as v:
                    if not first_fail:
                        first_fail.append((v, list(interp.lines)))
                        if len(pending) < 3:
                            pending.append({'pre': 'N %s' % (('red' if var[0] == R else 'black') if kind == 'rem' else 'red'),
                                            'focus': ['%s: %s' % (w, c) for (w, c) in st.log], 'lines': compress(interp.lines),
                                            'what': v.what + ' (and what the loop does from there could not be followed to an end within the exploration budget)',
                                            'line': v.line, 'exit': 'loop', 'h': ''})
                    if interp.head_visits - 1 > MAX_UNROLL or len(st.log) > MAX_FOCUS:
                        outcome[0] = 'loop'
                        raise first_fail[0][0]
                    return False
            it.on_head = on_head
            try:
                try:
                    it.call(fn, [('m',), N_(n0)], 0, top=True)
                    outcome[0] = 'return'
                except LoopBack:
                    outcome[0] = 'loop'
                if outcome[0] == 'return':
                    res['returns'] += 1
                    if first_fail:
                        res['unrolled'] += 1
                    if kind == 'rem':
                        validate(st, n0, irregular=None, deficient=None, root_red_ok=n0, at_return=True)
                        nd = st.nodes[n0]
                        if nd['C'] != var[0] or nd['L'] != ('opq',) or nd['R'] != ('opq',):
                            raise Violation('the node the caller is about to unlink was recoloured or relinked by the fix-up')
                        pp = nd['P']
                        if isinstance(pp, tuple) and pp[0] == 'n' and st.nodes[pp[1]]['C'] != B:
                            raise Violation('the parent of the node to unlink is red when the fix-up returns: whatever replaces the node '
                                            '(possibly a red child) would sit under a red parent')
                    else:
                        validate(st, n0, at_return=True)
                else:
                    res['loopbacks'] += 1
            except NeedChoice as c:
                for i in range(c.n):
                    stack.append(choices + [i])
                continue
            except Infeasible:
                res['infeasible'] += 1
                continue
            except Violation as v:
                lines = it.lines
                if outcome[0] == 'loop' and first_fail:
                    lines = first_fail[0][1]
                res['violations'].append({
                    'pre': 'N %s' % (('red' if var[0] == R else 'black') if kind == 'rem' else 'red'),
                    'focus': ['%s: %s' % (w, c) for (w, c) in st.log],
                    'lines': compress(lines), 'what': v.what, 'line': v.line, 'exit': outcome[0] or 'during the step',
                    'h': ('h == %d' % st.h_eq) if st.h_eq is not None else ('h >= %d' % st.h_lo)})
                continue
            except Unsupported as u:
                res['unsupported'].append('%s (after lines %s)' % (u, compress(it.lines)[-6:]))
                continue
            res['max_choices'] = max(res['max_choices'], len(st.log))
            res['max_nodes'] = max(res['max_nodes'], len(st.nodes))
    return res


def compress(lines):
    out = []
    for l in lines:
        if not out or out[-1] != l:
            out.append(l)
    return out


# ---------------------------------------------------------------------------------------------
# whole operations: Tree_Set, Tree_Rem (and the helpers whose loops are summarised by a checked contract)

def subtree_height(st, v):
    """black height term of the (valid) subtree behind link value v; raises Violation if it is not balanced"""
    if v == 0:
        return ('a', 0)
    if isinstance(v, tuple) and v[0] == 'sig':
        return st.norm_h(v[2])
    nd = st.nodes[v[1]]
    if nd['opaque'] is not None:
        return st.norm_h(nd['opaque'])
    l, r = subtree_height(st, nd['L']), subtree_height(st, nd['R'])
    if l != r:
        raise Violation('black heights differ below %s: left %s, right %s' % (st.name(v[1]), fmt_h(l), fmt_h(r)))
    return (l[0], l[1] + (1 if nd['C'] == B else 0))


def colour_of(st, v):
    if v == 0:
        return B
    if isinstance(v, tuple) and v[0] == 'n':
        return st.nodes[v[1]]['C']
    raise Unsupported('colour of an unexamined subtree')


def generic_node(st, col, label='X', reg=0, mode='generic', right_nil=False):
    """an arbitrary node of a valid tree: colour col, unexamined subtrees of equal black height, unexamined context"""
    if right_nil:
        kids = ('sig', frozenset((B, R)) if col == B else frozenset((B,)), ('a', 0))
        n = st.new_node(col, kids, 0, None, label=label, reg=reg)
        st.nodes[n]['P'] = ('up', n, mode, col, ('a', 1 if col == B else 0))
        return n
    cols = frozenset((B, R)) if col == B else frozenset((B,))
    n = st.new_node(col, ('sig', cols, ('h', 0)), ('sig', cols, ('h', 0)), None, label=label, reg=reg)
    st.nodes[n]['P'] = ('up', n, mode, col, ('h', 1 if col == B else 0))
    return n


def validate_all(st, gone=(), **kw):
    """every region of the heap is a valid tree"""
    regs = {}
    for i, nd in st.nodes.items():
        if i not in gone:
            regs.setdefault(nd['reg'], i)
    for reg, i in sorted(regs.items()):
        validate(st, i, gone=gone, **kw)
    return regs


class OpHooks:
    """meaning given to the calls an operation makes outside the interpreted fragment (frozen; each line is a reason)"""

    def __init__(self, it, st):
        self.it, self.st = it, st
        self.fixed = None          # (function, writes at that time)
        h = it.hooks
        h['cast'] = self.arg0                     # cast(x, T) hands back x or raises TypeError: no effect on the shape
        h['cmp'] = self.cmp                       # three-way result of user code: any of <0, 0, >0
        h['assign'] = self.arg0                   # writes the payload of a node (offsets >= 3 words: C03.layout)
        h['destruct'] = self.arg0                 # finalises the payload of a node
        h['memcpy'] = self.memcpy                 # payload copy; a copy over the link words is a violation
        h['calloc'] = self.calloc                 # fresh zeroed node
        h['header_init'] = self.arg0              # stamps the payload header
        h['free'] = self.free
        h['Tree_Set_Fix'] = self.set_fix          # contract established by explore(..., 'set')
        h['Tree_Rem_Fix'] = self.rem_fix          # contract established by explore(..., 'rem')
        h['Tree_Maximum'] = self.maximum          # contract established by check_maximum

    def arg0(self, it, e, fr, line):
        vals = [it.ev(a, fr, line) for a in e[2]]
        return vals[0] if vals else 0

    def cmp(self, it, e, fr, line):
        for a in e[2]:
            it.ev(a, fr, line)
        return self.st.choose([Opt('stored key sorts after the sought key (cmp < 0 branch)', -1), Opt('keys equal', 0),
                               Opt('stored key sorts before (cmp > 0 branch)', 1)], 'cmp(stored key, sought key)').data

    def memcpy(self, it, e, fr, line):
        vals = [it.ev(a, fr, line) for a in e[2]]
        d = vals[0]
        if isinstance(d, tuple) and d[0] == 'addr' and d[2] < 3:
            raise Violation('memcpy over the link words of a node', line)
        return d

    def calloc(self, it, e, fr, line):
        n = self.st.new_node(B, 0, 0, 0, label='new', reg=0)
        self.new = n
        return N_(n)

    def free(self, it, e, fr, line):
        v = it.ev(e[2][0], fr, line)
        if not (isinstance(v, tuple) and v[0] == 'n'):
            raise Violation('free of %r' % (v,), line)
        self.st.freed.add(v[1])
        return 0

    def set_fix(self, it, e, fr, line):
        st = self.st
        v = it.ev(e[2][1], fr, line)
        if not (isinstance(v, tuple) and v[0] == 'n'):
            raise Violation('Tree_Set_Fix called with %r' % (v,), line)
        n = v[1]
        if self.fixed:
            raise Violation('the insertion rebalances twice', line)
        if st.nodes[n]['C'] != R:
            raise Violation('Tree_Set_Fix is entered with the black node %s: a new black node makes one path longer, and the fix-up loop is only '
                            'correct for a red node' % st.name(n), line)
        for sd in ('L', 'R'):
            if R in ({colour_of(st, st.nodes[n][sd])} if not (isinstance(st.nodes[n][sd], tuple) and st.nodes[n][sd][0] == 'sig') else st.nodes[n][sd][1]):
                raise Violation('Tree_Set_Fix is entered with a node that has a red child', line)
        validate(st, n, irregular=n, root_red_ok=n)
        for reg_start in validate_all.__defaults__ or ():
            pass
        self.fixed = ('Tree_Set_Fix', st.writes)
        return None

    def rem_fix(self, it, e, fr, line):
        st = self.st
        v = it.ev(e[2][1], fr, line)
        if not (isinstance(v, tuple) and v[0] == 'n'):
            raise Violation('Tree_Rem_Fix called with %r' % (v,), line)
        x = v[1]
        nd = st.nodes[x]
        if self.fixed:
            raise Violation('the removal rebalances twice', line)
        l, r = st.focus_down(x, 'L'), st.focus_down(x, 'R')
        if l != 0 and r != 0:
            raise Violation('Tree_Rem_Fix is entered for a node with two children', line)
        chld = l if l != 0 else r
        eff = subtree_height(st, chld)
        # the other regions are complete valid trees; this one is valid when x counts as `eff` + 1
        for i, o in list(st.nodes.items()):
            if o['reg'] != nd['reg']:
                validate(st, i)
        nd['opaque'] = eff
        validate(st, x, irregular=x, deficient=x, root_red_ok=x)
        # contract: a valid tree in which x is unchanged and counts as `eff`
        keep = {x}
        stack = [chld]
        while stack:
            w = stack.pop()
            if isinstance(w, tuple) and w[0] == 'n':
                keep.add(w[1])
                stack += [st.nodes[w[1]]['L'], st.nodes[w[1]]['R']]
        for i in list(st.nodes):
            if i not in keep:
                del st.nodes[i]
        nd['P'] = ('up', x, 'black-parent', nd['C'], eff)
        st.root = ('maybe', x)
        self.fixed = ('Tree_Rem_Fix', None)
        return None

    def maximum(self, it, e, fr, line):
        st = self.st
        v = it.ev(e[2][1], fr, line)
        if not (isinstance(v, tuple) and v[0] == 'n'):
            raise Violation('Tree_Maximum called with %r' % (v,), line)
        pv = st.nodes[v[1]]['P']
        if not (isinstance(pv, tuple) and pv[0] == 'n' and st.nodes[pv[1]]['L'] == v):
            raise Violation('the maximum is taken of a subtree that is not the left subtree of the node being removed: its keys do not '
                            'precede that node\'s key, so copying it there breaks the order', line)
        col = st.choose([Opt('black', B), Opt('red', R)], 'colour of the in-order predecessor').data
        n = generic_node(st, col, label='pred', reg=1, mode='inner', right_nil=True)
        return N_(n)


def explore_op(P, fname, max_runs=30000):
    """Tree_Set / Tree_Rem from a loop-head-generic start: `m->root` is an arbitrary node of a valid tree (or NULL)"""
    fn = P.fn(fname)
    t0 = time.time()
    res = {'runs': 0, 'returns': 0, 'loopbacks': 0, 'raises': 0, 'violations': [], 'unsupported': [], 'infeasible': 0,
           'max_choices': 0, 'max_nodes': 0}
    for var in ('empty', B, R):
        stack = [[]]
        while stack:
            choices = stack.pop()
            res['runs'] += 1
            if res['runs'] > max_runs or time.time() - t0 > 120:
                res['unsupported'].append('more than %d abstract runs or 120 s' % max_runs)
                return res
            st = State(choices)
            if var == 'empty':
                st.root = 0
                x0 = None
            else:
                x0 = generic_node(st, var)
                st.root = ('maybe', x0)
            it = Interp(P, st, fn)
            hk = OpHooks(it, st)
            outcome = [None]

            def on_head(interp, fr, st=st, x0=x0):
                # closes when the tree is untouched-valid and the walk stands on a node of it
                nodev = [v for v in list(fr['locals'].values()) + list(fr['params'].values()) if isinstance(v, tuple) and v[0] == 'n']
                ok = bool(nodev) and not hk.fixed and not st.freed
                # progress: the walk now stands on a child of a node it stood on at the previous visit of the loop head
                prev = getattr(interp, 'prev_nodev', None) or ([N_(x0)] if x0 is not None else [])
                ok = ok and any(v[1] in st.nodes and st.nodes[v[1]]['P'] in prev for v in nodev)
                interp.prev_nodev = nodev
                if ok:
                    try:
                        validate_all(st)
                    except Violation:
                        ok = False
                if not ok and interp.head_visits - 1 > MAX_UNROLL:
                    raise Violation('the walk neither comes back to its loop head standing on a node of an unchanged valid tree nor ends '
                                    'within %d further iterations' % MAX_UNROLL)
                return ok
            it.on_head = on_head
            try:
                try:
                    it.call(fn, [('m',), ('opqv',), ('opqv',)][:len(fn['params'])], 0, top=True)
                    outcome[0] = 'return'
                except LoopBack:
                    outcome[0] = 'loop'
                except Raised as r:
                    outcome[0] = 'raise'
                if outcome[0] == 'loop':
                    res['loopbacks'] += 1
                elif outcome[0] == 'raise':
                    res['raises'] += 1
                    if st.writes or st.freed:
                        raise Violation('raises after the tree was changed')
                    validate_all(st)
                else:
                    res['returns'] += 1
                    if hk.fixed and hk.fixed[0] == 'Tree_Set_Fix':
                        if st.writes != hk.fixed[1]:
                            raise Violation('the tree is changed again after the insertion was rebalanced')
                    else:
                        live = [i for i in st.nodes if i not in st.freed]
                        if not live:
                            if st.root != 0:
                                raise Violation('the last node was released but the root pointer still holds %r' % (st.root,))
                        else:
                            validate_all(st, gone=st.freed, at_return=True)
            except NeedChoice as c:
                for i in range(c.n):
                    stack.append(choices + [i])
                continue
            except Infeasible:
                res['infeasible'] += 1
                continue
            except Violation as v:
                res['violations'].append({
                    'pre': 'empty tree' if var == 'empty' else 'the walk stands on a %s node X of a valid tree' % ('red' if var == R else 'black'),
                    'focus': ['%s: %s' % (w, c) for (w, c) in st.log],
                    'lines': compress(it.lines), 'what': v.what, 'line': v.line, 'exit': outcome[0] or 'during the step',
                    'h': ('h == %d' % st.h_eq) if st.h_eq is not None else ('h >= %d' % st.h_lo)})
                continue
            except Unsupported as u:
                res['unsupported'].append('%s (after lines %s)' % (u, compress(it.lines)[-6:]))
                continue
            res['max_choices'] = max(res['max_choices'], len(st.log))
            res['max_nodes'] = max(res['max_nodes'], len(st.nodes))
    return res


def explore_maximum(P, fname='Tree_Maximum'):
    """contract used for the in-order predecessor: from any node, the result is reached through right links only, has no
    right child, and nothing is written"""
    fn = P.fn(fname)
    res = {'runs': 0, 'returns': 0, 'loopbacks': 0, 'violations': [], 'unsupported': []}
    for col in (B, R):
        stack = [[]]
        while stack:
            choices = stack.pop()
            res['runs'] += 1
            st = State(choices)
            x0 = generic_node(st, col)
            it = Interp(P, st, fn)

            def on_head(interp, fr, st=st, x0=x0):
                v = fr['params'].get(1)
                ok = isinstance(v, tuple) and v[0] == 'n' and not st.writes
                prev = getattr(interp, 'prev_v', N_(x0))
                ok = ok and v != prev and st.nodes[v[1]]['P'] == prev and st.nodes[prev[1]]['R'] == v
                interp.prev_v = v
                if not ok and interp.head_visits - 1 > MAX_UNROLL:
                    raise Violation('the search neither steps to the right child nor ends within %d further iterations' % MAX_UNROLL)
                return ok
            it.on_head = on_head
            try:
                try:
                    v = it.call(fn, [('m',), N_(x0)], 0, top=True)
                except LoopBack:
                    res['loopbacks'] += 1
                    continue
                res['returns'] += 1
                if st.writes:
                    raise Violation('the search for the maximum writes to the tree')
                if not (isinstance(v, tuple) and v[0] == 'n'):
                    raise Violation('returns %r' % (v,))
                if st.nodes[v[1]]['R'] != 0:
                    raise Violation('the node returned still has a right child (it is not the maximum of the subtree)')
                cur = x0
                while cur != v[1]:
                    nxt = st.nodes[cur]['R']
                    if not (isinstance(nxt, tuple) and nxt[0] == 'n'):
                        raise Violation('the node returned is not on the right spine of the argument')
                    cur = nxt[1]
            except NeedChoice as c:
                for i in range(c.n):
                    stack.append(choices + [i])
            except Infeasible:
                pass
            except Violation as v:
                res['violations'].append({'pre': 'any node', 'focus': ['%s: %s' % (w, c) for (w, c) in st.log], 'lines': compress(it.lines),
                                          'what': v.what, 'line': v.line, 'exit': 'return', 'h': ''})
            except (Unsupported, Raised) as u:
                res['unsupported'].append(str(u))
    return res
