"""C16 — String is a C-string value: heap-only reallocation, sizes cover writes,
search results checked, delegation to the C library on the object's buffer."""
from . import ir, util, poly, cint
from .report import site
from .rules_c12 import guards_of, dominated_by_guard, throw_only, succ_of

UNITS = ['src/String.c', 'src/Exception.c']
SEARCH = {'strstr', 'strchr', 'strrchr', 'memchr', 'strpbrk'}


def alloc_guards(g, cls, N=None):
    def pred(c, n, cls=cls):
        if c[0] == 'bin' and c[1] in ('==', '!=') and any(x == ('enum', cls) for x in ir.walk(c)) and \
                any(x[0] in ('arrow', 'dot') and x[2] == 'alloc' for x in ir.walk(c)) and \
                any(x[0] == 'call' and ir.callee_name(x) == 'header' and ir.top_nocast(x[2][0]) == ('param', 0) for x in ir.walk(c)):
            return c[1] == '=='
        return None
    return guards_of(g, pred, N)


def buffer_sites(P, fn, field, N):
    """nodes that realloc/free the object's buffer field"""
    g = P.cfg(fn)
    buf = ('arrow', ('param', 0), field)
    out = []
    for n in g.live():
        if n['expr'] is None:
            continue
        for c in ir.calls(n['expr']):
            nm = ir.callee_name(c)
            if nm in ('realloc', 'free') and c[2] and N.canon(c[2][0]) == buf:
                out.append((n, c, nm))
    return out


BUF_WRITERS = {'strcpy', 'strcat', 'strncpy', 'strncat', 'memcpy', 'memmove', 'memset', 'sprintf', 'vsprintf', 'snprintf', 'vsnprintf'}


def buffer_writes(P, fn, field, N):
    """nodes that store through the object's buffer field or change one of the object's own fields"""
    g = P.cfg(fn)
    buf = ('arrow', ('param', 0), field)
    out = []

    def rooted(e):
        e = N.canon(e)
        return any(x == buf for x in ir.walk(e))
    for n in g.live():
        if n['expr'] is None:
            continue
        for ev in util.expr_events(n['expr'], n):
            if ev['t'] == 'write':
                t = ir.top_nocast(N.canon(ev['lhs']))
                if t[0] == 'idx' and rooted(t[1]):
                    out.append((n, 'store into the buffer'))
                elif t[0] == 'un' and t[1] == '*' and rooted(t[2]):
                    out.append((n, 'store into the buffer'))
                elif t[0] == 'arrow' and ir.top_nocast(t[1]) == ('param', 0):
                    out.append((n, 'store to field %s' % t[2]))
            elif ev['t'] == 'call' and ev['name'] in BUF_WRITERS and ev['args'] and rooted(ev['args'][0]):
                out.append((n, '%s into the buffer' % ev['name']))
    return out


def check_refusal_covers_mutation(P, ctx, unit, field, rule, types):
    """a function that refuses stack / static objects (it tests the allocation class and raises ValueError) must not change the
    object on a path that has not passed that test: the refusal and an unguarded mutation contradict each other"""
    u = P.units[unit]
    n_fn = 0
    for fname, fn in sorted(u['functions'].items()):
        if not fn['params'] or fn.get('body') is None:
            continue
        g = P.cfg(fn)
        NE = util.Norm(P, fn, expand_locals=True, inline=False)
        gds = {cls: alloc_guards(g, cls, NE) for cls in ('AllocStack', 'AllocStatic')}
        if not any(gds.values()):
            continue
        N = util.Norm(P, fn)
        n_fn += 1
        ctx.fn(fn)
        bad = []
        for (n, what) in buffer_writes(P, fn, field, N):
            for cls, gd in gds.items():
                if gd and dominated_by_guard(g, n['id'], gd, 'ValueError') is None:
                    bad.append('%s at %s is reachable without passing the refusal of %s objects' % (what, g.describe(n), cls))
        ctx.check(not bad, rule, fname + ':refusal-first', site(fn),
                  '%s refuses non-heap %s objects; nothing of the object is changed on a path that has not passed that refusal' % (fname, types),
                  bad[:4] or None)
    return n_fn


def check_heap_only(P, ctx, unit, field, rule, types, skip=()):
    """every realloc/free of the buffer field is dominated by the refusal of
    stack and static objects"""
    u = P.units[unit]
    n_sites = 0
    for fname, fn in sorted(u['functions'].items()):
        if not fn['params'] or fname in skip:
            continue
        N = util.Norm(P, fn)
        sites = buffer_sites(P, fn, field, N)
        if not sites:
            continue
        g = P.cfg(fn)
        ctx.fn(fn)
        for (n, c, nm) in sites:
            n_sites += 1
            NE = util.Norm(P, fn, expand_locals=True, inline=False)
            for cls in ('AllocStack', 'AllocStatic'):
                gd = alloc_guards(g, cls, NE)
                ok = dominated_by_guard(g, n['id'], gd, 'ValueError') is not None
                ctx.check(ok, rule, '%s:%s:%s' % (fname, nm, cls), site(fn, n['line']),
                          '%s of the %s buffer is dominated by the refusal (ValueError) of %s objects' % (nm, types, cls),
                          ['site: %s' % g.describe(n)])
    return n_sites


def check_sizes(P, ctx):
    rule = 'C16.size-covers-write'
    H = ('arrow', ('param', 0), 'val')

    def P_(fn, e, N):
        return poly.from_expr(N.canon(e))

    def strlen_atom(x):
        return poly.Poly.atom(ir.fmt(ir.canon(('call', ('func', 'strlen'), (x,)))))

    # --- String_Assign: realloc(strlen(src)+1) then strcpy(buf, src)
    for fname, writer in (('String_Assign', 'strcpy'), ('String_Concat', 'strcat')):
        fn = P.fn(fname)
        g = P.cfg(fn)
        ctx.fn(fn)
        N = util.Norm(P, fn, expand_locals=True)
        re = [(n, c) for n in g.live() if n['expr'] is not None for c in ir.calls(n['expr']) if ir.callee_name(c) == 'realloc']
        wr = [(n, c) for n in g.live() if n['expr'] is not None for c in ir.calls(n['expr']) if ir.callee_name(c) == writer]
        ok = len(re) == 1 and len(wr) == 1
        detail = None
        if ok:
            (rn, rc), (wn, wc) = re[0], wr[0]
            req = P_(fn, rc[2][1], N)
            dst, src = N.canon(wc[2][0]), N.canon(wc[2][1])
            need = strlen_atom(src) + poly.Poly.const(1)
            if writer == 'strcat':
                need = need + strlen_atom(dst)
            stored = ir.top_nocast(rn['expr'])
            ok = dst == H and N.canon(rc[2][0]) == H and stored[0] == 'assign' and N.canon(stored[2]) == H and \
                req == need and g.must_pass(wn['id'], [rn['id']])
            detail = ['requested: %r' % req, 'written by %s: %r' % (writer, need)]
        ctx.check(ok, rule, fname, site(fn), 'bytes requested from realloc equal the bytes %s then writes (including the terminator), '
                  'and the reallocation dominates the write' % writer, detail)
    # --- String_Resize: realloc(n+1); writes stay below n+1
    fn = P.fn('String_Resize')
    g = P.cfg(fn)
    ctx.fn(fn)
    N = util.Norm(P, fn, expand_locals=False)
    re = [(n, c) for n in g.live() if n['expr'] is not None for c in ir.calls(n['expr']) if ir.callee_name(c) == 'realloc']
    ok = len(re) == 1
    detail = []
    if ok:
        rn, rc = re[0]
        req = P_(fn, rc[2][1], N)
        npar = poly.Poly.atom('arg1')
        ok = req == npar + poly.Poly.const(1)
        detail.append('requested: %r' % req)
        for n in g.live():
            if n['expr'] is None or n is rn:
                continue
            for ev in util.expr_events(n['expr'], n):
                if ev['t'] == 'write':
                    lhs = N.canon(ev['lhs'])
                    if lhs[0] == 'idx' and lhs[1] == H:
                        ext = poly.from_expr(lhs[2]) + poly.Poly.const(1)
                        good = (req - ext)
                        # req - ext must be a non-negative constant
                        cv = good.const_value()
                        detail.append('store %s extent %r' % (ir.fmt(lhs), ext))
                        ok = ok and cv is not None and cv >= 0 and g.must_pass(n['id'], [rn['id']])
                elif ev['t'] == 'call' and ev['name'] == 'memset':
                    d = N.canon(ev['args'][0])
                    ln = poly.from_expr(N.canon(ev['args'][2]))
                    off = None                      # &buf[i]  or  buf + i  (either order; the canonical form sorts the operands)
                    if d[0] == 'un' and d[1] == '&' and d[2][0] == 'idx' and d[2][1] == H:
                        off = d[2][2]
                    elif d[0] == 'bin' and d[1] == '+' and H in (d[2], d[3]):
                        off = d[3] if d[2] == H else d[2]
                    elif d == H:
                        off = ('int', 0)
                    if off is not None:
                        ext = poly.from_expr(off) + ln
                        cv = (req - ext).const_value()
                        detail.append('memset from %s length %r: extent %r' % (ir.fmt(d), ln, ext))
                        ok = ok and cv is not None and cv >= 0 and g.must_pass(n['id'], [rn['id']])
                        # only on the growing branch (n > m), where the length n-m is non-negative
                    else:
                        ok = False
    ctx.check(ok, rule, 'String_Resize', site(fn), 'realloc requests n+1 bytes and every later store into the buffer stays below that extent', detail)
    # --- String_Clear: realloc 1, store index 0
    fn = P.fn('String_Clear')
    g = P.cfg(fn)
    ctx.fn(fn)
    N = util.Norm(P, fn)
    re = [(n, c) for n in g.live() if n['expr'] is not None for c in ir.calls(n['expr']) if ir.callee_name(c) == 'realloc']
    ok = len(re) == 1 and poly.from_expr(N.canon(re[0][1][2][1])).const_value() is not None and poly.from_expr(N.canon(re[0][1][2][1])).const_value() >= 1
    st = [ev for n in g.live() if n['expr'] is not None for ev in util.expr_events(n['expr'], n) if ev['t'] == 'write' and
          N.canon(ev['lhs'])[0] == 'idx' and N.canon(ev['lhs'])[1] == H]
    ok = ok and len(st) == 1 and N.canon(st[0]['lhs'])[2] == ('int', 0) and util.const_int(st[0]['rhs']) == 0
    ctx.check(ok, rule, 'String_Clear', site(fn), 'one byte is requested and the terminator is stored at index 0')
    # --- String_Format_To (Linux branch), evaluated on byte memory: whatever route the text takes (measured first and then written in
    # place, or formatted into a scratch buffer and copied), afterwards the buffer the String owns holds the old prefix [0, pos), the
    # complete formatted text at [pos, pos+length) and a terminator behind it, all inside what was requested from realloc; the formatted
    # length is returned; the caller's va_list is consumed at most once.  vsnprintf(dst, n, ...) is modelled as C defines it: it returns
    # the full length and stores at most n-1 characters plus a terminator.
    from . import cint
    fn = P.fn('String_Format_To')
    ctx.fn(fn)
    bad, unsup = None, None
    OLD, NEW, FMT, VA, VACOPY = 700000, 800000, 7200, 77, 78
    import re as _re
    lens = {0, 5, 63, 64, 65, 200}
    for n_ in P.cfg(fn).live():                   # lengths around the size of every local buffer of the function
        d_ = n_.get('decl')
        m_ = _re.match(r'^.*\[(\d+)\]$', str(d_.get('type') or '').strip()) if d_ else None
        if m_ and 1 < int(m_.group(1)) <= 4096:
            lens |= {int(m_.group(1)) - 1, int(m_.group(1)), int(m_.group(1)) + 1}
    for pos in (0, 3):
        for ln in sorted(lens):
            st = {'req': None, 'memory': {}, 'used': {VA: 0, VACOPY: 0}, 'buf': NEW if False else OLD, 'oob': None}

            def put(dst, i, v, it):
                if isinstance(dst, tuple) and dst[0] == 'ep':
                    it.atoms[('elem', dst[1], dst[2] + i, None)] = v
                elif isinstance(dst, int) and dst != 0:
                    if st['req'] is not None and NEW <= dst + i < NEW + 4096 and dst + i >= NEW + st['req']:
                        st['oob'] = st['oob'] or (dst + i - NEW)
                    st['memory'][dst + i] = v

            def fetch(src, i, it):
                if isinstance(src, tuple) and src[0] == 'ep':
                    return it.atoms.get(('elem', src[1], src[2] + i, None), 'undefined')
                return st['memory'].get(src + i, 'undefined')

            def fmt_into(dst, n, lst, it, bounded):
                if lst not in st['used']:
                    raise cint.NoEval('formats with something that is not the argument list or its copy')
                st['used'][lst] += 1
                k = ln if not bounded else (min(ln, n - 1) if n > 0 else 0)
                if dst != 0 and (not bounded or n > 0):
                    for i in range(k):
                        put(dst, i, ('txt', i), it)
                    put(dst, k, 0, it)
                return ln

            def call(nm, e, it, ln=ln):
                if nm in ('__builtin_va_copy', 'va_copy'):
                    if it.ev(e[2][1]) != VA:
                        raise cint.NoEval('va_copy of something else')
                    it.store(e[2][0], VACOPY)
                    return 0
                if nm in ('__builtin_va_end', 'va_end'):
                    return 0
                if nm == 'vsnprintf':
                    d_, n_, f_, l_ = (it.ev(x) for x in e[2])
                    if f_ != FMT:
                        raise cint.NoEval('another format')
                    return fmt_into(d_, n_, l_, it, True)
                if nm == '_vscprintf':
                    st['used'][it.ev(e[2][1])] += 1
                    return ln
                if nm == 'vsprintf':
                    d_, f_, l_ = (it.ev(x) for x in e[2])
                    if f_ != FMT:
                        raise cint.NoEval('another format')
                    return fmt_into(d_, None, l_, it, False)
                if nm == 'header':
                    return ('ep', 'hdr', 0)
                if nm == 'realloc':
                    if it.ev(e[2][0]) != st['buf']:
                        raise cint.NoEval('realloc of something that is not the buffer')
                    st['req'] = it.ev(e[2][1])
                    st['buf'] = NEW
                    for i in range(pos):
                        st['memory'][NEW + i] = ('old', i)            # realloc keeps the old contents
                    return NEW
                if nm in ('memcpy', 'memmove', 'strncpy'):
                    d_, s_, n_ = (it.ev(x) for x in e[2])
                    for i in range(n_):
                        put(d_, i, fetch(s_, i, it), it)
                    return d_
                if nm == 'strcpy':
                    d_, s_ = (it.ev(x) for x in e[2])
                    i = 0
                    while i < 5000:
                        v_ = fetch(s_, i, it)
                        put(d_, i, v_, it)
                        if v_ == 0 or v_ == 'undefined':
                            break
                        i += 1
                    return d_
                raise cint.NoEval('call %s' % nm)

            def rd(a, it):
                return st['memory'].get(a, 'undefined') if isinstance(st['memory'].get(a, 'undefined'), int) else 255

            def wr(a, v, w, it):
                put(a, 0, v, it)
            atoms = {('global', 'NULL'): 0, ('elem', 'self', 0, 'val'): OLD, ('elem', 'hdr', 0, 'alloc'): P.enums.get('AllocHeap', 1)}
            it = cint.CInt(P, fn, atoms=atoms, call=call, mem=rd, memw=wr, strict=True, max_steps=4000)
            it.atoms = atoms
            r = it.run([('ep', 'self', 0), pos, FMT, VA])
            label = 'position %d, formatted length %d' % (pos, ln)
            if r[0] == 'stuck':
                unsup = unsup or '%s: %s' % (label, r[1])
                continue
            buf = atoms.get(('elem', 'self', 0, 'val'))
            msg = None
            if r[0] != 'ret':
                msg = 'does not return'
            elif buf != NEW or st['req'] is None:
                msg = 'the String does not end up owning a buffer obtained from realloc'
            elif st['req'] < pos + ln + 1:
                msg = 'requests %d bytes for the buffer; position + length + terminator is %d' % (st['req'], pos + ln + 1)
            elif st['oob'] is not None:
                msg = 'writes at offset %d of a buffer of %d bytes' % (st['oob'], st['req'])
            else:
                got = [st['memory'].get(NEW + i, 'undefined') for i in range(pos + ln + 1)]
                want = [('old', i) for i in range(pos)] + [('txt', i) for i in range(ln)] + [0]
                if got != want:
                    k = [i for i in range(len(want)) if got[i] != want[i]][0]
                    msg = 'the buffer does not hold the formatted text: byte %d is %s, expected %s' % (k, got[k], want[k] if want[k] != 0 else 'the terminator')
                elif r[1] != ln:
                    msg = 'returns %s, %d characters were written' % (r[1], ln)
                elif st['used'][VA] > 1:
                    msg = 'the caller\'s argument list is consumed %d times' % st['used'][VA]
            if msg and bad is None:
                bad = '%s: %s' % (label, msg)
    if unsup and not bad:
        ctx.undecided(rule, 'String_Format_To', site(fn), 'leaves the evaluated fragment: ' + unsup)
    else:
        ctx.check(bad is None, rule, 'String_Format_To', site(fn),
                  'the formatted length is measured with vsnprintf(NULL,0) on a copy of the va_list, pos+length+1 bytes are requested, '
                  'and vsprintf writes at offset pos with the original format and list', [bad] if bad else None)
    ctx.floor(rule, 5)


def check_search(P, ctx):
    """results of strstr/strchr used as pointers must be null-tested first"""
    rule = 'C16.search-result-checked'
    u = P.units['src/String.c']
    for fname, fn in sorted(u['functions'].items()):
        g = P.cfg(fn)
        for n in g.live():
            d = n.get('decl')
            e = ir.top_nocast(n['expr']) if n['expr'] is not None else None
            if e is None or e[0] != 'assign' or ir.top_nocast(e[2])[0] != 'local':
                continue
            rhs = ir.top_nocast(e[3])
            if rhs[0] != 'call' or ir.callee_name(rhs) not in SEARCH:
                continue
            ctx.fn(fn)
            v = ir.top_nocast(e[2])
            cv = ('local', v[1])

            def pred(c, x):
                if c[0] == 'bin' and c[1] in ('==', '!=') and ((c[2] == ('int', 0) and c[3] == cv) or (c[3] == ('int', 0) and c[2] == cv)):
                    return c[1] == '=='
                if c == cv:
                    return False
                return None
            gd = guards_of(g, pred)
            uses = []
            for m in g.live():
                if m['expr'] is None or m is n:
                    continue
                for x in ir.walk(m['expr']):
                    if x[0] == 'call' and any(util.mentions(a, lambda y: y[:2] == ('local', v[1]) and y[2] == v[2]) for a in x[2]):
                        uses.append((m, 'passed to %s' % (ir.callee_name(x) or 'an indirect call')))
                    elif x[0] == 'un' and x[1] == '*' and util.mentions(x[2], lambda y: y[:2] == ('local', v[1]) and y[2] == v[2]):
                        uses.append((m, 'dereferenced'))
                    elif x[0] == 'idx' and util.mentions(x[1], lambda y: y[:2] == ('local', v[1]) and y[2] == v[2]):
                        uses.append((m, 'indexed'))
            for (m, how) in uses:
                ok = any(g.must_pass(m['id'], through_edges=[(gn['id'], not bad)]) and m['id'] not in g.reach_from(succ_of(gn, bad) if succ_of(gn, bad) is not None else g.exit)
                         for (gn, bad) in gd)
                ctx.check(ok, rule, '%s:%s:%s' % (fname, v[1], how.split()[-1] if how.startswith('passed') else how), site(fn, m['line']),
                          'the result of %s (NULL when the operand does not occur) is %s only after a NULL test' % (ir.callee_name(rhs), how),
                          ['search: %s' % g.describe(n), 'use:    %s' % g.describe(m)])
    ctx.floor(rule, 2)


def check_rem_extent(P, ctx):
    """String_Rem: memmove(dst=pos, src=pos+L, len) must move exactly the tail after the occurrence, terminator included"""
    rule = 'C16.rem-moves-tail'
    fn = P.fn(P.slot('String', 'Get', 'rem'))
    g = P.cfg(fn)
    ctx.fn(fn)
    N = util.Norm(P, fn, expand_locals=True)
    mm = [(n, c) for n in g.live() if n['expr'] is not None for c in ir.calls(n['expr']) if ir.callee_name(c) == 'memmove']
    ok = len(mm) == 1
    detail = []
    if ok:
        n, c = mm[0]
        dst, src, ln = (N.canon(a) for a in c[2])
        pd, ps, pl = poly.from_expr(dst), poly.from_expr(src), poly.from_expr(ln)
        gap = ps - pd
        tail = poly.Poly.atom(ir.fmt(ir.canon(('call', ('func', 'strlen'), (dst,))))) + poly.Poly.const(1) - gap
        is_search = dst[0] == 'call' and ir.callee_name(dst) in SEARCH and ir.canon(dst[2][0]) == ('arrow', ('param', 0), 'val')
        needle = dst[2][1] if is_search else None
        gap_ok = needle is not None and gap == poly.Poly.atom(ir.fmt(ir.canon(('call', ('func', 'strlen'), (needle,)))))
        ok = is_search and gap_ok and pl == tail
        detail = ['dst = %s' % ir.fmt(dst), 'src - dst = %r' % gap, 'length moved  = %r' % pl, 'tail incl. NUL = %r' % tail]
    ctx.check(ok, rule, fn['name'], site(fn), 'rem deletes the first occurrence by moving exactly the rest of the string '
              '(strlen(occurrence) - strlen(operand) + 1 bytes) over it', detail)
    # ... and deletes nothing else: every change of the buffer in rem happens at the place the search for the *first* occurrence
    # returned (a shortcut that cuts the string somewhere else — at the end, say — removes a later occurrence)
    NW = util.Norm(P, fn)
    bad = None
    searches = [n for n in g.live() if n['expr'] is not None and any(ir.callee_name(c) in SEARCH for c in ir.calls(n['expr']))]
    for (wn, what) in buffer_writes(P, fn, 'val', NW) + [(n, 'memmove') for (n, c) in mm]:
        if not searches or not g.must_pass(wn['id'], [x['id'] for x in searches]):
            bad = bad or '%s at %s is reachable without the search for the first occurrence' % (what, g.describe(wn))
    for n in g.live():
        if n['expr'] is None:
            continue
        for ev in util.expr_events(n['expr'], n):
            if ev['t'] == 'write':
                t = ir.top_nocast(N.canon(ev['lhs']))
                if (t[0] == 'idx' or (t[0] == 'un' and t[1] == '*')) and not (searches and g.must_pass(n['id'], [x['id'] for x in searches])):
                    bad = bad or 'store `%s` at %s is reachable without the search for the first occurrence' % (ir.fmt(t)[:40], g.describe(n))
    ctx.check(bad is None, rule, fn['name'] + ':only-at-first-occurrence', site(fn), 'rem changes the buffer only where the search for the first occurrence pointed', [bad] if bad else None)
    ctx.floor(rule, 2)


def check_delegation(P, ctx):
    rule = 'C16.delegation'
    H = ('arrow', ('param', 0), 'val')

    def single_ret(fname):
        fn = P.fn(fname)
        g = P.cfg(fn)
        ctx.fn(fn)
        rets = [n for n in g.live() if n['kind'] == 'ret']
        N = util.Norm(P, fn, expand_locals=True)
        return fn, (N.canon(rets[0]['expr']) if len(rets) == 1 and len([n for n in g.live() if n['kind'] in ('cond', 'term')]) == 0 else None)
    c_obj = ir.canon(('call', ('func', 'c_str'), (('param', 'obj', 1),)))
    want = {
        ('Len', 'len'): ir.canon(('call', ('func', 'strlen'), (H,))),
        ('Cmp', 'cmp'): ir.canon(('call', ('func', 'strcmp'), (H, c_obj))),
        ('Hash', 'hash'): ir.canon(('call', ('func', 'hash_data'), (H, ('call', ('func', 'strlen'), (H,))))),
        ('C_Str', 'c_str'): H,
    }
    for (C, m), exp in want.items():
        fname = P.slot('String', C, m)
        fn, got = single_ret(fname)
        ctx.check(got == exp, rule, 'String.%s.%s' % (C, m), site(fn), '%s is exactly %s on the object\'s own buffer' % (m, ir.fmt(exp)),
                  ['got: %s' % (ir.fmt(got) if got is not None else 'not a single straight-line return')])
    # mem: substring test via strstr(self buffer, c_str of the operand)
    fn = P.fn(P.slot('String', 'Get', 'mem'))
    g = P.cfg(fn)
    ctx.fn(fn)
    N = util.Norm(P, fn, expand_locals=True)
    ss = [(n, c) for n in g.live() if n['expr'] is not None for c in ir.calls(n['expr']) if ir.callee_name(c) == 'strstr']
    ok = len(ss) == 1 and ss[0][0]['kind'] == 'ret'
    if ok:
        c = ss[0][1]
        a0, a1 = N.canon(c[2][0]), N.canon(c[2][1])
        ok = a0 == H and a1[0] == 'call' and ir.top_nocast(a1[2][0]) == ('param', 1) and \
            (ir.callee_name(a1) == 'c_str' or (ir.top_nocast(a1[1])[0] == 'arrow' and ir.top_nocast(a1[1])[2] == 'c_str'))
    ctx.check(ok, rule, 'String.Get.mem', site(fn), 'mem is the substring test strstr(own buffer, c_str(operand))')
    ctx.floor(rule, 5)


class SA(Exception):
    pass


def eval_string_self_assign(P):
    """String's assign with the object itself as the source (a Tree or Table re-assigns a key it already holds from the caller's key, which
    may be that very key object): afterwards the String holds what it held.  Evaluated at the level of characters; realloc keeps the block
    where it is when the size does not grow beyond it (the only case the unchanged code relies on), a shrunk block loses its tail.
    -> (mismatch, unsupported)"""
    fn = P.fn(P.slot('String', 'Assign', 'assign'))
    bad, unsup = None, None
    for text in (b'key', b'', b'a longer key value'):
        atoms = {('global', 'NULL'): 0, ('elem', 'self', 0, 'val'): ('ep', 'buf', 0), ('elem', 'hdr', 0, 'alloc'): None}
        cap = {'buf': len(text) + 1}
        for i, c in enumerate(text + b'\0'):
            atoms[('elem', 'buf', i, None)] = c

        def cstr(v, it):
            v = cint._strp(v)
            if not (isinstance(v, tuple) and v[0] == 'ep'):
                raise cint.NoEval('string operand %r' % (v,))
            out = []
            for k in range(200):
                if isinstance(v[1], tuple) and v[1][0] == 'strlit':
                    bs = v[1][1].encode('latin-1', 'replace') + b'\0'
                    c = bs[v[2] + k] if v[2] + k < len(bs) else 0
                else:
                    if v[1] in cap and v[2] + k >= cap[v[1]]:
                        raise SA('reads past the end of the string\'s block (no terminator inside it)')
                    c = it.atoms.get(('elem', v[1], v[2] + k, None))
                    if c is None:
                        raise SA('reads a byte of the block that was never written')
                if c == 0:
                    return bytes(out)
                out.append(c & 0xff)
            raise SA('unterminated string')

        def put(d, data, it):
            for k, c in enumerate(data):
                if d[1] in cap and d[2] + k >= cap[d[1]]:
                    raise SA('writes byte %d of a block of %d bytes' % (d[2] + k, cap[d[1]]))
                it.atoms[('elem', d[1], d[2] + k, None)] = c

        def call(nm, e, it):
            if nm == 'header':
                return ('ep', 'hdr', 0)
            if nm in ('c_str', 'String_C_Str'):
                if it.ev(e[2][0]) != ('ep', 'self', 0):
                    raise cint.NoEval('c_str of something else')
                return it.atoms[('elem', 'self', 0, 'val')]
            if nm == 'strlen':
                return len(cstr(it.ev(e[2][0]), it))
            if nm == 'free':
                p = it.ev(e[2][0])
                if isinstance(p, tuple) and p[0] == 'ep' and p[1] in cap:
                    # the block is gone: whatever still points into it reads released memory
                    for k in range(cap[p[1]]):
                        it.atoms.pop(('elem', p[1], k, None), None)
                    cap[p[1]] = 0
                    return 0
                raise cint.NoEval('free of %r' % (p,))
            if nm in ('malloc', 'calloc'):
                n = it.ev(e[2][-1]) * (it.ev(e[2][0]) if nm == 'calloc' else 1)
                name = 'buf%d' % (len(cap) + 1)
                cap[name] = n
                if nm == 'calloc':
                    for k in range(n):
                        it.atoms[('elem', name, k, None)] = 0
                return ('ep', name, 0)
            if nm == 'realloc':
                p, n = it.ev(e[2][0]), it.ev(e[2][1])
                if p != ('ep', 'buf', 0):
                    raise cint.NoEval('realloc of %r' % (p,))
                # in place; bytes beyond the new size are gone
                for k in range(n, cap['buf']):
                    it.atoms.pop(('elem', 'buf', k, None), None)
                cap['buf'] = n
                return p
            if nm in ('strcpy', 'strcat'):
                d, s_ = it.ev(e[2][0]), it.ev(e[2][1])
                data = cstr(s_, it) + b'\0'
                if nm == 'strcat':
                    d = ('ep', d[1], d[2] + len(cstr(d, it)))
                put(d, data, it)
                return it.ev(e[2][0])
            if nm in ('memcpy', 'memmove'):
                d, s_, n = it.ev(e[2][0]), cint._strp(it.ev(e[2][1])), it.ev(e[2][2])
                data = bytes((it.atoms.get(('elem', s_[1], s_[2] + k, None)) or 0) & 0xff for k in range(n))
                put(d, data, it)
                return d
            if nm in ('format_to', 'print_to_with', 'format_to_va'):
                raise cint.NoEval('formatted write')
            raise cint.NoEval('call %s' % nm)
        it = cint.CInt(P, fn, atoms=atoms, call=call, recurse=True, strict=True, max_steps=2000)
        it.atoms = atoms
        try:
            it.atoms[('elem', 'hdr', 0, 'alloc')] = it.ev(('enum', 'AllocHeap'))
        except cint.NoEval:
            it.atoms[('elem', 'hdr', 0, 'alloc')] = 3
        lab = 'a heap String holding %r assigned from itself' % text.decode()
        try:
            r = it.run([('ep', 'self', 0), ('ep', 'self', 0)])
        except SA as x:
            bad = bad or '%s: %s' % (lab, x)
            continue
        if r[0] != 'ret':
            unsup = unsup or '%s: %s' % (lab, r[1])
            continue
        try:
            got = cstr(atoms[('elem', 'self', 0, 'val')], it)
        except SA as x:
            bad = bad or '%s: afterwards %s' % (lab, x)
            continue
        if got != text:
            bad = bad or '%s: afterwards it holds %r' % (lab, got.decode('latin-1'))
    return bad, unsup



def check_generic_resize(P, ctx, rule='C16.resize-reaches-the-type'):
    """resize(x, n) hands (x, n) to the type's own Resize member for every n — larger, smaller or equal to the current length, and 0 —
    exactly once (a dispatcher that decides for itself that a request needs nothing never truncates a String).  Evaluated."""
    fn = P.fn('resize')
    ctx.fn(fn)
    bad, unsup = None, None
    for n in (0, 1, 5, 10, 11, 1000):
        ev_ = []

        def call(nm, e, it, ev_=ev_):
            if nm in ('method_at_offset', 'instance', 'type_instance'):
                return ('ep', 'inst', 0)
            if nm in ('implements', 'implements_method_at_offset', 'type_implements'):
                return 1
            if nm == 'len':
                return 10
            if nm == 'type_of':
                return 8500
            if nm is None:
                ev_.append([it.ev(a) for a in e[2]])
                return 0
            raise cint.NoEval('call %s' % nm)
        atoms = {('global', 'NULL'): 0, ('global', 'Resize'): 8600, ('global', 'Len'): 8601, ('elem', 'inst', 0, 'resize'): 4242, ('offsetof',): 0}
        it = cint.CInt(P, fn, atoms=atoms, call=call, recurse=False, strict=True)
        it.atoms = atoms
        r = it.run([5000, n])
        if r[0] != 'ret':
            unsup = unsup or 'resize(x, %d): %s' % (n, r[1])
        elif ev_ != [[5000, n]]:
            bad = bad or 'resize(x, %d) on an object of length 10: the type\'s resize member is %s' % (n, 'not called' if not ev_ else 'called with %s' % ev_)
    if unsup and not bad:
        ctx.undecided(rule, 'resize', site(fn), 'leaves the evaluated fragment: ' + unsup)
    else:
        ctx.check(bad is None, rule, 'resize', site(fn), 'resize(x, n) calls the type\'s Resize member once with (x, n), for n above, at and below the current length and for 0', [bad] if bad else None)
    ctx.floor(rule, 1)


def check_self_assign(P, ctx, rule='C16.assign-from-itself'):
    fn = P.fn(P.slot('String', 'Assign', 'assign'))
    ctx.fn(fn)
    bad, unsup = eval_string_self_assign(P)
    if unsup and not bad:
        ctx.undecided(rule, fn['name'], site(fn), 'leaves the evaluated fragment: ' + unsup)
    else:
        ctx.check(bad is None, rule, fn['name'], site(fn), 'a String assigned from itself holds what it held (evaluated at character level)', [bad] if bad else None)
    ctx.floor(rule, 1)


def run(ctx, load):
    Pp = load(['src/Show.c', 'src/String.c', 'src/File.c', 'src/Num.c', 'src/Exception.c'], 'default')
    P = load(UNITS, 'default')
    ctx.stats['units'] = set(UNITS) | {'src/Show.c'}
    ctx.stats['configs'] = ['default']
    n = check_heap_only(P, ctx, 'src/String.c', 'val', 'C16.heap-only', 'String')
    ctx.stats['call_sites'] += n
    ctx.floor('C16.heap-only', 12)
    check_refusal_covers_mutation(P, ctx, 'src/String.c', 'val', 'C16.heap-only', 'String')
    ctx.floor('C16.heap-only', 18)
    check_self_assign(P, ctx)
    check_generic_resize(load(None, 'default'), ctx)
    ctx.config = 'default'
    # hash is a function of the characters alone: hash_data reads inside the value and hashes the same bytes the same at any address (C10)
    from .rules_c10 import check_hash_data
    Ph = load(None, 'default')
    ctx.config = 'default'
    ctx.borrow('C16.hash-of-the-characters', 2, lambda: check_hash_data(Ph, ctx))
    # a String shown at a position other than 0 is written there: show threads the position (C14)
    from .rules_c14 import check_position_threaded
    ctx.borrow('C16.show-threads-the-position', 1, lambda: check_position_threaded(Ph, ctx), only=lambda o: o['key'].startswith('String'))
    check_sizes(P, ctx)
    check_search(P, ctx)
    check_rem_extent(P, ctx)
    check_delegation(P, ctx)
    # formatted writes reach a String through print_to_with: each piece goes to the sink and the position advances by what the
    # sink reports (shared with C14) — a position that runs ahead leaves the terminator of an earlier piece inside the text
    from .rules_c14 import check_print
    before = len(ctx.obs)
    check_print(Pp, ctx)
    for o in ctx.obs[before:]:
        o['rule'] = 'C16.formatted-write-' + o['rule'].split('.', 1)[1]
    for k in list(ctx.floors):
        if k[0].startswith('C14.'):
            ctx.floors.pop(k)
    ctx.floor('C16.formatted-write-specifier-table', 8)


EXPLANATION = (
    'Decided: (a) heap-only — every realloc/free of the character buffer in String.c is dominated by the refusal (ValueError) of '
    'stack and static objects; (b) size-covers-write — byte counts requested from realloc equal/exceed what strcpy/strcat/'
    'memset/index stores/vsprintf then write, terminator included (polynomial identity over strlen terms), and the reallocation '
    'dominates the write; (c) search-result-checked — a strstr/strchr result is dereferenced or handed to a C function only '
    'after a NULL test; (d) rem moves exactly the tail after the first occurrence; (e) len/cmp/hash/c_str/mem delegate to '
    'strlen/strcmp/hash_data(strlen)/buffer/strstr on the object\'s own buffer with operands in order. Not decided: contents after '
    'arbitrary operation histories (value level), behaviour of the C library functions themselves.')
