"""C09 — cmp is a consistent total order and the predicates derive from it."""
from . import ir, util, loops
from .report import site
from .front import AnalysisBroken
from .loops import NoEval
from .rules_c12 import guards_of, throw_only, succ_of

UNITS = ['src/Cmp.c', 'src/Num.c', 'src/String.c', 'src/Type.c', 'src/Array.c', 'src/List.c', 'src/Tuple.c',
         'src/Tree.c', 'src/Table.c', 'src/Thread.c', 'src/Iter.c', 'src/Exception.c']
NARROW = {'int', 'short', 'char', 'signed char', 'unsigned int', 'unsigned short', 'unsigned char', 'float'}
LIB3 = {'strcmp', 'memcmp', 'cmp', 'strncmp', 'strcoll'}
SCALAR = ['Int', 'Float', 'String', 'Type', 'Thread', 'Range', 'Slice']
SAMPLES_INT = [(0, 0), (1, 2), (2, 1), (-5, 3), (3, -5), (1 << 32, 0), (0, 1 << 32), (3000000000, 0), (-(1 << 62), 1 << 62), ((1 << 62), -(1 << 62)), (5, 5)]
SAMPLES_FLT = [(0.0, 0.0), (1.5, 2.5), (2.5, 1.5), (-1e300, 1e300), (1e300, -1e300), (1e-310, 0.0), (0.0, 1e-310), (0.25, 0.25)]


def sign(x):
    return (x > 0) - (x < 0)


def side(e):
    """which operand an expression is built from: 'self', 'obj', 'both', or 'none'"""
    ps = {x[1] if len(x) == 2 else x[2] for x in ir.walk(e) if x[0] == 'param'}
    if ps == {0}:
        return 'self'
    if ps == {1}:
        return 'obj'
    return 'both' if ps else 'none'


def fev(e, env):
    """float-capable evaluator for sign expressions"""
    e = ir.top_nocast(e)
    if e in env:
        return env[e]
    k = e[0]
    if k == 'int':
        return e[1]
    if k == 'float':
        return float(e[1])
    if k == 'un' and e[1] == '-':
        return -fev(e[2], env)
    if k == 'un' and e[1] == '!':
        return 0 if fev(e[2], env) else 1
    if k == 'cond':
        return fev(e[2], env) if fev(e[1], env) else fev(e[3], env)
    if k == 'bin':
        op = e[1]
        if op == '&&':
            return 1 if fev(e[2], env) and fev(e[3], env) else 0
        if op == '||':
            return 1 if fev(e[2], env) or fev(e[3], env) else 0
        a, b = fev(e[2], env), fev(e[3], env)
        if op == '-':
            r = a - b
            return r
        if op == '+':
            return a + b
        if op == '*':
            return a * b
        return {'<': a < b, '<=': a <= b, '>': a > b, '>=': a >= b, '==': a == b, '!=': a != b}[op] and 1 or 0
    raise NoEval('cannot evaluate %s' % ir.fmt(e))


def classify_return(P, fn, N, e):
    """-> (kind, detail). kinds: literal, lib3, sign-expr, narrowing, other"""
    raw = N.norm(e)
    t = ir.top_nocast(raw)
    for x in ir.walk(raw):
        if x[0] in ('icast', 'cast') and x[1] in ('double', 'float', 'long double'):
            inner = ir.top_nocast(x[2])
            if any(y[0] == 'call' and ir.callee_name(y) in ('c_int', 'Int_C_Int', 'Thread_C_Int') for y in ir.walk(inner)) or \
                    (inner[0] == 'arrow' and len(inner) > 3 and inner[3] in ('long', 'unsigned long')):
                return 'narrowing', 'the 64-bit integer `%s` is converted to %s before it is compared: integers above 2^53 that differ collapse to the same value, so cmp returns 0 for unequal operands' % (ir.fmt(ir.canon(inner)), x[1])
    # narrowing conversions anywhere at the top of the returned value
    x = raw
    while ir.is_expr(x) and x[0] in ('cast', 'icast'):
        if x[1] in NARROW and ir.top_nocast(x[2])[0] in ('bin', 'un', 'call', 'arrow', 'local', 'param') and not (ir.top_nocast(x[2])[0] == 'call' and ir.callee_name(ir.top_nocast(x[2])) in LIB3):
            inner = ir.top_nocast(x[2])
            if inner[0] == 'bin' and inner[1] in ('-', '+', '*', '/'):
                return 'narrowing', 'the %s result of `%s` is converted to %s: high bits / fraction are discarded, so the sign returned is not the sign of the difference' % (
                    'arithmetic', ir.fmt(ir.canon(inner)), x[1])
            if inner[0] != 'cond':
                return 'narrowing', '`%s` is converted to %s' % (ir.fmt(ir.canon(inner)), x[1])
        x = x[2]
    c = ir.canon(raw)
    if c[0] == 'int':
        return ('literal', c[1]) if c[1] in (-1, 0, 1) else ('other', 'constant %d' % c[1])
    if c[0] == 'un' and c[1] == '-' and c[2] == ('int', 1):
        return 'literal', -1
    if c[0] == 'call' and ir.callee_name(c) in LIB3:
        a, b = c[2][0], c[2][1]
        if ir.callee_name(c) in ('strncmp', 'memcmp') and len(c[2]) == 3:
            # a bounded comparison covers both values only if the bound is their byte length: for strings strlen(operand) + 1
            # (terminator included), for plain objects the size of the type
            bnd = c[2][2]
            okb = False
            for sub in ir.walk(bnd):
                if sub[0] == 'call' and ir.callee_name(sub) in ('strlen', 'size', 'sizeof'):
                    okb = True
                if sub[0] == 'sizeof':
                    okb = True
            if ir.callee_name(c) == 'strncmp':
                okb = any(sub[0] == 'call' and ir.callee_name(sub) == 'strlen' for sub in ir.walk(bnd))
            if not okb:
                return 'other', 'the bounded comparison %s does not provably cover the whole of both values (its bound is not the byte length of an operand)' % ir.fmt(c)
        if side(a) == 'self' and side(b) == 'obj':
            return 'lib3', ir.fmt(c)
        return 'other', 'operands of %s are not (self, obj) in that order: %s' % (ir.callee_name(c), ir.fmt(c))
    if c[0] == 'cond':
        return 'sign-expr', c
    if c[0] == 'local':
        return 'local', c
    return 'other', ir.fmt(c)


def check_scalar_cmps(P, ctx):
    rule = 'C09.three-way-discipline'
    for T, fname in P.slots_of_class('Cmp', 'cmp'):
        if not P.types[T]['unit'].startswith('src/'):
            continue
        fn = P.fn(fname)
        if fname in ('Array_Cmp', 'List_Cmp', 'Tuple_Cmp', 'Tree_Cmp', 'Table_Cmp'):
            continue      # element-wise comparisons are judged by evaluation against the lexicographic order (container-cmp)
        g = P.cfg(fn)
        ctx.fn(fn)
        N = util.Norm(P, fn, expand_locals=True, keep={'c_int', 'c_float', 'c_str', 'cmp', 'cast', 'get', 'iter_init', 'iter_next', 'len'})
        rets = [n for n in g.live() if n['kind'] == 'ret' and n['expr'] is not None]
        bad = None
        kinds = []
        for r in rets:
            kind, d = classify_return(P, fn, N, r['expr'])
            kinds.append(kind)
            if kind in ('narrowing', 'other'):
                bad = bad or (r, d)
            elif kind == 'sign-expr':
                if T in ('Int', 'Float', 'Thread'):
                    why = check_sign_expr(P, fn, d)
                else:
                    # a type the property does not name (Range, Slice, ...: ordered by several fields, or by identity of what they view): the
                    # return is a sign expression reached under guards this per-return check does not see; what can still go wrong
                    # whatever the guards is taking the sign of a difference of the two sides
                    why = None
                    if any(x[0] == 'bin' and x[1] == '-' and side(x) == 'both' for x in ir.walk(d)):
                        why = 'two values are subtracted before their sign is taken: the difference overflows (or is truncated) for operands far apart'
                if why:
                    bad = bad or (r, why)
            elif kind == 'local':
                # a variable: every value it can hold must itself be three-way disciplined (container cmps return literals only)
                bad = bad or (r, 'returns the variable `%s` whose value is not a literal -1/0/1 at this point' % ir.fmt(d))
        key = '%s.Cmp.cmp' % T
        if bad:
            ctx.refuted(rule, key, site(fn, bad[0]['line']), 'cmp must return the sign of the comparison for every pair of values: ' + bad[1],
                        ['return: %s' % g.describe(bad[0])])
        else:
            ctx.proved(rule, key, site(fn), 'every returned value is a literal -1/0/1, a C three-way comparison of (self, obj), or a sign expression over the two values (%s)' % sorted(set(kinds)))
    ctx.floor(rule, 7)


def check_sign_expr(P, fn, c):
    """c: canonical conditional expression. Must compute sign(A - B) for the self value A and the obj value B."""
    atoms = set()
    for x in ir.walk(c):
        if x[0] in ('call', 'arrow') and side(x) in ('self', 'obj'):
            # maximal value atoms: calls or field reads built from exactly one operand
            atoms.add(x)
    # keep maximal ones only
    maximal = [a for a in atoms if not any(a is not b and any(y == a for y in ir.walk(b)) for b in atoms)]
    A = [a for a in maximal if side(a) == 'self']
    B = [a for a in maximal if side(a) == 'obj']
    if len(set(A)) != 1 or len(set(B)) != 1:
        return 'the sign expression is not a function of one value of self and one value of obj (%s / %s)' % ([ir.fmt(a) for a in set(A)], [ir.fmt(b) for b in set(B)])
    a, b = A[0], B[0]
    # are these the numeric values? (accessor of the object's value field / c_int / c_float) — not a reinterpretation
    def numeric(x):
        if x[0] == 'arrow' and x[2] == 'val':
            return True
        if x[0] == 'call' and ir.callee_name(x) in ('c_int', 'c_float', 'Int_C_Int', 'Float_C_Float', 'Thread_C_Int'):
            return True
        return False
    if not numeric(a) or not numeric(b):
        return 'the compared quantities `%s`, `%s` are not the numeric values of the two objects' % (ir.fmt(a), ir.fmt(b))
    isfloat = any(ir.callee_name(x) in ('c_float', 'Float_C_Float') for x in (a, b) if x[0] == 'call') or fn['name'].startswith('Float')
    if not isfloat and any(x[0] == 'bin' and x[1] == '-' and side(x) == 'both' for x in ir.walk(c)):
        return 'the two 64-bit integers are subtracted before their sign is taken: the difference overflows for operands far apart'
    samples = SAMPLES_FLT if isfloat else SAMPLES_INT
    for (va, vb) in samples:
        try:
            r = fev(c, {a: va, b: vb})
        except NoEval as e:
            return 'sign expression not evaluable (%s)' % e
        if sign(r) != sign(va - vb) or r not in (-1, 0, 1):
            return 'for values (%r, %r) the expression yields %r, the order requires %d' % (va, vb, r, sign(va - vb))
    return None


def check_identity_cursor_contained(P, ctx, rule='C09.tuple-walks-by-position'):
    """Tuple's cursor functions find their position by object identity (a recorded known finding of C11: a Tuple that holds the same
    object twice is not walked correctly).  Nothing in the library may build on them: Tuple's own cmp, hash, show, ... walk by index, and
    that is what keeps `cmp(tuple(x, x), ...)` right.  Who-may-call rule: the cursor functions are referenced by the Iter instance only."""
    names = {P.slot('Tuple', 'Iter', m, required=False) for m in ('iter_init', 'iter_next', 'iter_last', 'iter_prev')} - {None}
    users = []
    for fn in P.all_functions():
        if not fn['unit'].startswith('src/') or fn.get('body') is None or fn['name'] in names:
            continue
        for e, ln in ir.all_exprs(fn['body']):
            for x in ir.walk(e):
                if x[0] == 'func' and x[1] in names and x[1].endswith(('_Next', '_Prev')):
                    users.append((fn, ln, x[1]))
    for fn, ln, nm in users[:3]:
        ctx.fn(fn)
        ctx.refuted(rule, '%s:uses:%s' % (fn['name'], nm), site(fn, ln), '%s steps through a Tuple with %s, which finds its position by identity: wrong as soon as the Tuple holds an object twice' % (fn['name'], nm))
    ctx.check(len(names) == 4, rule, 'anchor', 'src/Tuple.c', 'Tuple\'s four cursor functions are the members of its Iter instance (%s)' % ', '.join(sorted(names)))
    if not users:
        ctx.proved(rule, 'no-internal-user', 'src/', 'no function of the library steps through a Tuple with its identity-based cursor functions')
    ctx.floor(rule, 2)


def check_predicates(P, ctx):
    rule = 'C09.predicates'
    want = {'eq': {0}, 'neq': {-1, 1}, 'gt': {1}, 'lt': {-1}, 'ge': {0, 1}, 'le': {-1, 0}}
    cmpcall = ir.canon(('call', ('func', 'cmp'), (('param', 'self', 0), ('param', 'obj', 1))))
    for name, truth in want.items():
        fn = P.fn(name)
        ctx.fn(fn)
        ab = util.accessor_body(P, name)
        ok = ab is not None
        got = None
        if ok:
            N = util.Norm(P, fn, keep={'cmp'})
            e = ir.canon(N.inline_only(ab[1], 4))
            got = set()
            try:
                for s in (-1, 0, 1):
                    for mag in (1, 7):
                        if fev(e, {cmpcall: s * mag}):
                            got.add(s)
                        elif s in got and mag == 7:
                            got.discard(s)
            except NoEval:
                ok = False
            ok = ok and got == truth
        ctx.check(ok, rule, name, site(fn), '%s(a,b) holds exactly when cmp(a,b) has sign in %s (for any magnitude of the result)' % (name, sorted(truth)),
                  ['derived truth set: %s' % (sorted(got) if got is not None else 'not a pure function of cmp(self, obj)')])
    ctx.floor(rule, 6)


def decision_rows(P, fname):
    """role-normalised decision table of an element-wise container comparison"""
    fn = P.fn(fname)
    g = P.cfg(fn)
    N = util.Norm(P, fn, inline=False)
    roles = {}
    for n in g.live():
        d = n.get('decl')
        if d and d['init'] is not None:
            t = ir.top_nocast(d['init'])
            v = ('local', d['name'], d['id'])
            if t[0] == 'call' and ir.callee_name(t) == 'iter_init' and ir.top_nocast(t[2][0])[0] == 'param' and ir.top_nocast(t[2][0])[2] == 1:
                roles[v] = ('local', 'B')
            elif t[0] == 'call' and (ir.callee_name(t) or '').endswith('_Iter_Init') and ir.top_nocast(t[2][0])[0] == 'param' and ir.top_nocast(t[2][0])[2] == 0:
                roles[v] = ('local', 'A')
            elif t[0] == 'idx' and util.mentions_field(t, 'items'):
                roles[v] = ('local', 'A')
    for e, _ in ir.all_exprs(fn['body']):
        for x in ir.walk(e):
            if x[0] == 'assign' and ir.top_nocast(x[2])[0] == 'local' and ir.top_nocast(x[3])[0] == 'call' and ir.callee_name(ir.top_nocast(x[3])) == 'cmp':
                roles[ir.top_nocast(x[2])] = ('local', 'C')
    for n in g.live():
        d = n.get('decl')
        if d and d['init'] is not None and ir.top_nocast(d['init'])[0] == 'call' and ir.callee_name(ir.top_nocast(d['init'])) == 'cmp':
            roles[('local', d['name'], d['id'])] = ('local', 'C')
    if ('local', 'A') not in roles.values() or ('local', 'B') not in roles.values() or ('local', 'C') not in roles.values():
        return None, 'cursors over self / obj or the element comparison result not found'

    def rc(e):
        return ir.fmt(N.canon(ir.subst(ir.nocast(e), roles)))
    rows = set()
    cmps = set()
    advances = set()
    for path in g.paths(max_visits=1):
        end = util.path_end(path)
        if end[0] != 'ret':
            continue
        conds = []
        for ev in util.path_events(path):
            if ev['t'] == 'cond':
                conds.append((rc(ev['expr']), bool(ev['val'])))
            elif ev['t'] == 'write' and ir.top_nocast(ev['lhs']) in roles and ev['rhs'] is not None:
                r = roles[ir.top_nocast(ev['lhs'])][1]
                if r == 'C':
                    cmps.add(rc(ev['rhs']))
                else:
                    advances.add((r, rc(ev['rhs'])))
        rows.add((tuple(conds), ir.fmt(ir.canon(end[1])) if end[1] is not None else None))
    # advances happen on the back edge (not on single-iteration paths): collect them from the whole body
    for n in g.live():
        if n['expr'] is None:
            continue
        for ev in util.expr_events(n['expr'], n):
            if ev['t'] == 'write' and ir.top_nocast(ev['lhs']) in roles and ev['rhs'] is not None and roles[ir.top_nocast(ev['lhs'])][1] != 'C':
                advances.add((roles[ir.top_nocast(ev['lhs'])][1], rc(ev['rhs'])))
    return (frozenset(rows), frozenset(cmps), frozenset(advances)), None


class Mismatch(Exception):
    pass


def eval_container_cmp(P, fname, is_map):
    """Evaluate an element-wise container comparison: the own container is a small concrete instance (absmodel: 0..2 elements, the
    type's accessors and cursor functions evaluated from their source), the other one an abstract sequence B1..Bq (q in 0..2) reached
    through iter_init/iter_next/get; every outcome of the element comparisons from {-5, 0, 7} (cmp need not return -1/0/1), exact C
    semantics for the conditions (cint).  The result must be the lexicographic three-way comparison, as -1/0/1.
    Returns (number of scenarios, first mismatch or None, unsupported reason or None)."""
    from . import cint, absmodel
    import itertools
    fn = P.fn(fname)
    T = fname.split('_')[0]
    TERM = absmodel.TERM
    SELF = absmodel.SELF
    OBJ = ('ep', 'obj', 0)
    n_eval = 0
    own_scen = {0: [], 1: [], 2: []}
    for sc in absmodel.scenarios(T):
        M0 = absmodel.build(P, T, sc)
        if M0.n in own_scen and (T not in ('Tree',) or sc[1] == 0) and len(own_scen[M0.n]) < 2:
            own_scen[M0.n].append(sc)
    for p in range(3):
        for sc in own_scen[p]:
            for q, same_type, has_cmp in [(b_, st_, hc_) for b_ in range(3) for st_ in (False, True) for hc_ in (1, 0)]:
                m = min(p, q)
                results = [(-5, 0, 7)] * (m * (2 if is_map else 1))
                for combo in itertools.product(*results) if results else [()]:
                    kc = combo[:m]
                    vc = combo[m:] if is_map else ()
                    exp = None
                    for i in range(m):
                        if kc[i] != 0:
                            exp = -1 if kc[i] < 0 else 1
                            break
                        if is_map and vc[i] != 0:
                            exp = -1 if vc[i] < 0 else 1
                            break
                    if exp is None:
                        exp = 0 if p == q else (-1 if p < q else 1)
                    M = absmodel.build(P, T, sc)
                    A, AV = M.elems, M.vals

                    def Bt(j):
                        return 200000 + j if 1 <= j <= q else TERM
                    OWN = 8000 + ('Array', 'List', 'Tuple', 'Tree', 'Table').index(T)

                    def call(nm, e, it, kc=kc, vc=vc, p=p, q=q, same_type=same_type, has_cmp=has_cmp, A=A, AV=AV, M=M):
                        if nm in ('memcmp', 'strcmp', 'strncmp'):
                            raise Mismatch('compares raw storage with %s (padding bytes and stored pointers are not part of the value)' % nm)
                        if nm in ('type_implements', 'implements'):
                            return has_cmp
                        if nm == 'type_of':
                            a0 = it.ev(e[2][0])
                            return OWN if (a0 == SELF or same_type) else 8999
                        if nm == 'cast':
                            return it.ev(e[2][0])
                        args = [it.ev(a) for a in e[2]]
                        first = args[0] if args else None
                        if nm == 'len' and first == OBJ:
                            return q
                        if nm == 'len' and first == SELF:
                            return p
                        if nm == 'iter_init' and first == OBJ:
                            return Bt(1)
                        if nm == 'iter_next' and first == OBJ:
                            return Bt(args[1] - 200000 + 1) if isinstance(args[1], int) and args[1] > 200000 else TERM
                        if nm in ('Table_Get', 'Tree_Get', 'get') and first == SELF:
                            if args[1] in A:
                                return AV[A.index(args[1])]
                            raise Mismatch('looks up something that is not one of its own keys')
                        if nm == 'get' and first == OBJ and isinstance(args[1], int) and 200000 < args[1] < 300000:
                            return 400000 + (args[1] - 200000)
                        if nm == 'cmp':
                            x, y = args
                            for own, oth, tab in ((A, 200000, kc), (AV, 400000, vc)):
                                if x in own and isinstance(y, int) and oth < y < oth + 100:
                                    i, j = own.index(x) + 1, y - oth
                                    if i == j and i - 1 < len(tab):
                                        return tab[i - 1]
                                    raise cint.NoEval('elements at different positions are compared')
                                if y in own and isinstance(x, int) and oth < x < oth + 100:
                                    i, j = own.index(y) + 1, x - oth
                                    if i == j and i - 1 < len(tab):
                                        return -tab[i - 1]
                                    raise cint.NoEval('elements at different positions are compared')
                            raise Mismatch('cmp is applied to something that is not an element of self and the element of obj at the same position '
                                           '(a value address computed with the wrong offset, for instance)')
                        raise cint.NoEval('call %s' % nm)
                    atoms = M.atoms
                    atoms[('elem', 'obj', 0, 'nitems')] = q          # the other container's plain fields, should the code read them (same type)
                    for f_, v_ in (('type', 8500), ('ktype', 8500), ('vtype', 8501), ('tsize', 8), ('ksize', 8), ('vsize', 16), ('data', 700000), ('nslots', q + 2)):
                        atoms[('elem', 'obj', 0, f_)] = v_
                    for gi, gname in enumerate(('Array', 'List', 'Tuple', 'Tree', 'Table')):
                        atoms[('global', gname)] = 8000 + gi
                    it = cint.CInt(P, fn, atoms=atoms, call=call, recurse=True, mem=M.mem, N=util.Norm(P, fn, expand_locals=False, inline=False), max_steps=4000)
                    try:
                        r = it.run([SELF, OBJ])
                    except (Mismatch, absmodel.Mismatch) as mm:
                        return n_eval, 'own sequence of %d, other of %d%s: %s' % (p, q, ' (a container of the same type)' if same_type else '', mm), None
                    n_eval += 1
                    if r[0] == 'stuck':
                        return n_eval, None, '%s at %s' % (r[1], P.cfg(fn).describe(r[2]))
                    got = r[1] if r[0] == 'ret' else r[0]
                    if got != exp:
                        return n_eval, ('own sequence of %d (%s), other of %d, element comparisons %s%s: returns %s, the lexicographic order gives %s' % (
                            p, M.label, q, list(kc), (' / values %s' % list(vc)) if is_map else '', got, exp)), None
    return n_eval, None, None


def check_container_cmps(P, ctx):
    rule = 'C09.container-cmp'
    for fname, is_map in (('Array_Cmp', False), ('List_Cmp', False), ('Tuple_Cmp', False), ('Tree_Cmp', True), ('Table_Cmp', True)):
        fn = P.fn(fname)
        ctx.fn(fn)
        n, bad, unsup = eval_container_cmp(P, fname, is_map)
        ctx.stats['paths'] += n
        if unsup:
            ctx.undecided(rule, fname, site(fn), 'the comparison leaves the evaluated fragment: ' + unsup)
            continue
        ctx.check(bad is None, rule, fname + ':lexicographic', site(fn),
                  'the %s comparison is the lexicographic three-way comparison of the two element sequences%s, returned as -1/0/1, for element '
                  'comparisons of any magnitude (%d scenarios: lengths 0..2, each element comparison negative / zero / positive)' % (
                      'map' if is_map else 'sequence', ' (key, then value)' if is_map else '', n), [bad] if bad else None)
    ctx.floor(rule, 5)


def check_container_cmps_old(P, ctx):
    rule = 'C09.container-cmp'
    groups = {'sequence': ['Array_Cmp', 'List_Cmp', 'Tuple_Cmp'], 'map': ['Tree_Cmp', 'Table_Cmp']}
    for gname, fns in groups.items():
        forms = {}
        for f in fns:
            rows, why = decision_rows(P, f)
            ctx.fn(P.fn(f))
            if rows is None:
                ctx.undecided(rule, f, site(P.fn(f)), why)
                continue
            forms[f] = rows
        if len(forms) < 2:
            continue
        from collections import Counter
        cnt = Counter(r[0] for r in forms.values())
        best = cnt.most_common(1)[0][0]
        for f, (rows, cmps, adv) in forms.items():
            fn = P.fn(f)
            extra = sorted(rows - best)
            missing = sorted(best - rows)
            ok = rows == best
            detail = []
            if extra:
                detail.append('decisions only here: %s' % [('%s -> %s' % (' & '.join('%s=%s' % (c, 'T' if v else 'F') for c, v in r[0]), r[1])) for r in extra][:3])
            if missing:
                detail.append('decisions of the siblings missing here: %s' % [('%s -> %s' % (' & '.join('%s=%s' % (c, 'T' if v else 'F') for c, v in r[0]), r[1])) for r in missing][:3])
            ctx.check(ok, rule, f + ':decisions', site(fn), 'the %s comparison decides exactly as its siblings: both exhausted -> 0, self first -> -1, other first -> +1, first differing element decides' % gname, detail)
            okc = all(c.startswith('cmp(A, B)') or c.startswith('cmp(') for c in cmps) and any(c == 'cmp(A, B)' for c in cmps)
            ctx.check(okc, rule, f + ':element-order', site(fn), 'elements are compared as cmp(own element, other\'s element), in that order', ['comparisons: %s' % sorted(cmps)])
        # the expected table itself (anchored once, on the majority form)
        AT, BT = '(Terminal == A)', '(Terminal == B)'
        exp = {(((AT, True), (BT, True)), '0'),
               (((AT, True), (BT, False), (AT, True)), '-1'),
               (((AT, False), (AT, False), (BT, True)), '1')}
        have = {(r[0], r[1]) for r in best}
        ctx.check(exp <= have, rule, gname + ':table', 'src/', 'the shared decision table contains: both exhausted -> 0, self exhausted first -> -1, other exhausted first -> +1',
                  ['missing: %s' % sorted(exp - have)] if not exp <= have else None)
    ctx.floor(rule, 10)


def check_default(P, ctx):
    from . import evals
    rule = 'C09.default'
    fn = P.fn('cmp')
    ctx.fn(fn)
    bad, unsup = evals.eval_default_dispatch(P, 'cmp', 'cmp', 'memcmp', 'lib')
    for key, what in (('bytewise', 'without a Cmp instance, objects are compared byte-wise over size(type) bytes as memcmp(self, obj) only when both have the same type and a non-zero size; otherwise TypeError'),
                      ('dispatch', 'a type\'s own comparison is called with (self, obj) in order and its result returned unchanged')):
        if unsup and not bad[key]:
            ctx.undecided(rule, 'cmp:' + key, site(fn), 'cmp leaves the evaluated fragment: ' + unsup)
        else:
            ctx.check(bad[key] is None, rule, 'cmp:' + key, site(fn), what + ' (evaluated)', [bad[key]] if bad[key] else None)
    ctx.floor(rule, 2)


def run(ctx, load):
    P = load(UNITS, 'default')
    ctx.stats['units'] = set(UNITS)
    ctx.stats['configs'] = ['default']
    check_scalar_cmps(P, ctx)
    check_predicates(P, ctx)
    check_identity_cursor_contained(P, ctx)
    from . import evals
    evals.report_type_cmp(P, ctx, 'C09.type-order', site, what=('cmp',))
    ctx.floor('C09.type-order', 1)
    check_container_cmps(P, ctx)
    check_default(P, ctx)


EXPLANATION = (
    'Decided: (a) three-way discipline — every function in a Cmp.cmp slot returns only literals -1/0/1, a C three-way comparison '
    '(strcmp/memcmp/cmp) of (self-derived, obj-derived) operands in that order, or a cast-free sign expression over the numeric value of '
    'self and of obj that evaluates to sign(a-b) on a sample set including operands 2^32 and 2^63 apart; narrowing conversions of a '
    'difference and 64-bit integer subtraction are refuted; (b) eq/neq/gt/lt/ge/le are pure functions of cmp(self,obj) with the required '
    'truth sets over the sign; (c) the container comparisons share one role-normalised decision table per family (sequence / map) and '
    'compare cmp(own element, other\'s element); (d) the byte-wise default applies only to equal types of non-zero size, else TypeError. '
    'Not decided: value-level laws of strcmp/memcmp and of floating subtraction beyond the sampled sign behaviour; NaN.')
