"""C11 — iteration agrees with len and get, forwards and backwards, for views too."""
from . import ir, util, loops, mirror
from .report import site
from .front import AnalysisBroken
from .loops import NoEval
from .rules_c12 import guards_of, succ_of

UNITS = ['src/Iter.c', 'src/Array.c', 'src/List.c', 'src/Table.c', 'src/Tree.c', 'src/Tuple.c', 'src/Exception.c']
WITNESS = '/verif/witness/macros.c'
CONTAINERS = ['Array', 'List', 'Table', 'Tree', 'Tuple']


def count_atoms(P, fn, N):
    """canonical expressions that denote 'number of elements' of self in fn"""
    out = {('arrow', ('param', 0), 'nitems'), ir.canon(('call', ('func', 'Tuple_Len'), (('param', 'self', 0),)))}
    return out


def check_empty_guard(P, ctx):
    rule = 'C11.empty-guard'
    targets = [(T, P.slot(T, 'Iter', 'iter_last')) for T in CONTAINERS] + [(T, P.slot(T, 'Iter', 'iter_init')) for T in CONTAINERS] + \
              [('Array', P.slot('Array', 'Push', 'pop')), ('List', P.slot('List', 'Push', 'pop')), ('Tuple', P.slot('Tuple', 'Push', 'pop'))]
    for T, fname in targets:
        fn = P.fn(fname)
        g = P.cfg(fn, lower_ternary=True)
        ctx.fn(fn)
        N = util.Norm(P, fn, expand_locals=True, inline=False)
        counts = count_atoms(P, fn, N)
        slots = ('arrow', ('param', 0), 'nslots')
        sites = []
        for n in g.live():
            if n['expr'] is None or n['kind'] == 'cond':
                continue
            c = N.canon(n['expr'])
            for x in ir.walk(c):
                if x[0] == 'bin' and x[1] == '-' and x[3] == ('int', 1) and (x[2] in counts or x[2] == slots):
                    sites.append((n, x[2]))
                    break
            else:
                # direct use of the last/first link of a list, or of items[0]: covered when it can hold no stale value
                pass
        key = fname
        if not sites:
            ctx.proved(rule, key, site(fn), 'addresses no element through `count - 1`')
            continue
        bad = None
        for (n, cnt) in sites:
            # some dominating condition over the element count must exclude count == 0 on the way to this access
            ok = False
            for cn in g.live():
                if cn['kind'] != 'cond' or not g.must_pass(n['id'], [cn['id']]):
                    continue
                c = N.canon(cn['expr'])
                atoms = [a for a in counts if util.mentions(c, lambda y, a=a: y == a)]
                if not atoms:
                    continue
                for pol in (True, False):
                    if not g.must_pass(n['id'], through_edges=[(cn['id'], pol)]) or n['id'] in g.reach_from(succ_of(cn, not pol)) and not g.must_pass(n['id'], through_edges=[(cn['id'], pol)]):
                        continue
                    # with count == 0 the branch `pol` must not be taken, whatever the other operands are
                    excl = True
                    others = [y for y in ir.walk(c) if y[0] in ('param', 'local') and y not in atoms]
                    for ov in (0, 1, 5):
                        env = {a: 0 for a in atoms}
                        for y in others:
                            env[y] = ov
                        try:
                            if bool(loops.ev(c, env)) == pol:
                                excl = False
                        except NoEval:
                            excl = False
                    if excl:
                        ok = True
            if not ok:
                bad = bad or (n, cnt)
        if bad:
            ctx.refuted(rule, key, site(fn, bad[0]['line']),
                        'the element at index `%s - 1` is addressed without a dominating test that the container is not empty: for an empty container the '
                        'unsigned index wraps and memory outside the container is read (the sibling containers return Terminal / raise first)' % ir.fmt(bad[1]),
                        ['access: %s' % g.describe(bad[0])])
        else:
            ctx.proved(rule, key, site(fn), 'every `count - 1` access (%d) is dominated by a test that excludes the empty container' % len(sites))
    ctx.floor(rule, 13)


def check_array_cursor(P, ctx):
    """Array cursors stay inside [item(0), item(n-1)]: evaluated for concrete geometries"""
    rule = 'C11.cursor-range'
    for which in ('iter_next', 'iter_prev'):
        fn = P.fn(P.slot('Array', 'Iter', which))
        g = P.cfg(fn, lower_ternary=True)
        ctx.fn(fn)
        N = util.Norm(P, fn, expand_locals=True, inline=True)
        data, tsize, nitems, cur = ('arrow', ('param', 0), 'data'), ('arrow', ('param', 0), 'tsize'), ('arrow', ('param', 0), 'nitems'), ('param', 1)
        Hs = ('sizeof', ('type', 'struct Header'))
        bad = None
        ncase = 0
        for n_items in (1, 2, 3, 5):
            for k in range(n_items):
                base, ts, H = 4096, 16, 24
                step = ts + H
                env = {data: base, tsize: ts, nitems: n_items, cur: base + step * k + H, Hs: H}
                # walk the CFG with the concrete environment
                node = g.nodes[g.entry]
                res = None
                guard = 0
                try:
                    while guard < 50:
                        guard += 1
                        if node['kind'] == 'cond':
                            v = loops.ev(N.canon(node['expr']), env)
                            node = g.nodes[succ_of(node, bool(v))]
                            continue
                        if node['kind'] == 'ret':
                            e = N.canon(node['expr'])
                            res = 'Terminal' if e == ('global', 'Terminal') else loops.ev(e, env)
                            break
                        if not node['succ']:
                            break
                        node = g.nodes[node['succ'][0][0]]
                except NoEval as ex:
                    res = 'unevaluable: %s' % ex
                ncase += 1
                want_k = k + 1 if which == 'iter_next' else k - 1
                want = 'Terminal' if want_k < 0 or want_k >= n_items else base + step * want_k + H
                if res != want and bad is None:
                    got = res if not isinstance(res, int) else 'item(%s)' % ((res - base - H) / step if (res - base - H) % step == 0 else '?')
                    bad = 'array of %d items, cursor at item(%d): returns %s, expected %s' % (n_items, k, got, 'Terminal' if want == 'Terminal' else 'item(%d)' % want_k)
        ctx.stats['paths'] += ncase
        if bad:
            ctx.refuted(rule, fn['name'], site(fn), 'a cursor inside the array must step to the neighbouring element or end with Terminal, never leave [item(0), item(n-1)]: ' + bad)
        else:
            ctx.proved(rule, fn['name'], site(fn), 'for every geometry tried (%d cases) the cursor steps to the neighbour or ends with Terminal exactly at the boundary' % ncase)
    ctx.floor(rule, 2)


def check_mirrors(P, ctx, types=('Array', 'List', 'Tuple', 'Table', 'Tree')):
    """the cursor functions of the five containers, evaluated on small instances (absmodel): forwards they yield the elements in order
    and end with Terminal, backwards the reverse"""
    from . import absmodel
    rule = 'C11.cursor-walk'
    for T in types:
        try:
            bad, unsup, ncase = absmodel.eval_cursor_walk(P, T)
        except absmodel.Unsupported as x:
            bad, unsup, ncase = {}, str(x), 0
        ctx.stats['paths'] += ncase
        for m in ('iter_init', 'iter_next', 'iter_last', 'iter_prev'):
            fn = P.fn(P.slot(T, 'Iter', m))
            ctx.fn(fn)
            if unsup and not bad.get(m):
                ctx.undecided(rule, '%s.%s' % (T, m), site(fn), 'the cursor function leaves the evaluated fragment: ' + unsup)
            else:
                ctx.check(bad[m] is None, rule, '%s.%s' % (T, m), site(fn), 'on every small instance (0..3 elements; Table: every occupancy of up to 4 slots; Tree: every shape of up to '
                          '4 nodes) the forward walk yields the elements in order then Terminal, the backward walk the reverse', [bad[m]] if bad[m] else None)
    ctx.floor(rule, 4 * len(types))


def check_direction(P, ctx):
    """views drive the underlying iterable through its cursor functions only, in the matching direction"""
    rule = 'C11.direction'
    FWD, BWD = {'iter_init', 'iter_next'}, {'iter_last', 'iter_prev'}
    CURSOR = FWD | BWD
    ACCESS = {'get', 'set', 'mem', 'rem', 'push', 'pop'}
    for T in ('Filter', 'Map', 'Zip'):
        for m, allowed in (('iter_init', FWD), ('iter_next', FWD), ('iter_last', BWD), ('iter_prev', BWD)):
            fn = P.fn(P.slot(T, 'Iter', m))
            ctx.fn(fn)
            used = {ir.callee_name(c) for c, _ in ir.all_calls(fn['body'])} & (CURSOR | (ACCESS - {'get'} if T == 'Zip' else ACCESS))
            need = 'iter_init' if m == 'iter_init' else 'iter_next' if m == 'iter_next' else 'iter_last' if m == 'iter_last' else 'iter_prev'
            ok = used <= allowed and need in used
            ctx.check(ok, rule, '%s.%s' % (T, m), site(fn), '%s of a %s view uses only %s of the underlying iterable' % (m, T, '/'.join(sorted(allowed))), ['uses: %s' % sorted(used)])
    # Slice: the walk over the underlying iterable is decided by evaluation (C11.slice-ends: every position the cursor functions reach,
    # for every start/stop/step over underlying lengths 0..5; keyed access to the underlying iterable is not in that evaluation's
    # vocabulary and leaves it undecided)
    ctx.floor(rule, 12)


def check_slice_bound(P, ctx):
    rule = 'C11.slice-bound'
    for m in ('iter_next', 'iter_prev'):
        fn = P.fn(P.slot('Slice', 'Iter', m))
        ctx.fn(fn)
        uses_stop = any(util.mentions_field(e, 'stop') or any(ir.callee_name(c) in ('Range_Len', 'Slice_Len', 'len') for c in ir.calls(e)) or util.mentions_field(e, 'value')
                        for e, _ in ir.all_exprs(fn['body']))
        ctx.check(uses_stop, rule, 'Slice.%s' % m, site(fn),
                  'whether the cursor of a slice ends must depend on the slice\'s stop bound; this function reads only the step, so iteration continues past `stop` until the '
                  'underlying iterable ends (slice(a,_,2) of 3 items iterates 3 while its len is 2)')
    ctx.floor(rule, 2)


class ZipMismatch(Exception):
    pass


def _boxed_int(e, it):
    """the integer inside a `$I(expr)` / `$(Int, expr)` stack literal"""
    for x in ir.walk(e):
        if x[0] == 'compound' and isinstance(x[1], str) and x[1].strip() == 'struct Int' and x[2][0] == 'initlist' and len(x[2][1]) == 1:
            return it.ev(x[2][1][0])
    raise ZipMismatch('a key that is not an Int literal')


def eval_zip(P):
    """Zip over n = 0..3 abstract inputs of lengths 0..3 (every combination), evaluated with cint: len is the minimum; the forward walk
    (iter_init, iter_next ... Terminal) yields, for k = 0..min-1, the tuple of every input's k-th element; the backward walk
    (iter_last, iter_prev ...) yields the same tuples in reverse.  Returns {function key: first mismatch or None}, unsupported, count."""
    from . import cint
    import itertools
    TERM = 7777
    SELF = ('ep', 'self', 0)
    fns = {m: P.fn(P.slot('Zip', 'Iter', m)) for m in ('iter_init', 'iter_next', 'iter_last', 'iter_prev')}
    fns['len'] = P.fn(P.slot('Zip', 'Len', 'len'))
    bad = {k: None for k in ('len', 'iter_init', 'iter_next', 'iter_last', 'iter_prev')}
    unsup = None
    ncase = 0
    for n in range(0, 4):
        for lens in itertools.product(range(0, 4), repeat=n):
            m = min(lens) if n else 0
            atoms = {('global', 'Terminal'): TERM, ('global', 'NULL'): 0,
                     ('elem', 'self', 0, 'iters'): ('ep', 'itup', 0), ('elem', 'self', 0, 'values'): ('ep', 'vtup', 0),
                     ('elem', 'itup', 0, 'items'): ('ep', 'its', 0), ('elem', 'vtup', 0, 'items'): ('ep', 'vals', 0)}
            for i in range(n + 1):
                atoms[('elem', 'its', i, None)] = 300 + i if i < n else TERM
                atoms[('elem', 'vals', i, None)] = 9999 if i < n else TERM

            def E(i, k):
                return 1000 * (i + 1) + k if 0 <= k < lens[i] else TERM

            def call(nm, e, it, lens=lens, n=n):
                if nm in ('len', 'Tuple_Len'):
                    x = it.ev(e[2][0])
                    if x == ('ep', 'itup', 0):
                        return n
                    if isinstance(x, int) and 300 <= x < 300 + n:
                        return lens[x - 300]
                    raise ZipMismatch('len of something that is no input')
                if nm in ('iter_init', 'iter_last', 'iter_next', 'iter_prev'):
                    x = it.ev(e[2][0])
                    if not (isinstance(x, int) and 300 <= x < 300 + n):
                        raise ZipMismatch('%s of something that is no input' % nm)
                    i = x - 300
                    if nm == 'iter_init':
                        return E(i, 0)
                    if nm == 'iter_last':
                        return E(i, lens[i] - 1)
                    c = it.ev(e[2][1])
                    if not (isinstance(c, int) and c // 1000 == i + 1 and 0 <= c % 1000 < lens[i]):
                        raise ZipMismatch('input %d is stepped from a cursor that is not one of its own' % i)
                    return E(i, c % 1000 + (1 if nm == 'iter_next' else -1))
                if nm == 'get':
                    x = it.ev(e[2][0])
                    if x != ('ep', 'vtup', 0):
                        raise cint.NoEval('get on %r' % (x,))
                    k = _boxed_int(e[2][1], it)
                    if not 0 <= k < n:
                        raise ZipMismatch('reads position %d of the current tuple of %d' % (k, n))
                    return it.atoms[('elem', 'vals', k, None)]
                raise cint.NoEval('call %s' % nm)

            def run(key, args):
                it = cint.CInt(P, fns[key], atoms=atoms, call=call, recurse=True, max_steps=3000)
                it.atoms = atoms
                return it.run(args)

            def positions():
                return [atoms[('elem', 'vals', i, None)] for i in range(n)]
            label = 'inputs of lengths %s' % (list(lens),)
            key, prevk = 'len', None
            try:
                r = run('len', [SELF])
                ncase += 1
                if r[0] == 'stuck':
                    unsup = unsup or 'Zip_Len, %s: %s' % (label, r[1])
                elif (r[0], r[1]) != ('ret', m):
                    bad['len'] = bad['len'] or '%s: len is %s, the shortest input has %d' % (label, r[1], m)
                for first, step, order in (('iter_init', 'iter_next', list(range(m))), ('iter_last', 'iter_prev', list(range(m - 1, -1, -1)))):
                    key = first
                    args = [SELF]
                    for k in order + [None]:
                        r = run(key, args)
                        ncase += 1
                        if r[0] == 'stuck':
                            unsup = unsup or 'Zip %s, %s: %s' % (key, label, r[1])
                            break
                        got = 'Terminal' if r[1] == TERM else (positions() if r[1] == ('ep', 'vtup', 0) else 'something else (%s)' % (r[1],))
                        want = 'Terminal' if k is None else [E(i, k) for i in range(n)]
                        if got != want:
                            bad[key] = bad[key] or '%s, %s: yields %s, expected %s' % (label, 'first step' if key == first else 'after position %s' % prevk,
                                                                                     got if isinstance(got, str) else 'elements %s' % [g_ % 1000 if g_ != 9999 else '?' for g_ in got],
                                                                                     want if isinstance(want, str) else 'every input at position %d' % k)
                            break
                        prevk = k
                        key = step
                        args = [SELF, ('ep', 'vtup', 0)]
            except ZipMismatch as x:
                bad[key] = bad[key] or '%s: %s' % (label, x)
    return bad, unsup, ncase


def check_zip(P, ctx):
    rule = 'C11.zip-shortest'
    bad, unsup, ncase = eval_zip(P)
    ctx.stats['paths'] += ncase
    for key, oname in (('len', 'Zip_Len'), ('iter_init', 'Zip.iter_init'), ('iter_next', 'Zip.iter_next'), ('iter_last', 'Zip.iter_last'), ('iter_prev', 'Zip.iter_prev')):
        fn = P.fn(P.slot('Zip', 'Len', 'len') if key == 'len' else P.slot('Zip', 'Iter', key))
        ctx.fn(fn)
        if unsup and not bad[key]:
            ctx.undecided(rule, oname, site(fn), 'the zip leaves the evaluated fragment: ' + unsup)
        elif key == 'len':
            ctx.check(bad[key] is None, rule, oname, site(fn), 'the length of a zip is the minimum over all inputs (0..3 inputs of lengths 0..3, every combination evaluated)', [bad[key]] if bad[key] else None)
        else:
            ctx.check(bad[key] is None, rule, oname, site(fn), 'walking the zip yields, for k = 0..shortest-1, the tuple of every input\'s k-th element, then Terminal '
                      '(forwards from iter_init, backwards from iter_last; as soon as one input is exhausted the zip ends)', [bad[key]] if bad[key] else None)
    ctx.floor(rule, 5)


def check_foreach(P, ctx):
    rule = 'C11.foreach'
    f = P.fn('w_foreach')
    g = P.cfg(f)
    conds = [n for n in g.live() if n['kind'] == 'cond']
    body = [n for (n, c) in g.nodes_calling('w_handler')]
    ok = len(conds) == 1 and len(body) == 1
    if ok:
        c = ir.canon(conds[0]['expr'])
        ok = c[0] == 'bin' and c[1] == '!=' and ('global', 'Terminal') in (c[2], c[3])
        x = c[3] if c[2] == ('global', 'Terminal') else c[2]
        inits = [n for n in g.live() if n.get('decl') and ('local', n['decl']['name']) == x]
        steps = [n for n in g.live() if n.get('loop_inc')]
        ok = ok and len(inits) == 1 and len(steps) == 1

        def member_call(e, member):
            for cc in ir.calls(e):
                cal = ir.top_nocast(cc[1])
                if cal[0] == 'arrow' and cal[2] == member:
                    return cc
            return None
        if ok:
            ci = member_call(inits[0]['decl']['init'], 'iter_init')
            cs = member_call(steps[0]['expr'], 'iter_next')
            ok = ci is not None and cs is not None and len(ci[2]) == 1 and len(cs[2]) == 2 and ir.canon(ci[2][0]) == ir.canon(cs[2][0]) and ir.canon(cs[2][1]) == x
            e = ir.canon(steps[0]['expr'])
            ok = ok and e[0] == 'assign' and e[2] == x
            # the iterated object is evaluated once
            obj = [n for n in g.live() if n.get('decl') and ir.top_nocast(n['decl']['init']) == ('param', 'xs', 0)]
            ok = ok and len(obj) == 1 and ir.canon(ci[2][0]) == ('local', obj[0]['decl']['name'])
    ctx.check(ok, rule, 'foreach', 'include/Cello.h (foreach macro)', 'foreach starts with iter_init of the iterated object (evaluated once), steps with iter_next on the same object and the current item, and stops exactly at Terminal')
    ctx.floor(rule, 1)


def check_len_iter_agree(P, ctx):
    """structural agreement between len and the cursors of the basic containers"""
    rule = 'C11.len-agrees'
    # Array/List/Table/Tree: len returns the count field that init/last test for emptiness
    for T in ('Array', 'List', 'Table', 'Tree'):
        fl = P.fn(P.slot(T, 'Len', 'len'))
        ab = util.accessor_body(P, fl['name'])
        ok = ab is not None and ir.canon(ab[1]) == ('arrow', ('param', 0), 'nitems')
        why = None
        for m in ('iter_init', 'iter_last'):
            fn = P.fn(P.slot(T, 'Iter', m))
            g = P.cfg(fn, lower_ternary=True)
            N = util.Norm(P, fn, inline=False)
            cnt = ('arrow', ('param', 0), 'nitems')
            # evaluated, not matched: with a count of 0 the function answers Terminal before anything it cannot decide from the
            # count alone; with a positive count it does not answer Terminal on the strength of the count
            r0 = util.walk_eval(g, N, {cnt: 0})
            if not (r0[0] == 'ret' and r0[1]['expr'] is not None and N.canon(r0[1]['expr']) == ('global', 'Terminal')):
                ok = False
                why = why or '%s: with a count of 0 the walk ends with %s at %s' % (m, r0[0], g.describe(r0[1]))
            for k in (1, 4):
                r1 = util.walk_eval(g, N, {cnt: k})
                if r1[0] == 'ret' and r1[1]['expr'] is not None and N.canon(r1[1]['expr']) == ('global', 'Terminal'):
                    ok = False
                    why = why or '%s: answers Terminal although the count is %d' % (m, k)
        ctx.check(ok, rule, T, site(fl), 'len is the item count, and iteration from either end yields Terminal at once exactly when that count is 0', [why] if why else None)
    ctx.floor(rule, 4)


def check_table_scan(P, ctx):
    """Table iter_init / iter_last look for the first / last occupied slot: with no occupied slot in sight they must have
    examined every index 0..nslots-1 (ascending resp. descending) before answering Terminal.  Decided by walking the function's
    CFG with the analyser's evaluator for nslots = 1..5, answering `unoccupied` at every occupancy test and recording the index."""
    rule = 'C11.slot-scan'
    for m, asc in (('iter_init', True), ('iter_last', False)):
        fn = P.fn(P.slot('Table', 'Iter', m))
        g = P.cfg(fn)
        ctx.fn(fn)
        N = util.Norm(P, fn)
        tests = []
        for n in g.live():
            if n['kind'] != 'cond':
                continue
            cs = [c for c in ir.calls(n['expr']) if ir.callee_name(c) == 'Table_Key_Hash']
            if cs:
                c = N.canon(n['expr'])
                pol = None       # edge label that means "unoccupied"
                if c[0] == 'bin' and c[1] in ('!=', '==') and ('int', 0) in (c[2], c[3]):
                    pol = (c[1] == '==')
                elif c[0] == 'call':
                    pol = False
                tests.append((n, cs[0], pol))
        key = 'Table.%s' % m
        if not tests or any(p is None for (_, _, p) in tests):
            ctx.undecided(rule, key, site(fn), 'occupancy test (Table_Key_Hash(t, i) compared with 0) not found in the scan')
            continue
        bad = None
        for nslots in (1, 2, 3, 4, 5):
            env = {('arrow', ('param', 0), 'nslots'): nslots, ('arrow', ('param', 0), 'nitems'): 1}
            seen = []
            start = None
            for _ in range(3 * nslots + 6):
                why, node, env = util.walk_eval(g, N, env, start=start, stop=[t[0]['id'] for t in tests] if start is None else None)
                if why == 'stop' or (why in ('noeval',) and any(node['id'] == t[0]['id'] for t in tests)):
                    t = [t for t in tests if t[0]['id'] == node['id']][0]
                    try:
                        seen.append(loops.ev(N.canon(t[1][2][1]), env))
                    except loops.NoEval as e:
                        bad = 'slot index `%s` not evaluable (%s)' % (ir.fmt(t[1][2][1]), e)
                        break
                    start = [v for (v, l) in node['succ'] if l == t[2]][0]
                    continue
                break
            if bad:
                break
            want = list(range(nslots)) if asc else list(range(nslots - 1, -1, -1))
            if why not in ('ret', 'exit', 'end'):
                bad = 'with %d slots, all unoccupied in the walk, the scan does not reach a return (%s at %s)' % (nslots, why, g.describe(node))
                break
            if seen != want:
                bad = 'with %d slots the scan examines indices %s before giving up; every slot in %s order is %s' % (
                    nslots, seen, 'ascending' if asc else 'descending', want)
                break
        ctx.check(bad is None, rule, key, site(fn),
                  '%s examines every slot index, %s, before it answers Terminal (nslots = 1..5)' % (m, 'lowest first' if asc else 'highest first'),
                  [bad] if bad else None)
    ctx.floor(rule, 2)


def check_cursor_scratch(P, ctx):
    """The Int a Range owns (`value`) is its cursor: iter_next/iter_prev advance it and get() reuses it for its result.  What
    iter_init, iter_last, len, get and mem of a Range — and of a Slice, which embeds a Range — answer must therefore not depend
    on what that Int currently holds: they may store into it and hand it out, never read it."""
    rule = 'C11.cursor-is-scratch'
    n_fn = 0
    for T in ('Range', 'Slice'):
        for (C, m) in (('Iter', 'iter_init'), ('Iter', 'iter_last'), ('Len', 'len'), ('Get', 'get'), ('Get', 'mem')):
            nm = P.slot(T, C, m, required=False)
            if nm is None:
                continue
            fn = P.fn(nm)
            ctx.fn(fn)
            n_fn += 1
            # locals that alias the cursor object
            alias = set()
            reads = []

            def is_cursor(e):
                e = ir.top_nocast(e)
                if e[0] in ('arrow', 'dot') and e[2] == 'value':
                    return True
                return e[0] == 'local' and e[2] in alias
            g = P.cfg(fn)
            nodes = [n for n in g.live() if n['expr'] is not None]
            for n in nodes:
                e = n['expr']
                if e[0] == 'assign' and e[1] == '=' and ir.top_nocast(e[2])[0] == 'local' and is_cursor(e[3]):
                    alias.add(ir.top_nocast(e[2])[2])
            # save / restore: a local that receives the cursor content and is used for nothing but storing it back does not make
            # the result depend on it
            saved = set()
            for n in nodes:
                e = n['expr']
                if e[0] == 'assign' and e[1] == '=' and ir.top_nocast(e[2])[0] == 'local':
                    r = ir.top_nocast(e[3])
                    if r[0] in ('arrow', 'dot') and r[2] == 'val' and is_cursor(r[1]):
                        lid = ir.top_nocast(e[2])[2]
                        uses = []
                        for m_ in nodes:
                            for x in ir.walk(m_['expr']):
                                if x[0] == 'local' and len(x) > 2 and x[2] == lid and m_ is not n:
                                    uses.append(m_)
                        def restores(m_):
                            t = m_['expr']
                            if t[0] != 'assign' or t[1] != '=':
                                return False
                            l = ir.top_nocast(t[2])
                            return l[0] in ('arrow', 'dot') and l[2] == 'val' and is_cursor(l[1]) and ir.top_nocast(t[3]) == ('local', ir.top_nocast(e[2])[1], lid)
                        if uses and all(restores(m_) for m_ in uses):
                            saved.add(lid)

            def scan(e, n, lhs_store=False):
                if not ir.is_expr(e):
                    return
                k = e[0]
                if k == 'assign':
                    t = ir.top_nocast(e[2])
                    if t[0] in ('arrow', 'dot') and t[2] == 'val' and is_cursor(t[1]):
                        if e[1] != '=':
                            reads.append((n, 'read-modify-write `%s`' % ir.fmt(e)[:60]))
                        scan(e[3], n)
                        return
                    if t[0] == 'local' and is_cursor(e[3]):
                        return          # alias definition
                    if t[0] == 'local' and t[2] in saved:
                        return          # save for a later restore
                    scan(e[3], n)
                    for c in ir.children(t):
                        scan(c, n)
                    return
                if k in ('arrow', 'dot') and e[2] == 'val' and is_cursor(e[1]):
                    reads.append((n, 'reads `%s`' % ir.fmt(e)[:60]))
                    return
                if k == 'local' and e[2] in saved:
                    return
                if k == 'call':
                    for a in e[2]:
                        if is_cursor(a):
                            reads.append((n, 'passes the cursor to %s(...)' % ir.callee_name(e)))
                        else:
                            scan(a, n)
                    return
                for c in ir.children(e):
                    scan(c, n)
            stores = []
            for n in nodes:
                for ev in util.expr_events(n['expr'], n):
                    if ev['t'] == 'write' and ev['op'] == '=':
                        t = ir.top_nocast(ev['lhs'])
                        if t[0] in ('arrow', 'dot') and t[2] == 'val' and is_cursor(t[1]):
                            stores.append(n['id'])
            for n in nodes:
                if n['kind'] == 'ret':
                    if is_cursor(n['expr']):
                        continue
                scan(n['expr'], n)
            # a read that follows this function's own store on every *feasible* path reads that store, not the cursor's history
            # (feasible: a condition over fields this function never writes takes the same outcome each time it is evaluated)
            if reads and stores:
                N_ = util.Norm(P, fn)
                readn = {n['id'] for (n, _) in reads}
                exposed = set()
                for path in g.paths(max_visits=2):
                    facts, ok_path, stored = {}, True, False
                    hit = []
                    for (n, lab) in path:
                        if n['id'] in readn and not stored:
                            hit.append(n['id'])
                        if n['id'] in stores:
                            stored = True
                        if n['kind'] == 'cond':
                            c = N_.canon(n['expr'])
                            if not util.mentions(c, lambda x: x[0] in ('arrow', 'dot') and x[2] == 'val') and not util.mentions(c, lambda x: x[0] == 'call'):
                                if facts.setdefault(c, lab) != lab:
                                    ok_path = False
                                    break
                    if ok_path:
                        exposed.update(hit)
                reads = [(n, w) for (n, w) in reads if n['id'] in exposed]
            ctx.check(not reads, rule, '%s.%s' % (T, m), site(fn, reads[0][0]['line'] if reads else None),
                      '%s of a %s does not depend on the current content of the Range cursor (which get() and the cursor functions overwrite)' % (m, T),
                      ['%s at %s' % (w, g.describe(n)) for (n, w) in reads[:4]] if reads else None)
    ctx.floor(rule, 8)


def range_spec(start, stop, step):
    """the elements a Range denotes, in iteration order (positive step: start, start+step, ... below stop; negative step:
    stop-1, stop-1+step, ... not below start — the reading the forward cursor functions implement)"""
    out = []
    if step > 0:
        v = start
        while v < stop and len(out) < 64:
            out.append(v)
            v += step
    elif step < 0:
        v = stop - 1
        while v >= start and len(out) < 64:
            out.append(v)
            v += step
    return out


def check_range_arithmetic(P, ctx):
    """Range's six functions are integer arithmetic over (start, stop, step) and the cursor.  Each is evaluated on its own by the
    analyser's evaluator (walk of its CFG, C semantics for signed division) over a finite grid of parameters and compared with the
    closed form above: len = number of elements; iter_init / iter_last = first / last element or Terminal when there is none;
    iter_next / iter_prev from the k-th element = the neighbour or Terminal at the ends; get(i) = i-th element, negative i from
    the end.  A bounded evaluation of extracted arithmetic, not a proof for all int64 values."""
    rule = 'C11.range-arithmetic'
    grid = [(a, b, c) for a in range(-3, 5) for b in range(-3, 6) for c in (-3, -2, -1, 1, 2, 3)]
    if ctx.tier == 'thorough':
        grid += [(a, b, c) for a in (-7, 0, 6) for b in range(-9, 12) for c in (-5, -4, 4, 5, 7)]
    R = ('param', 0)
    CUR = ('arrow', ('arrow', R, 'value'), 'val')

    def mk(d, e):
        d = dict(d)
        d.update(e)
        return d

    LEN = ir.canon(('call', ('func', 'Range_Len'), (R,)))

    def base(a, b, c):
        # a call of Range_Len from a sibling is answered with the closed form: Range_Len is checked against it on its own
        return {('arrow', R, 'start'): a, ('arrow', R, 'stop'): b, ('arrow', R, 'step'): c, LEN: len(range_spec(a, b, c))}

    def run(fn, g, N, env):
        why, node, env2 = util.walk_eval(g, N, env, unsigned=False)
        if why == 'ret':
            e = ir.top_nocast(N.canon(node['expr'])) if node['expr'] is not None else None
            if e == ('global', 'Terminal'):
                return ('terminal', None, env2)
            try:
                return ('value', loops.ev(N.canon(node['expr']), env2, unsigned=False), env2)
            except loops.NoEval:
                return ('object', e, env2)
        if why == 'term':
            return ('throw', node['why'], env2)
        return ('stuck', '%s at %s' % (why, g.describe(node)), env2)
    for m in ('len', 'iter_init', 'iter_last', 'iter_next', 'iter_prev', 'get'):
        C = 'Len' if m == 'len' else ('Get' if m == 'get' else 'Iter')
        fn = P.fn(P.slot('Range', C, m))
        g = P.cfg(fn, lower_ternary=True)          # `return c ? Terminal : i` is two returns
        ctx.fn(fn)
        N = util.Norm(P, fn, expand_locals=True)
        bad = None
        n_eval = 0
        for (a, b, c) in grid:
            E = range_spec(a, b, c)
            n = len(E)
            cases = []
            if m == 'len':
                cases.append((base(a, b, c), ('value', n)))
            elif m == 'iter_init':
                cases.append((mk(base(a, b, c), {CUR: 77}), ('cursor', E[0]) if n else ('terminal',)))
            elif m == 'iter_last':
                cases.append((mk(base(a, b, c), {CUR: 77}), ('cursor', E[-1]) if n else ('terminal',)))
            elif m == 'iter_next':
                for k in range(n):
                    cases.append((mk(base(a, b, c), {CUR: E[k]}), ('cursor', E[k + 1]) if k + 1 < n else ('terminal',)))
            elif m == 'iter_prev':
                for k in range(n):
                    cases.append((mk(base(a, b, c), {CUR: E[k]}), ('cursor', E[k - 1]) if k > 0 else ('terminal',)))
            else:
                KEY = ir.canon(('call', ('func', 'c_int'), (('param', 'key', 1),)))
                for i in range(-n - 1, n + 2):
                    want = ('cursor', E[i]) if 0 <= i < n else (('cursor', E[n + i]) if -n <= i < 0 else ('throw',))
                    cases.append((mk(base(a, b, c), {CUR: 77, KEY: i}), want))
            for env, want in cases:
                n_eval += 1
                kind, val, env2 = run(fn, g, N, env)
                got = None
                if kind == 'terminal':
                    got = ('terminal',)
                elif kind == 'throw':
                    got = ('throw',)
                elif kind == 'value':
                    got = ('value', val % (1 << 64) if want[0] == 'value' and val < 0 else val)
                elif kind == 'object':
                    got = ('cursor', env2.get(CUR))
                else:
                    got = (kind, val)
                if got != want:
                    extra = ', cursor at %s' % env.get(CUR) if m in ('iter_next', 'iter_prev') else (', index %s' % env.get(KEY) if m == 'get' else '')
                    bad = 'range(%d, %d, %d)%s: %s gives %s, the elements are %s so it should give %s' % (a, b, c, extra, m, got, E[:8], want)
                    break
            if bad:
                break
        ctx.stats['paths'] += n_eval
        ctx.check(bad is None, rule, 'Range.' + m, site(fn),
                  '%s of a Range agrees with the closed form of its element sequence on %d evaluated parameter points' % (m, n_eval),
                  [bad] if bad else None)
    ctx.floor(rule, 6)


def check_zip_alignment(P, ctx):
    """Zip.iter_last must start every input at the last position common to all inputs (len(zip) - 1), not at the input's own end:
    otherwise backward iteration of inputs of different length pairs up the wrong elements.  Decided by evaluating the function with
    iterables abstracted to positions: iter_last(x) = len(x)-1, iter_prev(x, p) = p-1, Terminal = -1; for two inputs of lengths
    (L0, L1) both must be stored at position min(L0, L1) - 1, or the answer is Terminal when that minimum is 0."""
    rule = 'C11.zip-last-aligned'
    fn = P.fn(P.slot('Zip', 'Iter', 'iter_last'))
    g = P.cfg(fn)
    ctx.fn(fn)
    N = util.Norm(P, fn, expand_locals=True, inline=False)
    Z = ('param', 0)
    ITERS = ('arrow', Z, 'iters')
    bad = None
    n_eval = 0
    for L0 in range(0, 5):
        for L1 in range(0, 5):
            Ls = (L0, L1)
            n = min(Ls)

            def which(a, env):
                a = ir.top_nocast(a)
                if a[0] == 'idx' and util.mentions_field(a[1], 'iters'):
                    return loops.ev(a[2], env, unsigned=False)
                raise loops.NoEval('not an input of the zip: %s' % ir.fmt(a))

            def call(e, env, Ls=Ls, n=n):
                nm = ir.callee_name(e)
                args = [ir.top_nocast(N.canon(a)) for a in e[2]]
                if nm == 'len':
                    return 2 if args[0] == ITERS else Ls[which(args[0], env)]
                if nm == 'Zip_Len':
                    return n
                if nm == 'iter_last':
                    return Ls[which(args[0], env)] - 1
                if nm == 'iter_prev':
                    which(args[0], env)
                    p = loops.ev(args[1], env, unsigned=False)
                    if p < 0:
                        raise loops.NoEval('iter_prev applied to Terminal')
                    return p - 1
                raise loops.NoEval('call %s' % nm)
            env = {'__call__': call, ('global', 'Terminal'): -1}
            why, node, env2 = util.walk_eval(g, N, env, unsigned=False, concrete_idx=True)
            n_eval += 1
            stored = {k[2][1]: v for k, v in env2.items() if isinstance(k, tuple) and k[0] == 'idx' and util.mentions_field(k[1], 'values') and k[2][0] == 'int'}
            if why != 'ret':
                bad = 'inputs of lengths %s: evaluation stops with %s at %s' % (Ls, why, g.describe(node))
            else:
                term = ir.top_nocast(N.canon(node['expr'])) == ('global', 'Terminal')
                if n == 0 and not term:
                    bad = 'inputs of lengths %s: the zip is empty but iter_last does not answer Terminal' % (Ls,)
                elif n > 0 and (term or stored != {0: n - 1, 1: n - 1}):
                    bad = 'inputs of lengths %s: the inputs are positioned at %s, the last common position is %d for both' % (
                        Ls, 'Terminal' if term else stored, n - 1)
            if bad:
                break
        if bad:
            break
    ctx.stats['paths'] += n_eval
    ctx.check(bad is None, rule, 'Zip.iter_last', site(fn),
              'iter_last of a zip positions every input at index len(zip)-1 (evaluated with iterables abstracted to positions, two inputs of lengths 0..4)',
              [bad] if bad else None)
    ctx.floor(rule, 1)


def check_slice_clamp(P, ctx):
    """Slice_Arg turns a start / stop argument into a position of the underlying iterable: counted from the end when negative,
    limited to [0, n] on both sides (that is what its three statements say).  Evaluated with exact C conversions — the
    comparison of a negative int64 with the size_t length is the point — for n = 0..4 and arguments -8..8 (and the int64 extremes)."""
    from . import cint
    rule = 'C11.slice-clamp'
    fn = P.fn('Slice_Arg')
    ctx.fn(fn)
    bad = None
    n_eval = 0
    ARG, UNDERSCORE = 1001, 1002
    vals = list(range(-8, 9)) + [-(1 << 63), (1 << 63) - 1, -(1 << 40), 1 << 40]
    for part in (0, 1, 2):
        for n in range(0, 5):
            for a in vals + ['_']:
                def call(nm, e, it, a=a):
                    if nm == 'c_int':
                        return a
                    raise cint.NoEval('call %s' % nm)
                it = cint.CInt(P, fn, atoms={('global', '_'): UNDERSCORE}, call=call)
                r = it.run([part, n, UNDERSCORE if a == '_' else ARG])
                n_eval += 1
                if a == '_':
                    want = (0, n, 1)[part]
                elif part == 2:
                    want = a
                else:
                    want = a + n if a < 0 else a
                    want = min(max(want, 0), n)
                if r[0] != 'ret' or r[1] != want:
                    bad = 'Slice_Arg(part %d, length %d, argument %s) gives %s; position %s is meant%s' % (
                        part, n, a, r[1] if r[0] == 'ret' else '%s (%s)' % (r[0], r[1]), want,
                        ' (a negative value meets the unsigned length in a comparison)' if isinstance(a, int) and a < 0 else '')
                    break
            if bad:
                break
        if bad:
            break
    ctx.stats['paths'] += n_eval
    ctx.check(bad is None, rule, 'Slice_Arg', site(fn),
              'slice bounds are counted from the end when negative and limited to [0, length] on both sides (%d argument combinations evaluated)' % n_eval,
              [bad] if bad else None)
    ctx.floor(rule, 1)


def check_slice_positions(P, ctx):
    """Slice.iter_init / iter_last position the underlying iterable at the first / last position the slice selects
    (range_spec(start, stop, step) over positions 0..L-1) or answer Terminal when it selects none; iter_next / iter_prev from the
    k-th selected position land on the (k+1)-th / (k-1)-th or answer Terminal at the ends.  Evaluated with the underlying
    iterable abstracted to positions (iter_init = 0, iter_last = L-1, iter_next/iter_prev = +-1, Terminal = -1); the Range
    cursor the Slice embeds is an atom the functions may store into and read (it counts the position within the slice)."""
    from . import cint
    rule = 'C11.slice-ends'
    S = ('param', 0)
    RNG = ('arrow', S, 'range')
    CUR = ('arrow', ('arrow', RNG, 'value'), 'val')
    fns = {m: P.fn(P.slot('Slice', 'Iter', m)) for m in ('iter_init', 'iter_last', 'iter_next', 'iter_prev')}
    Ns = {m: util.Norm(P, f, expand_locals=True, inline=False) for m, f in fns.items()}
    bad = {m: None for m in fns}
    n_eval = {m: 0 for m in fns}

    def run(m, L, a, b, c, E, cur, arg=None):
        def call(nm, e, it):
            if nm == 'len':
                return L
            if nm == 'Range_Len':
                return len(E)
            if nm == 'c_int' and e[2] and ir.top_nocast(it.N.canon(e[2][0])) == ('arrow', RNG, 'value'):
                return it.atoms[CUR]
            if nm == 'iter_init':
                return 0 if L > 0 else -1
            if nm == 'iter_last':
                return L - 1
            if nm in ('iter_next', 'iter_prev'):
                pz = it.ev(e[2][1])
                if pz < 0:
                    raise cint.NoEval('%s applied to Terminal' % nm)
                q = pz + (1 if nm == 'iter_next' else -1)
                return q if 0 <= q < L else -1
            raise cint.NoEval('call %s' % nm)
        atoms = {('arrow', RNG, 'start'): a, ('arrow', RNG, 'stop'): b, ('arrow', RNG, 'step'): c, ('global', 'Terminal'): -1, CUR: cur}
        it = cint.CInt(P, fns[m], atoms=atoms, call=call, N=Ns[m])
        r = it.run([3001] if arg is None else [3001, arg])
        n_eval[m] += 1
        return r, it.atoms.get(CUR)
    for L in range(0, 6):
        for a in range(0, L + 1):
            for b in range(0, L + 1):
                for c in (-3, -2, -1, 1, 2, 3):
                    E = range_spec(a, b, c)
                    ctxt = 'slice over %d items with start %d, stop %d, step %d selects positions %s' % (L, a, b, c, E)
                    # a walk from each end, carrying the cursor content from call to call as the functions leave it
                    for first, step, order in (('iter_init', 'iter_next', E), ('iter_last', 'iter_prev', E[::-1])):
                        if bad[first] or bad[step]:
                            continue
                        r, cur = run(first, L, a, b, c, E, 77)
                        want = order[0] if order else -1
                        if r[0] != 'ret' or r[1] != want:
                            bad[first] = '%s: %s gives %s, expected %s' % (ctxt, first, 'Terminal' if r[1] == -1 else (r[1] if r[0] == 'ret' else '%s: %s' % (r[0], r[1])),
                                                                           'Terminal' if want == -1 else 'position %d' % want)
                            continue
                        for k in range(len(order)):
                            r, cur = run(step, L, a, b, c, E, cur, arg=order[k])
                            want = order[k + 1] if k + 1 < len(order) else -1
                            if r[0] != 'ret' or r[1] != want:
                                bad[step] = '%s: %s from position %d (element %d of the walk) gives %s, expected %s' % (
                                    ctxt, step, order[k], k, 'Terminal' if r[1] == -1 else (r[1] if r[0] == 'ret' else '%s: %s' % (r[0], r[1])),
                                    'Terminal' if want == -1 else 'position %d' % want)
                                break
    for m, fn in fns.items():
        ctx.fn(fn)
        ctx.stats['paths'] += n_eval[m]
        what = {'iter_init': 'lands on the first selected position, or is Terminal for an empty selection',
                'iter_last': 'lands on the last selected position, or is Terminal for an empty selection',
                'iter_next': 'steps to the next selected position and is Terminal after the last one',
                'iter_prev': 'steps to the previous selected position and is Terminal before the first one'}[m]
        ctx.check(bad[m] is None, rule, 'Slice.' + m, site(fn), '%s of a Slice %s (%d evaluations, underlying lengths 0..5)' % (m, what, n_eval[m]),
                  [bad[m]] if bad[m] else None)
    ctx.floor(rule, 4)


def check_slice_get_keeps_position(P, ctx):
    """the position of a Slice walk lives in the Int its Range owns; Range's get writes its answer into that same Int.  get on a Slice
    between two cursor steps must therefore leave the Int as it found it, or the walk continues from the index that was looked up (items
    repeated, skipped, or read past the slice).  Evaluated: Slice's get for every index of slices [start, stop, step] with the walk at
    each position."""
    from . import cint
    rule = 'C11.slice-get-keeps-position'
    fn = P.fn(P.slot('Slice', 'Get', 'get'))
    ctx.fn(fn)
    bad, unsup, ncase = None, None, 0
    for (start, stop, step) in ((0, 3, 1), (2, 6, 1), (1, 7, 2), (0, 6, -1), (2, 8, -2)):
        n = len(range(start, stop, abs(step)))
        for pos in range(start, stop):
            for k in list(range(-n, n)) + [-n - 1, -n - 4, n, n + 3]:
                atoms = {('global', 'NULL'): 0, ('global', 'Terminal'): 7777,
                         ('elem', 'self', 0, 'iter'): 7100, ('elem', 'self', 0, 'range'): ('ep', 'range', 0),
                         ('elem', 'range', 0, 'value'): ('ep', 'rval', 0), ('elem', 'range', 0, 'start'): start, ('elem', 'range', 0, 'stop'): stop,
                         ('elem', 'range', 0, 'step'): step, ('elem', 'rval', 0, 'val'): pos}

                def call(nm, e, it, k=k):
                    if nm == 'c_int':
                        v = it.ev(e[2][0])
                        if v == 9000:
                            return k
                        if v == ('ep', 'rval', 0):
                            return it.atoms[('elem', 'rval', 0, 'val')]
                        if isinstance(v, tuple) and v[0] == 'stack':
                            return v[2][0]
                        raise cint.NoEval('c_int of %r' % (v,))
                    if nm == 'get' and it.ev(e[2][0]) == 7100:
                        a = it.ev(e[2][1])
                        if a == ('ep', 'rval', 0):
                            return 100000 + it.atoms[('elem', 'rval', 0, 'val')]
                        if isinstance(a, tuple) and a[0] == 'stack':
                            return 100000 + a[2][0]
                        raise cint.NoEval('get with %r' % (a,))
                    raise cint.NoEval('call %s' % nm)
                it = cint.CInt(P, fn, atoms=atoms, call=call, recurse=True, strict=True, max_depth=5)
                it.atoms = atoms
                r = it.run([('ep', 'self', 0), 9000])
                ncase += 1
                if r[0] == 'stuck':
                    unsup = unsup or 'slice %d:%d:%d, get(%d): %s' % (start, stop, step, k, r[1])
                    continue
                after = atoms[('elem', 'rval', 0, 'val')]
                if after != pos:
                    bad = bad or 'slice %d:%d:%d with the walk at underlying index %d: after get(%d) the walk stands at %s' % (start, stop, step, pos, k, after)
                if not -n <= k < n:
                    # an index outside the slice is refused, whatever the underlying container holds there
                    if not (r[0] == 'term' and r[1] == ('throw', 'IndexOutOfBoundsError')):
                        bad = bad or 'slice %d:%d:%d (%d items): get(%d) %s, IndexOutOfBoundsError expected' % (
                            start, stop, step, n, k, ('reads the underlying item %s' % (r[1] - 100000 if isinstance(r[1], int) else r[1],)) if r[0] == 'ret' else 'raises %s' % (r[1],))
                    continue
                if r[0] == 'ret':
                    kk = k + n if k < 0 else k
                    want = 100000 + (start + step * kk if step > 0 else stop - 1 + step * kk)
                    if r[1] != want:
                        bad = bad or 'slice %d:%d:%d: get(%d) reads the underlying item %s, the slice selects %d there' % (start, stop, step, k, r[1] - 100000 if isinstance(r[1], int) else r[1], want - 100000)
    if unsup and not bad:
        ctx.undecided(rule, fn['name'], site(fn), 'leaves the evaluated fragment: ' + unsup)
    else:
        ctx.check(bad is None, rule, fn['name'], site(fn), 'get on a Slice returns the item the slice selects at that index and leaves the position of a walk in progress where it was '
                  '(%d cases evaluated)' % ncase, [bad] if bad else None)
    ctx.stats['paths'] += ncase
    ctx.floor(rule, 1)


def check_range_construction(P, ctx):
    """range(...) with 0..3 arguments (`_` for an omitted start / step) builds the Range its arguments describe — with no argument the
    empty Range [0, 0) of step 1, which enumerate() relies on: it only sets the stop bound to the length of what it enumerates.
    range_stack and enumerate_stack evaluated (cint) on a Range whose fields start out zero, as the range() macro hands it over."""
    from . import cint
    rule = 'C11.range-construction'
    fn = P.fn('range_stack')
    fe = P.fn('enumerate_stack')
    ctx.fn(fn)
    ctx.fn(fe)
    UND, ARGS, RNG, ITER = 8800, 8900, ('ep', 'r', 0), 9100
    bad, unsup, ncase = None, None, 0
    cases = [()] + [(a,) for a in (0, 3, -2)] + [(a, b) for a in (UND, 0, 2, -1) for b in (0, 5)] + [(a, b, c) for a in (UND, 1) for b in (0, 7) for c in (UND, 1, 2, -1)]
    for args in cases:
        atoms = {('global', 'NULL'): 0, ('global', 'Terminal'): 7777, ('global', 'Undefined'): UND, ('global', '_'): UND,
                 ('elem', 'r', 0, 'start'): 0, ('elem', 'r', 0, 'stop'): 0, ('elem', 'r', 0, 'step'): 0, ('elem', 'r', 0, 'value'): ('ep', 'rv', 0)}

        def call(nm, e, it, args=args):
            if nm == 'len' and it.ev(e[2][0]) == ARGS:
                return len(args)
            if nm == 'get' and it.ev(e[2][0]) == ARGS:
                k = it.ev(e[2][1])
                k = k[2][0] if isinstance(k, tuple) and k[0] == 'stack' else k
                if not (isinstance(k, int) and 0 <= k < len(args)):
                    raise cint.NoEval('argument %r of %d' % (k, len(args)))
                return UND if args[k] == UND else ('arg', k)
            if nm == 'c_int':
                v = it.ev(e[2][0])
                if isinstance(v, tuple) and v[0] == 'arg':
                    return args[v[1]]
                raise cint.NoEval('c_int of %r' % (v,))
            raise cint.NoEval('call %s' % nm)
        it = cint.CInt(P, fn, atoms=atoms, call=call, recurse=True, strict=True)
        it.atoms = atoms
        r = it.run([RNG, ARGS])
        ncase += 1
        lab = 'range(%s)' % ', '.join('_' if a == UND else str(a) for a in args)
        if r[0] != 'ret':
            unsup = unsup or '%s: %s' % (lab, r[1])
            continue
        want = {0: (0, 0, 1), 1: (0, args[0] if args else 0, 1)}.get(len(args))
        if len(args) == 2:
            want = (0 if args[0] == UND else args[0], args[1], 1)
        if len(args) == 3:
            want = (0 if args[0] == UND else args[0], args[1], 1 if args[2] == UND else args[2])
        got = tuple(atoms[('elem', 'r', 0, f)] for f in ('start', 'stop', 'step'))
        if got != want:
            bad = bad or '%s builds (start, stop, step) = %s, expected %s' % (lab, got, want)
        if not args:
            # enumerate(I) = enumerate_stack(zip(range(), I))
            for n in (1, 3):
                a2 = dict(atoms)
                a2.update({('elem', 'z', 0, 'iters'): 9200})

                def call2(nm, e, it, n=n):
                    if nm == 'get' and it.ev(e[2][0]) == 9200:
                        k = it.ev(e[2][1])
                        k = k[2][0] if isinstance(k, tuple) and k[0] == 'stack' else k
                        return RNG if k == 0 else ITER
                    if nm == 'len' and it.ev(e[2][0]) == ITER:
                        return n
                    raise cint.NoEval('call %s' % nm)
                it2 = cint.CInt(P, fe, atoms=a2, call=call2, recurse=True, strict=True)
                it2.atoms = a2
                r2 = it2.run([('ep', 'z', 0)])
                ncase += 1
                if r2[0] != 'ret':
                    unsup = unsup or 'enumerate over %d items: %s' % (n, r2[1])
                    continue
                got2 = tuple(a2[('elem', 'r', 0, f)] for f in ('start', 'stop', 'step'))
                if got2 != (0, n, 1):
                    bad = bad or 'enumerate over %d items counts with the Range (start, stop, step) = %s, expected (0, %d, 1): it yields %s' % (
                        n, got2, n, 'nothing' if got2[2] == 0 or got2[1] <= got2[0] else 'other indices')
    ctx.stats['paths'] += ncase
    if unsup and not bad:
        ctx.undecided(rule, 'range_stack', site(fn), 'leaves the evaluated fragment: ' + unsup)
    else:
        ctx.check(bad is None, rule, 'range_stack', site(fn), 'range() with 0..3 arguments builds the Range they describe, and enumerate counts 0..len-1 with it (%d cases evaluated)' % ncase,
                  [bad] if bad else None)
    ctx.floor(rule, 1)


def check_view_assign(P, ctx):
    """a Range / Slice that is assigned (or copied: copy is allocate + assign) selects what its source selects: start, stop and step, and
    for a Slice the underlying iterable, are taken over.  Range's and Slice's assign evaluated (cint)."""
    from . import cint
    rule = 'C11.view-assign'
    for T in ('Range', 'Slice'):
        fn = P.fn(P.slot(T, 'Assign', 'assign'))
        ctx.fn(fn)
        bad, unsup = None, None
        for (a, b, c) in ((0, 5, 1), (2, 9, 3), (-2, 2, 2), (0, 6, -1)):
            atoms = {('global', 'NULL'): 0}
            for nm_, vals in (('dr', (7, 8, 1)), ('sr', (a, b, c))):
                for f, v in zip(('start', 'stop', 'step'), vals):
                    atoms[('elem', nm_, 0, f)] = v
                atoms[('elem', nm_, 0, 'value')] = ('ep', nm_ + 'v', 0)
                atoms[('elem', nm_ + 'v', 0, 'val')] = 0
            atoms.update({('elem', 'd', 0, 'iter'): 9001, ('elem', 'd', 0, 'range'): ('ep', 'dr', 0), ('elem', 's', 0, 'iter'): 9002, ('elem', 's', 0, 'range'): ('ep', 'sr', 0)})

            def call(nm, e, it):
                if nm == 'cast':
                    return it.ev(e[2][0])
                if nm == 'assign':
                    x, y = it.ev(e[2][0]), it.ev(e[2][1])
                    if x == ('ep', 'dr', 0) and y == ('ep', 'sr', 0):
                        # (what Range's assign does is evaluated for Range itself)
                        for f in ('start', 'stop', 'step'):
                            it.atoms[('elem', 'dr', 0, f)] = it.atoms[('elem', 'sr', 0, f)]
                        return x
                    if isinstance(x, tuple) and isinstance(y, tuple) and x[1].endswith('v') and y[1].endswith('v'):
                        it.atoms[('elem', x[1], 0, 'val')] = it.atoms[('elem', y[1], 0, 'val')]
                        return x
                    raise cint.NoEval('assign of %r' % ((x, y),))
                raise cint.NoEval('call %s' % nm)
            it = cint.CInt(P, fn, atoms=atoms, call=call, recurse=False, strict=True)
            it.atoms = atoms
            r = it.run([('ep', 'dr', 0), ('ep', 'sr', 0)] if T == 'Range' else [('ep', 'd', 0), ('ep', 's', 0)])
            if r[0] != 'ret':
                unsup = unsup or '%s' % (r[1],)
                continue
            got = tuple(atoms[('elem', 'dr', 0, f)] for f in ('start', 'stop', 'step'))
            if atoms[('elem', 'd', 0, 'range')] != ('ep', 'dr', 0) and T == 'Slice':
                got = tuple(atoms.get(('elem', atoms[('elem', 'd', 0, 'range')][1], 0, f)) for f in ('start', 'stop', 'step')) if isinstance(atoms[('elem', 'd', 0, 'range')], tuple) else None
            if got != (a, b, c):
                bad = bad or 'assigned from a %s over [%d, %d) step %d, the target selects (start, stop, step) = %s' % (T, a, b, c, got)
            elif T == 'Slice' and atoms[('elem', 'd', 0, 'iter')] != 9002:
                bad = bad or 'the target keeps its own underlying iterable'
        if unsup and not bad:
            ctx.undecided(rule, fn['name'], site(fn), 'leaves the evaluated fragment: ' + unsup)
        else:
            ctx.check(bad is None, rule, fn['name'], site(fn), 'after assign the target selects what the source selects (start, stop, step%s)' % (', underlying iterable' if T == 'Slice' else ''),
                      [bad] if bad else None)
    ctx.floor(rule, 2)


def check_cursor_loops(P, ctx):
    """The end of an iteration is the object Terminal, not NULL: a loop that runs while a cursor obtained from iter_init / iter_next
    (or a container's own cursor functions) is merely non-NULL walks on from Terminal."""
    rule = 'C11.cursor-loop-ends-at-Terminal'
    n_loops = 0
    for up in UNITS:
        if not up.startswith('src/'):
            continue
        for fname, fn in sorted(P.units[up]['functions'].items()):
            if fn.get('body') is None:
                continue
            g = P.cfg(fn)
            curs = {}
            for n in g.live():
                if n['expr'] is None:
                    continue
                for ev in util.expr_events(n['expr'], n):
                    if ev['t'] == 'write' and ev['op'] == '=' and ev['rhs'] is not None and ir.top_nocast(ev['lhs'])[0] == 'local':
                        r = ir.top_nocast(ev['rhs'])
                        if r[0] == 'call' and ((ir.callee_name(r) or '') in ('iter_init', 'iter_next', 'iter_last', 'iter_prev')
                                               or (ir.callee_name(r) or '').endswith(('_Iter_Init', '_Iter_Next', '_Iter_Last', '_Iter_Prev'))):
                            curs.setdefault(ir.top_nocast(ev['lhs'])[2], ir.top_nocast(ev['lhs'])[1])
            if not curs:
                continue
            bad = []
            for n in g.live():
                if n['kind'] != 'cond':
                    continue
                c = ir.top_nocast(n['expr'])
                bare = c[0] == 'local' and c[2] in curs
                null = c[0] == 'bin' and c[1] in ('==', '!=') and any(ir.top_nocast(x)[0] == 'local' and ir.top_nocast(x)[2] in curs for x in (c[2], c[3])) and \
                    any(ir.is_null(x) for x in (c[2], c[3]))
                if (bare or null) and g.innermost_loop_of(n['id']):
                    bad.append(n)
            n_loops += 1
            ctx.fn(fn)
            ctx.check(not bad, rule, fname, site(fn, bad[0]['line'] if bad else None),
                      'every loop over a cursor of an iteration ends at Terminal (a cursor is never NULL)',
                      ['loop test on the bare cursor at %s' % g.describe(b) for b in bad[:3]] or None)
    ctx.floor(rule, 5)


def check_tuple_cursor(P, ctx):
    """A cursor must identify a position.  Tuple hands out the element objects themselves as cursors and iter_next / iter_prev
    look the cursor up by identity, taking the first match: with the same object stored twice the step is taken from the wrong
    position (forward iteration then never ends)."""
    rule = 'C11.cursor-identifies-position'
    for m in ('iter_next', 'iter_prev'):
        fn = P.fn(P.slot('Tuple', 'Iter', m))
        g = P.cfg(fn)
        ctx.fn(fn)
        N = util.Norm(P, fn)
        ITEMS = ('arrow', ('param', 0), 'items')
        search = []
        for n in g.live():
            if n['kind'] != 'cond' or not g.innermost_loop_of(n['id']):
                continue
            c = N.canon(n['expr'])
            if c[0] == 'bin' and c[1] in ('==', '!=') and ('param', 1) in (c[2], c[3]):
                o = c[3] if c[2] == ('param', 1) else c[2]
                if o[0] == 'idx' and o[1] == ITEMS:
                    search.append(n)
        ctx.check(not search, rule, 'Tuple.' + m, site(fn, search[0]['line'] if search else None),
                  'the step of a Tuple cursor does not depend on finding the cursor among the elements by identity (ambiguous when an object is stored twice)',
                  ['searched at %s' % g.describe(search[0])] if search else None)
    ctx.floor(rule, 2)


def run(ctx, load):
    P = load(UNITS, 'default', [WITNESS])
    ctx.stats['units'] = set(UNITS) | {'witness/macros.c'}
    ctx.stats['configs'] = ['default']
    check_empty_guard(P, ctx)
    check_array_cursor(P, ctx)
    check_mirrors(P, ctx)
    check_direction(P, ctx)
    check_slice_bound(P, ctx)
    check_zip(P, ctx)
    check_foreach(P, ctx)
    check_len_iter_agree(P, ctx)
    check_table_scan(P, ctx)
    check_cursor_scratch(P, ctx)
    check_range_construction(P, ctx)
    check_view_assign(P, ctx)
    check_slice_get_keeps_position(P, ctx)
    # Tree cursors climb parent links: every child-link store is paired with the child's parent-link update (shared with C03.link-pairing)
    from .rules_c03 import check_links
    ctx.borrow('C11.tree-parent-links', 4, lambda: check_links(P, ctx))
    check_range_arithmetic(P, ctx)
    check_zip_alignment(P, ctx)
    check_slice_clamp(P, ctx)
    check_slice_positions(P, ctx)
    check_cursor_loops(P, ctx)
    check_tuple_cursor(P, ctx)
    from .rules_c04 import check_list_links
    before = len(ctx.obs)
    check_list_links(P, ctx)
    for o in ctx.obs[before:]:
        o['rule'] = 'C11.list-links'
    ctx.floors.pop(('C04.link-pairing', ctx.config), None)
    ctx.floor('C11.list-links', 2)
    from .rules_c04 import check_list_count
    check_list_count(P, ctx, rule='C11.len-counts-links')


EXPLANATION = (
    'Decided: (a) empty-guard — every access through `count - 1` in iter_init/iter_last/pop of the five containers is dominated by a test '
    'that excludes the empty container (decided by evaluating the guard with count = 0); (b) cursor-range — Array iter_next/iter_prev, '
    'evaluated over concrete geometries, step to the neighbouring element or end with Terminal exactly at the boundary; (c) cursor-walk — the cursor functions of Array, List, Tuple, '
    'Table and Tree, evaluated on small instances, yield the elements in order forwards and in reverse backwards; (d) direction — Filter/Map/Zip/Slice drive the underlying '
    'iterable only through its cursor functions, in the direction matching the step sign, never through keyed access; (e) slice-bound — '
    'the end of a slice cursor depends on its stop bound (known finding: it does not); (f) zip-shortest — Zip_Len is the minimum and any '
    'exhausted input ends the zip; (g) foreach expansion; (h) len agrees with the emptiness tests of the cursors; (i) List link pairing '
    '(backward iteration relies on prev links kept by unlink) and len-counts-links; (j) slot-scan — Table iter_init/iter_last examine every slot '
    'index in order before answering Terminal (evaluated for nslots 1..5); (k) cursor-is-scratch — iter_init/iter_last/len/get/mem of Range and '
    'Slice never read the Range cursor before storing it; (l) range-arithmetic, slice-clamp, slice-ends, zip-last-aligned — each small '
    'integer function is evaluated on its own by the analyser (exact C conversions; iterables abstracted to positions) over a finite grid '
    'and compared with the closed form of the element sequence: bounded evaluation, not a proof for all int64 values. Not decided: Filter/Map contents (value level).')
