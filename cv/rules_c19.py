"""C19 — objects keep their true type; non-heap objects are never freed."""
import re
from . import ir, util, poly
from .report import site
from .rules_c12 import guards_of, dominated_by_guard, throw_only, succ_of, check_dispatcher
from .rules_c16 import check_heap_only

WITNESS = '/verif/witness/macros.c'
CONTAINER_TYPES = {  # function -> {(type field) : role}
    'Array_Alloc': 'src/Array.c', 'List_Alloc': 'src/List.c', 'Table_Set_Move': 'src/Table.c', 'Tree_Alloc': 'src/Tree.c'}


def type_size(P, t, H):
    """byte size of a C type on x86-64 for the simple records Cello declares"""
    t = t.strip()
    m = re.match(r'^(.*)\[(\d+)\]$', t)
    if m:
        return type_size(P, m.group(1), H) * int(m.group(2))
    if t.endswith('*') or '(*)' in t:
        return 8
    if t in poly.SIZEOF:
        return poly.SIZEOF[t]
    if t.startswith('struct '):
        return struct_size(P, t[7:], H)
    if t in ('pthread_t', 'size_t', 'uint64_t', 'int64_t', 'uintptr_t'):
        return 8
    return None


def struct_size(P, name, H):
    if name == 'Header':
        return H
    r = P.records.get(name)
    if r is None:
        return None
    off, maxal = 0, 1
    for (fn_, t, q) in r['fields']:
        s = type_size(P, t, H)
        if s is None:
            return None
        al = min(s, 8) if s in (1, 2, 4, 8) else 8
        maxal = max(maxal, al)
        off = (off + al - 1) // al * al + s
    return (off + maxal - 1) // maxal * maxal


def header_words(P):
    r = P.records.get('Header')
    return len(r['fields']) if r else None


def check_headers(P, ctx):
    rule = 'C19.headers'
    H = 8 * header_words(P)
    n_stack = 0
    bad_stack = []
    for f in P.all_functions():
        N = None
        for c, ln in ir.all_calls(f['body'], raw=True):
            if ir.callee_name(c) != 'header_init':
                continue
            ctx.stats['call_sites'] += 1
            a0 = ir.top_nocast(c[2][0])
            if a0[0] == 'compound':
                n_stack += 1
                # part of a `$`/alloc_stack expansion: class AllocStack, buffer = Header + struct T
                T = ir.top_nocast(c[2][1])
                cls = ir.top_nocast(c[2][2])
                m = re.match(r'^char\[(\d+)\]$', a0[1])
                sz = struct_size(P, T[1], H) if T[0] == 'global' else None
                ok = cls == ('enum', 'AllocStack') and m is not None and sz is not None and int(m.group(1)) == H + sz
                if not ok:
                    bad_stack.append((f, ln, ir.fmt(c)))
                continue
            # non-stack site
            if N is None or N.fn is not f:
                N = util.Norm(P, f, expand_locals=True)
            T = N.canon(c[2][1])
            cls = ir.top_nocast(c[2][2])
            key = '%s:%s' % (f['name'], ir.fmt(T))
            s = site(f, ln)
            ctx.fn(f)
            if f['name'] == 'alloc_by':
                ok = T == ('param', 0) and cls == ('enum', 'AllocHeap')
                ctx.check(ok, rule, key, s, 'a heap object is stamped with the requested type and class AllocHeap')
            elif f['name'] == 'Type_Alloc':
                ok = T == ('global', 'Type') and cls == ('enum', 'AllocHeap')
                ctx.check(ok, rule, key, s, 'a run-time type object is stamped Type / AllocHeap')
            elif f['name'] in CONTAINER_TYPES:
                # embedded element: AllocData, type = the container's own element/key/value type field;
                # the header that sits behind the key bytes (offset contains ksize) is the value's
                is_field = T[0] == 'arrow' and T[1] == ('param', 0) and T[2] in ('type', 'ktype', 'vtype')
                ok = is_field and cls == ('enum', 'AllocData')
                if ok and T[2] in ('ktype', 'vtype'):
                    addr = poly.from_expr(N.canon(c[2][0]))
                    has_k = 'arg0->ksize' in addr.atoms()
                    ok = has_k == (T[2] == 'vtype')
                ctx.check(ok, rule, key, s, 'an element embedded in a container is stamped with the container\'s %s and class AllocData' % (T[2] if is_field else 'element type'),
                          ['call: %s' % ir.fmt(N.canon(c))])
            else:
                ctx.refuted(rule, key, s, 'header_init call outside the known object-creation sites (alloc_by, Type_Alloc, container element '
                            'allocators, `$`): the allocation class and type of the object it creates are not covered by the table',
                            ['call: %s' % ir.fmt(c)])
    ctx.check(not bad_stack and n_stack > 300, rule, 'stack-macro-expansions', 'include/Cello.h ($ / alloc_stack)',
              'all %d expansions of `$`/alloc_stack stamp AllocStack and reserve sizeof(Header)+sizeof(struct T) bytes' % n_stack,
              ['%s:%s %s' % (f['file'], ln, t) for f, ln, t in bad_stack[:5]])
    # `$` expansion in the witness: memcpy of exactly sizeof(struct T) from a struct T literal into the stamped buffer
    for wn, T in (('w_stack_int', 'Int'), ('w_stack_str', 'String'), ('w_stack_ref', 'Ref'), ('w_stack_generic', 'Range')):
        f = P.fn(wn)
        rets = [s for s in ir.stmts(f['body']) if s['k'] == 'return']
        st = ir.as_stack(rets[0]['expr']) if rets else None
        ok = st is not None and st[0] == T and st[2] == ('enum', 'AllocStack')
        ctx.check(ok, rule, 'witness:' + wn, site(f), '$(%s, ...) copies sizeof(struct %s) bytes of a struct %s literal into a buffer stamped (%s, AllocStack)' % (T, T, T, T))
    f = P.fn('w_alloc_stack')
    rets = [s for s in ir.stmts(f['body']) if s['k'] == 'return']
    c = ir.top_nocast(rets[0]['expr'])
    ok = c[0] == 'call' and ir.callee_name(c) == 'header_init' and ir.top_nocast(c[2][1]) == ('global', 'Int') and ir.top_nocast(c[2][2]) == ('enum', 'AllocStack')
    ctx.check(ok, rule, 'witness:w_alloc_stack', site(f), 'alloc_stack(T) stamps (T, AllocStack)')
    # static objects: Cello(...) initialiser = NULL type word, AllocStatic, magic
    t = P.types.get('WObj')
    hdr = t['header'] if t else []
    fields = [x[0] for x in P.records['Header']['fields']]
    ok = t is not None and len(hdr) >= len(fields)
    if ok:
        for i, fld in enumerate(fields):
            v = hdr[i]
            if fld == 'type':
                ok = ok and ir.is_null(v)
            elif fld == 'alloc':
                ok = ok and v == ('enum', 'AllocStatic')
            elif fld == 'magic':
                ok = ok and util.const_int(v) == 0xCe110
    ctx.check(ok, rule, 'static-object-header', 'include/Cello.h (CelloObject)',
              'a statically declared object starts with one initialiser per header field: NULL type (resolved to Type by type_of), AllocStatic, magic number')
    # sizeof(struct Header) offset at the end of the initialiser
    g = P.globals.get('WObj')
    e = ir.top_nocast(g['init']) if g else None
    ok = e is not None and e[0] == 'bin' and e[1] == '+' and ir.top_nocast(e[3]) == ('sizeof', ('type', 'struct Header'))
    ctx.check(ok, rule, 'static-object-pointer', 'include/Cello.h (CelloObject)', 'the object pointer of a static object is its block + sizeof(struct Header)')
    ctx.floor(rule, 15)


def check_pointer_arith(P, ctx):
    """the object pointer and its header: header(), header_init(), the heap allocator, dealloc and type_of agree on where the header of an
    object lies and what it holds — evaluated (cint) over integer memory with this configuration's struct Header"""
    from . import cint
    rule = 'C19.pointer-arithmetic'
    fields = [x[0] for x in P.records['Header']['fields']]
    HDR = 8 * len(fields)
    BASE, SIZE, TVAL = 100000, 40, 8500
    OBJ = BASE + HDR
    MAGIC = P.enums.get('CELLO_MAGIC_NUM', 0xCe110)
    HEAP = P.enums.get('AllocHeap', 1)

    class Mem:
        def __init__(self, words=None):
            self.w = dict(words or {})
            self.writes = []
            self.bad = None

        def rd(self, a, it):
            if not (BASE <= a and a + (it.mem_width or 8) <= BASE + HDR + SIZE):
                self.bad = self.bad or 'reads at offset %d of a block of %d bytes' % (a - BASE, HDR + SIZE)
                return 0
            return self.w.get(a, 0)

        def wr(self, a, v, w, it):
            if not (BASE <= a and a + (w or 8) <= BASE + HDR + SIZE):
                self.bad = self.bad or 'writes at offset %d of a block of %d bytes' % (a - BASE, HDR + SIZE)
                return
            self.w[a] = v
            self.writes.append(a)
    atoms0 = {('global', 'NULL'): 0, ('global', 'Type'): 8400}

    def header_words():
        w = {}
        for i, f in enumerate(fields):
            w[BASE + 8 * i] = {'type': TVAL, 'alloc': HEAP, 'magic': MAGIC}[f]
        return w
    # header(self) == the block header_init was given
    f = P.fn('header')
    r = cint.CInt(P, f, atoms=dict(atoms0)).run([OBJ])
    ok = r[0] == 'ret' and r[1] == BASE
    ctx.check(ok, rule, 'header', site(f), 'header(self) is self - sizeof(struct Header)', ['header(block + %d) gives block + %s' % (HDR, (r[1] - BASE) if isinstance(r[1], int) else r[1])] if not ok else None)
    # header_init returns head + H and stores type (and class, magic)
    f = P.fn('header_init')
    m = Mem()
    r = cint.CInt(P, f, atoms=dict(atoms0), mem=m.rd, memw=m.wr).run([BASE, TVAL, HEAP])
    ok = r[0] == 'ret' and r[1] == OBJ
    ctx.check(ok, rule, 'header_init:returns', site(f), 'header_init returns head + sizeof(struct Header)', ['returns block + %s' % ((r[1] - BASE) if isinstance(r[1], int) else r[1])] if not ok else None)
    ok = r[0] == 'ret' and m.bad is None and m.w == header_words()
    ctx.check(ok, rule, 'header_init:stores', site(f), 'header_init stores the type, the allocation class and the magic number in the header fields (one store per field of this configuration)',
              ['header words after the call: %s%s' % ({a - BASE: v for a, v in sorted(m.w.items())}, '; ' + m.bad if m.bad else '')] if not ok else None)
    # the heap allocator: calloc(1, H + size(type)), header at the block start, object pointer behind it
    f = P.fn('alloc')
    m = Mem()
    st = {}

    def call(nm, e, it):
        if nm in ('type_instance', 'instance'):
            return 0
        if nm == 'size':
            return SIZE
        if nm in ('calloc', 'malloc'):
            a_ = [it.ev(x) for x in e[2]]
            st['bytes'] = a_[0] * a_[1] if nm == 'calloc' else a_[0]
            st['zeroed'] = nm == 'calloc'
            return BASE
        if nm == 'memset':
            st['zeroed'] = True
            return it.ev(e[2][0])
        if nm == 'current':
            return 4300
        if nm == 'set':
            st['registered'] = it.ev(e[2][1])
            return 0
        if nm == 'type_of':
            return TVAL
        if nm == 'free':
            st['freed'] = it.ev(e[2][0])
            return 0
        raise cint.NoEval('call %s' % nm)
    r = cint.CInt(P, f, atoms=dict(atoms0), call=call, recurse=True, mem=m.rd, memw=m.wr, max_depth=6).run([TVAL])
    if r[0] == 'stuck':
        ctx.undecided(rule, 'alloc_by:block', site(f), 'alloc leaves the evaluated fragment: %s' % r[1])
    else:
        ok = r[0] == 'ret' and r[1] == OBJ and st.get('bytes') == HDR + SIZE and st.get('zeroed') and m.bad is None and {a: v for a, v in m.w.items() if a < OBJ} == header_words()
        ctx.check(ok, rule, 'alloc_by:block', site(f), 'a heap block is sizeof(struct Header) + size(type) zeroed bytes; the header (type, AllocHeap, magic) is at its start, the object behind it',
                  ['requests %s bytes (header %d + size %d), returns block + %s' % (st.get('bytes'), HDR, SIZE, (r[1] - BASE) if isinstance(r[1], int) else r[1])] if not ok else None)
    # dealloc: free(self - H), nothing written outside the block
    f = P.fn('dealloc')
    m = Mem(header_words())
    st.clear()
    r = cint.CInt(P, f, atoms=dict(atoms0), call=call, recurse=True, mem=m.rd, memw=m.wr, max_depth=6, max_steps=4000).run([OBJ])
    if r[0] == 'stuck':
        ctx.undecided(rule, 'dealloc:block', site(f), 'dealloc leaves the evaluated fragment: %s' % r[1])
    else:
        ok = r[0] == 'ret' and st.get('freed') == BASE and m.bad is None
        ctx.check(ok, rule, 'dealloc:block', site(f), 'dealloc frees self - sizeof(struct Header), the block header_init was given, and writes nothing outside it',
                  ['frees block + %s%s' % ((st['freed'] - BASE) if isinstance(st.get('freed'), int) else st.get('freed'), '; ' + m.bad if m.bad else '')] if not ok else None)
    # Type_Of reads the header at self - H
    f = P.fn('Type_Of')
    m = Mem(header_words())
    r = cint.CInt(P, f, atoms=dict(atoms0), call=call, recurse=True, mem=m.rd, memw=m.wr).run([OBJ])
    if r[0] == 'stuck':
        ctx.undecided(rule, 'Type_Of:reads', site(f), 'type_of leaves the evaluated fragment: %s' % r[1])
    else:
        ok = r[0] == 'ret' and r[1] == TVAL and m.bad is None
        ctx.check(ok, rule, 'Type_Of:reads', site(f), 'type_of returns the type word of the header at self - sizeof(struct Header)',
                  ['returns %s%s' % (r[1] if r[0] == 'ret' else r[0], '; ' + m.bad if m.bad else '')] if not ok else None)
    ctx.floor(rule, 6)


def check_typed_results(P, ctx):
    rule = 'C19.typed-results'
    want = {
        ('Array', 'Iter', 'iter_type'): 'type', ('List', 'Iter', 'iter_type'): 'type',
        ('Table', 'Iter', 'iter_type'): 'ktype', ('Table', 'Get', 'key_type'): 'ktype', ('Table', 'Get', 'val_type'): 'vtype',
        ('Tree', 'Iter', 'iter_type'): 'ktype', ('Tree', 'Get', 'key_type'): 'ktype', ('Tree', 'Get', 'val_type'): 'vtype',
    }
    for (T, C, m), fld in sorted(want.items()):
        f = P.fn(P.slot(T, C, m))
        N = util.Norm(P, f)
        rets = [s for s in ir.stmts(f['body']) if s['k'] == 'return']
        ok = len(rets) == 1 and N.canon(rets[0]['expr']) == ('arrow', ('param', 0), fld)
        ctx.check(ok, rule, '%s.%s.%s' % (T, C, m), site(f), '%s reports the same `%s` field its elements are stamped with' % (m, fld))
    # copy: alloc(type_of(self)) then assign
    f = P.fn('copy')
    g = P.cfg(f)
    N = util.Norm(P, f, expand_locals=True, keep={'alloc', 'type_of', 'assign'})
    rets = [n for n in g.live() if n['kind'] == 'ret']
    want_e = ir.canon(('call', ('func', 'assign'), (('call', ('func', 'alloc'), (('call', ('func', 'type_of'), (('param', 'self', 0),)),)), ('param', 'self', 0))))
    ok = any(N.canon(n['expr']) == want_e for n in rets)
    ctx.check(ok, rule, 'copy:default', site(f), 'the default copy allocates an object of type_of(self) and assigns self into it')
    ctx.floor(rule, 9)


def custom_dealloc_guarded(P, fname):
    """every free in a type-specific Alloc.dealloc function is dominated by the refusal of
    static, stack and embedded objects"""
    fn = P.fn(fname)
    g = P.cfg(fn)
    frees = [n for n in g.live() if n['expr'] is not None and any(ir.callee_name(c) in ('free', 'realloc') for c in ir.calls(n['expr']))]
    from .rules_c16 import alloc_guards
    for n in frees:
        for cls in ('AllocStatic', 'AllocStack', 'AllocData'):
            if dominated_by_guard(g, n['id'], alloc_guards(g, cls), None) is None:
                return False, n, cls
    return True, None, None


BYTE_WRITERS = {'memcpy': 0, 'memmove': 0, 'memset': 0, 'strcpy': 0, 'strncpy': 0, 'memswap': (0, 1)}


def header_writes(P, fn):
    """sites in fn that write an object's header other than through header_init: a byte-writing call whose destination is derived from
    header(x), or a store through header(x)"""
    out = []
    N = util.Norm(P, fn, expand_locals=True, inline=False)

    def from_header(e):
        try:
            e = N.canon(e)
        except Exception:
            pass
        return any(x[0] == 'call' and ir.callee_name(x) == 'header' for x in ir.walk(e))
    for e, ln in ir.all_exprs(fn['body']):
        for x in ir.walk(e):
            if x[0] == 'call' and ir.callee_name(x) in BYTE_WRITERS:
                ds = BYTE_WRITERS[ir.callee_name(x)]
                for d in (ds if isinstance(ds, tuple) else (ds,)):
                    if d < len(x[2]) and from_header(x[2][d]):
                        out.append((ln, '%s writes onto %s' % (ir.callee_name(x), ir.fmt(x[2][d]))))
            elif x[0] == 'assign' and x[2][0] in ('arrow', 'idx', 'un', 'dot') and from_header(x[2][1] if x[2][0] != 'un' else x[2][2]):
                out.append((ln, 'stores to %s' % ir.fmt(x[2])))
    return out


def check_header_writers(P, ctx, Ppos):
    """an object's type, allocation class and magic number are written once, by header_init, when the object is created: whoever copies
    them from another object gives a heap block the class of a stack object or a container element (del then refuses it or frees what
    it must not).  dealloc's poison fill of a block that is being released is the one other writer."""
    rule = 'C19.header-written-only-at-creation'
    n = 0
    for fn in P.all_functions():
        if not fn['unit'].startswith('src/') or fn.get('body') is None:
            continue
        n += 1
        if fn['name'] in ('header_init', 'dealloc'):
            continue
        for ln, what in header_writes(P, fn):
            ctx.fn(fn)
            ctx.refuted(rule, '%s:header-write' % fn['name'], site(fn, ln), 'the header of an object is written outside header_init: %s' % what)
    pos = header_writes(Ppos, Ppos.fn('PosThing_Clone'))
    ctx.check(bool(pos), rule, 'positive-example', 'witness/positive/c19_dealloc.c', 'the detector fires on a clone that byte-copies a header (PosThing_Clone)')
    ctx.check(n > 300, rule, 'functions-scanned', 'src/', '%d functions of the library scanned for writes through header(x)' % n)
    ctx.floor(rule, 2)


def check_custom_dealloc(P, ctx, Ppos):
    rule = 'C19.custom-dealloc'
    # dealloc() dispatches to a type's own Alloc.dealloc *before* its allocation-class tests, so such a function must carry them itself
    fn = P.fn('dealloc')
    g = P.cfg(fn)
    ind = [n for n in g.live() if n['expr'] is not None and any(ir.callee_name(c) is None and ir.top_nocast(c[1])[0] == 'arrow' and ir.top_nocast(c[1])[2] == 'dealloc' for c in ir.calls(n['expr']))]
    from .rules_c16 import alloc_guards
    guarded_dispatch = bool(ind) and all(dominated_by_guard(g, ind[0]['id'], alloc_guards(g, cls), None) is not None for cls in ('AllocStatic', 'AllocStack', 'AllocData'))
    insts = P.slots_of_class('Alloc', 'dealloc')
    insts = [(T, f) for (T, f) in insts if P.types[T]['unit'].startswith('src/')]
    for T, f in insts:
        ok, n, cls = custom_dealloc_guarded(P, f)
        ctx.check(ok or guarded_dispatch, rule, '%s.Alloc.dealloc' % T, site(P.fn(f)),
                  'dealloc hands the object to this type-specific release function before testing its allocation class, so the function must itself '
                  'refuse static, stack and container-embedded objects before it frees anything',
                  None if ok else ['free at %s:%s is not dominated by the %s refusal' % (P.fn(f)['file'], n['line'], cls)])
    ctx.proved(rule, 'dispatch-order', site(fn), 'dealloc dispatches to Alloc.dealloc %s its own allocation-class tests (%d library types declare one)' % (
        'after' if guarded_dispatch else 'before', len(insts)))
    # the rule has no instance on today's tree: keep it honest with a positive example that must be refuted
    okp, n, cls = custom_dealloc_guarded(Ppos, 'PosThing_Dealloc')
    if okp:
        ctx.undecided(rule, 'positive-example', 'witness/positive/c19_dealloc.c', 'the unguarded example release function is no longer recognised as a violation: the rule is blind')
    else:
        ctx.proved(rule, 'positive-example', 'witness/positive/c19_dealloc.c', 'the rule fires on the unguarded example (missing %s refusal)' % cls)
    ctx.floor(rule, 2)


def run(ctx, load):
    P = load(None, 'default', [WITNESS])
    ctx.stats['units'] = set(k for k in P.units if k.startswith('src/')) | {'witness/macros.c', 'include/Cello.h'}
    ctx.stats['configs'] = ['default']
    check_headers(P, ctx)
    check_pointer_arith(P, ctx)
    from .rules_c04 import check_seq_layout
    check_seq_layout(P, ctx, rule='C19.pointer-arithmetic')
    ctx.floors.pop(('C19.pointer-arithmetic', ctx.config), None)
    ctx.floor('C19.pointer-arithmetic', 10)
    # the objects handed out by Tree and Table sit at offsets computed from the record layout: allocation size, key / value / header
    # offsets and the extents of the record moves must agree (shared with C03.layout / C02.layout)
    from .rules_c03 import check_layout as tree_layout
    from .rules_c02 import check_layout as table_layout
    before = len(ctx.obs)
    tree_layout(P, ctx)
    table_layout(P, ctx)
    for o in ctx.obs[before:]:
        o['rule'] = 'C19.embedded-object-layout'
    for k in list(ctx.floors):
        if k[0].startswith(('C03.', 'C02.')):
            ctx.floors.pop(k)
    ctx.floor('C19.embedded-object-layout', 13)
    # a Box releases its pointee through del only (shared with C06.box): never a raw release of something it may not own
    from .rules_c06 import check_box
    before = len(ctx.obs)
    check_box(P, ctx)
    for o in ctx.obs[before:]:
        o['rule'] = 'C19.box-releases-through-del'
    for k in list(ctx.floors):
        if k[0].startswith('C06.'):
            ctx.floors.pop(k)
    ctx.floor('C19.box-releases-through-del', 2)
    check_typed_results(P, ctx)
    # guards: String and Tuple buffers, dealloc
    Ppos = load(['src/Exception.c'], 'default', ['/verif/witness/positive/c19_dealloc.c'])
    ctx.config = 'default'
    check_custom_dealloc(P, ctx, Ppos)
    check_header_writers(P, ctx, Ppos)
    # what is released raw was allocated raw: the table of a copied Thread (released with del_raw by the destructor) — evaluated
    from .rules_c13 import check_thread_assign
    check_thread_assign(P, ctx, rule='C19.released-as-allocated', which='class')
    ctx.floor('C19.released-as-allocated', 1)
    # an object registered with the collector leaves through the collector's removal on every path (shared with C06.del-routes): a
    # release that bypasses it leaves an entry behind, and the next sweep finalises the freed block again
    from .rules_c06 import check_del_routes
    ctx.borrow('C19.released-through-the-registry', 2, lambda: check_del_routes(P, ctx))
    from .rules_c05 import check_fresh_slot
    from .effects import Effects
    before = len(ctx.obs)
    check_fresh_slot(P, Effects(P), ctx)
    for o in ctx.obs[before:]:
        o['rule'] = 'C19.element-stamped'
    ctx.floors.pop(('C05.fresh-slot', ctx.config), None)
    ctx.floor('C19.element-stamped', 5)
    from .rules_c06 import check_finalise_unregisters
    check_finalise_unregisters(P, ctx, 'C19.released-once')
    n1 = check_heap_only(P, ctx, 'src/String.c', 'val', 'C19.guards', 'String')
    n2 = check_heap_only(P, ctx, 'src/Tuple.c', 'items', 'C19.guards', 'Tuple')
    from .rules_c16 import check_refusal_covers_mutation
    check_refusal_covers_mutation(P, ctx, 'src/String.c', 'val', 'C19.guards', 'String')
    check_refusal_covers_mutation(P, ctx, 'src/Tuple.c', 'items', 'C19.guards', 'Tuple')
    ctx.floor('C19.guards', 38)
    sub = type('X', (), {})()
    # dealloc refusal of static/stack/data objects (same obligations as C12.dispatcher-checks, re-evaluated here)
    before = len(ctx.obs)
    check_dispatcher(P, ctx)
    for o in ctx.obs[before:]:
        o['rule'] = 'C19.guards' if o['key'].startswith('dealloc') else 'C19.dispatch'
    ctx.floors.pop(('C12.dispatcher-checks', ctx.config), None)
    if ctx.tier == 'thorough':
        for cfg in ('ndebug', 'nocache', 'ngc', 'ndebug+nocache+ngc'):
            Pc = load(None, cfg, [WITNESS])
            ctx.stats['configs'].append(cfg)
            check_headers(Pc, ctx)
            check_pointer_arith(Pc, ctx)
            check_typed_results(Pc, ctx)
        ctx.config = 'default'


EXPLANATION = (
    'Decided: (a) headers — every header_init call in the library and in the `$`/alloc_stack/Cello(...) expansions stamps the '
    '(type, allocation class) the object really has: heap objects (requested type, AllocHeap), run-time types (Type, AllocHeap), '
    'elements embedded in Array/List (container element type, AllocData), Table/Tree keys and values (key type / value type by '
    'position, AllocData), stack objects (T, AllocStack with a buffer of sizeof(Header)+sizeof(struct T)), static objects '
    '(NULL->Type, AllocStatic, magic); an unknown creation site is reported; (b) pointer arithmetic — header/header_init/'
    'alloc_by/dealloc/type_of agree that object = block + sizeof(struct Header); (c) iter_type/key_type/val_type return the '
    'field the elements are stamped with; default copy allocates type_of(self); (d) guards — every realloc/free of a String or '
    'Tuple buffer and the free in dealloc are dominated by the allocation-class refusals. Thorough tier repeats (a)-(c) under '
    'the other header layouts (CELLO_NDEBUG etc.). Not decided: the dynamic type of results of arbitrary view compositions; '
    'that user code never forges headers.')
