"""Program model: functions across units, type-class instance tables (slots),
non-returning function inference, CFG cache, call graph."""
from . import ir, front
from .cfg import CFG, BASE_NORETURN
from .front import AnalysisBroken


class Program:
    def __init__(self, units, config='default'):
        # new static helpers (names the rules were not written against) are spliced back into their callers first
        from . import inline
        units = {up: dict(u, functions=dict(u['functions'])) for up, u in units.items()}
        self.spliced = 0
        for up, u in units.items():
            if up.startswith('src/'):          # witness units and the header are analysed as written
                self.spliced += inline.splice_new_helpers(u['functions'], globals_of_unit=u['globals'])
        self.units = units
        self.config = config
        self.functions = {}          # name -> fn (with 'unit')
        self.globals = {}
        self.records = {}
        self.enums = {}
        for up, u in units.items():
            for n, f in u['functions'].items():
                f['unit'] = up
                # static functions may repeat names across units: key by (unit,name) too
                self.functions.setdefault(n, f)
                self.functions[(up, n)] = f
            for n, g in u['globals'].items():
                g['unit'] = up
                if n not in self.globals or g.get('init') is not None:
                    self.globals[n] = g
            for n, r in u['records'].items():
                self.records.setdefault(n, r)
            self.enums.update({k: v for k, v in u['enums'].items()})
        self._cfgs = {}
        self.noreturn = self._infer_noreturn()
        self.types = self._decode_types()

    # -- lookup ---------------------------------------------------------------
    def fn(self, name, required=True):
        f = self.functions.get(name)
        if f is None and required:
            raise AnalysisBroken('anchor function %s not found' % name)
        return f

    def cfg(self, name, lower_ternary=False):
        """lower_ternary: `return c ? a : b`, `x = c ? a : b` become branches, so that a rule sees the same graph as for if/else"""
        f = self.fn(name) if not isinstance(name, dict) else name
        key = (f['unit'], f['name'], id(f), lower_ternary)
        if key not in self._cfgs:
            self._cfgs[key] = CFG(f, self.noreturn, lower_ternary=lower_ternary)
        return self._cfgs[key]

    def all_functions(self):
        seen = set()
        for k, f in self.functions.items():
            if isinstance(k, tuple) and k not in seen:
                seen.add(k)
                yield f

    # -- noreturn inference ---------------------------------------------------
    def _infer_noreturn(self):
        nr = set(BASE_NORETURN)
        changed = True
        fns = list(self.all_functions())
        # only functions that contain a call to something already non-returning can qualify
        while changed:
            changed = False
            for f in fns:
                if f['name'] in nr:
                    continue
                names = {ir.callee_name(c) for c, _ in ir.all_calls(f['body'])}
                if not (names & nr):
                    continue
                try:
                    g = CFG(f, nr)
                except AnalysisBroken:
                    continue
                if not g.returns_normally():
                    nr.add(f['name'])
                    changed = True
        return nr

    # -- instance tables --------------------------------------------------------
    def _decode_types(self):
        """{TypeName: {'size': expr, 'instances': {Class: {member: func or None}}, 'order': [Class...]}}
        decoded from `var T = Cello(T, Instance(C, f, ...))` initialisers."""
        types = {}
        for name, g in self.globals.items():
            init = g.get('init')
            if init is None or g['type'] != 'void *':
                continue
            il = None
            for x in ir.walk(init):
                if x[0] == 'compound' and x[1].startswith('var[') and x[2] is not None and x[2][0] == 'initlist':
                    il = x[2][1]
                    break
            if il is None:
                continue
            els = [ir.top_nocast(e) for e in il]
            tname = None
            size = None
            inst = {}
            order = []
            for i, e in enumerate(els):
                if e == ('str', '__Name') and i + 1 < len(els) and els[i + 1][0] == 'str':
                    tname = els[i + 1][1]
                if e == ('str', '__Size') and i + 1 < len(els):
                    size = els[i + 1]
                if e[0] == 'un' and e[1] == '&' and e[2][0] == 'compound' and e[2][1].startswith('struct '):
                    cls = e[2][1][len('struct '):]
                    label = els[i - 1] if i > 0 else None
                    if label != ('str', cls):
                        raise AnalysisBroken('instance label %r does not match struct %s in %s' % (label, cls, name))
                    rec = self.records.get(cls)
                    if rec is None:
                        raise AnalysisBroken('class struct %s not found' % cls)
                    members = [f[0] for f in rec['fields']]
                    vals = list(e[2][2][1]) if e[2][2] is not None else []
                    slot = {}
                    for j, m in enumerate(members):
                        v = ir.top_nocast(vals[j]) if j < len(vals) else ('zero',)
                        slot[m] = v[1] if v[0] == 'func' else None
                    inst[cls] = slot
                    order.append(cls)
            if tname is None:
                continue
            types[name] = {'name': tname, 'size': size, 'instances': inst, 'order': order,
                           'header': els, 'unit': g.get('unit'), 'line': g.get('line')}
        return types

    def slot(self, T, C, m, required=True):
        t = self.types.get(T)
        if t is None:
            if required:
                raise AnalysisBroken('type %s has no decodable instance table' % T)
            return None
        ins = t['instances'].get(C)
        if ins is None:
            if required:
                raise AnalysisBroken('type %s declares no %s instance' % (T, C))
            return None
        if m not in ins:
            raise AnalysisBroken('class %s has no member %s' % (C, m))
        f = ins[m]
        if f is None and required:
            raise AnalysisBroken('slot %s.%s.%s is empty' % (T, C, m))
        return f

    def slots_of_class(self, C, m):
        """[(Type, function)] for every type with a non-empty C.m slot"""
        out = []
        for T, t in sorted(self.types.items()):
            ins = t['instances'].get(C)
            if ins and ins.get(m):
                out.append((T, ins[m]))
        return out

    # -- call graph -----------------------------------------------------------
    def callees(self, fname):
        f = self.fn(fname, required=False)
        if f is None:
            return set()
        return {ir.callee_name(c) for c, _ in ir.all_calls(f['body'])} - {None}

    def reaches(self, fname, targets, depth=6, _seen=None):
        """does fname (transitively through direct calls to defined functions)
        call any function in targets?"""
        _seen = _seen if _seen is not None else set()
        if fname in _seen or depth < 0:
            return False
        _seen.add(fname)
        cs = self.callees(fname)
        if cs & set(targets):
            return True
        return any(self.reaches(c, targets, depth - 1, _seen) for c in cs if c in self.functions)


def load(paths=None, config='default', witness=()):
    units = front.load_units(paths, config, extra_units=witness)
    return Program(units, config)
