"""Polynomial normal form over symbolic atoms, for byte offsets / extents.

A Poly is {monomial: coefficient}; a monomial is a sorted tuple of atom keys
(strings). Atoms are canonical sub-expressions the arithmetic cannot look
into (field reads, calls such as strlen(x), parameters)."""
from fractions import Fraction
from . import ir

SIZEOF = {'char': 1, 'unsigned char': 1, 'signed char': 1, 'short': 2, 'unsigned short': 2,
          'int': 4, 'unsigned int': 4, 'long': 8, 'unsigned long': 8, 'long long': 8,
          'unsigned long long': 8, 'double': 8, 'float': 4, '_Bool': 1}


class Poly:
    def __init__(self, terms=None):
        self.t = {k: v for k, v in (terms or {}).items() if v != 0}

    @staticmethod
    def const(c):
        return Poly({(): Fraction(c)})

    @staticmethod
    def atom(a):
        return Poly({(a,): Fraction(1)})

    def __add__(self, o):
        t = dict(self.t)
        for k, v in o.t.items():
            t[k] = t.get(k, 0) + v
        return Poly(t)

    def __neg__(self):
        return Poly({k: -v for k, v in self.t.items()})

    def __sub__(self, o):
        return self + (-o)

    def __mul__(self, o):
        t = {}
        for k1, v1 in self.t.items():
            for k2, v2 in o.t.items():
                k = tuple(sorted(k1 + k2))
                t[k] = t.get(k, 0) + v1 * v2
        return Poly(t)

    def __eq__(self, o):
        return isinstance(o, Poly) and self.t == o.t

    def __hash__(self):
        return hash(tuple(sorted(self.t.items())))

    def is_const(self):
        return all(k == () for k in self.t)

    def const_value(self):
        return self.t.get((), Fraction(0)) if self.is_const() else None

    def atoms(self):
        return {a for k in self.t for a in k}

    def subst(self, mapping):
        """replace atoms by Poly values"""
        out = Poly()
        for k, v in self.t.items():
            term = Poly.const(v)
            for a in k:
                term = term * (mapping[a] if a in mapping else Poly.atom(a))
            out = out + term
        return out

    def eval(self, env):
        tot = Fraction(0)
        for k, v in self.t.items():
            x = v
            for a in k:
                x *= env[a]
            tot += x
        return tot

    def __repr__(self):
        if not self.t:
            return '0'
        parts = []
        for k, v in sorted(self.t.items()):
            s = '*'.join(k)
            if not k:
                parts.append(str(v))
            elif v == 1:
                parts.append(s)
            else:
                parts.append('%s*%s' % (v, s))
        return ' + '.join(parts)


def sizeof_poly(tname):
    t = tname.strip()
    if t.endswith('*') or t in ('var',):
        return Poly.const(8)
    if t in SIZEOF:
        return Poly.const(SIZEOF[t])
    if t == 'struct Header':
        return Poly.atom('H')
    return Poly.atom('sizeof(%s)' % t)


class NotPoly(Exception):
    pass


def from_expr(e, resolve=None, scale_ptr=None):
    """expression -> Poly. resolve(atom_expr) may return an expression to expand
    (e.g. a local's single definition, an inlined accessor) or None to keep it
    as an atom. Casts are transparent (callers handle pointer scaling)."""
    e = ir.top_nocast(e)
    k = e[0]
    if k == 'int':
        return Poly.const(e[1])
    if k == 'zero':
        return Poly.const(0)
    if k == 'sizeof':
        if e[1][0] == 'type':
            return sizeof_poly(e[1][1])
        raise NotPoly('sizeof expr')
    if k == 'bin':
        op = e[1]
        if op in ('+', '-', '*'):
            a = from_expr(e[2], resolve)
            b = from_expr(e[3], resolve)
            return a + b if op == '+' else (a - b if op == '-' else a * b)
        if op == '/':
            a = from_expr(e[2], resolve)
            b = from_expr(e[3], resolve)
            cv = b.const_value()
            if cv:
                return a * Poly.const(Fraction(1) / cv)
    if k == 'un' and e[1] == '-':
        return -from_expr(e[2], resolve)
    if resolve is not None:
        r = resolve(e)
        if r is not None:
            return from_expr(r, resolve)
    return Poly.atom(ir.fmt(ir.canon(e)))
