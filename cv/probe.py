"""Extraction of the open-addressing probe-loop fragments (start slot, stop
conditions, hit test, advance, displacement, back-shift) from a function, in a
role-normalised canonical form so that sibling implementations can be compared.
Used for the Table (C02) and the collector registry (C17)."""
from . import ir, util
from .front import AnalysisBroken


def _slot_hash_read(e):
    """is e a read of the stored hash of slot <idx>?  -> idx expr or None
    forms: X->entries[i].hash   |   Table_Key_Hash(t, i)"""
    e = ir.top_nocast(e)
    if e[0] in ('dot', 'arrow') and e[2] == 'hash':
        b = ir.top_nocast(e[1])
        if b[0] == 'idx':
            return ir.top_nocast(b[2])
    if e[0] == 'call' and ir.callee_name(e) in ('Table_Key_Hash',) and len(e[2]) == 2:
        return ir.top_nocast(e[2][1])
    return None


class Frag:
    pass


def lookup_fragments(P, fname):
    """fragments of the (first) probe loop of fname"""
    fn = P.fn(fname)
    g = P.cfg(fn)
    N = util.Norm(P, fn, inline=False)
    F = Frag()
    F.fn, F.g = fn, g
    # h definition: local initialised from a slot-hash read, inside a loop
    hdefs = []
    for n in g.live():
        d = n.get('decl')
        if d and d['init'] is not None:
            ix = _slot_hash_read(d['init'])
            if ix is not None and ix[0] == 'local' and n['id'] in g.reach_from(n['succ'][0][0] if n['succ'] else g.exit):
                hdefs.append((n, ('local', d['name'], d['id']), ix))
    if not hdefs:
        raise AnalysisBroken('%s: no probe loop (read of a slot hash inside a loop) found' % fname)
    hn, hv, iv = hdefs[0]
    F.hnode, F.h, F.i = hn, hv, iv
    loop_nodes = g.innermost_loop_of(hn['id']) or set()
    F.loop_nodes = loop_nodes
    # j: the local compared with Probe(...) (directly or through p)
    jv = None
    pv = None
    probe_name = None
    for i in loop_nodes:
        n = g.nodes[i]
        d = n.get('decl')
        if d and d['init'] is not None:
            t = ir.top_nocast(d['init'])
            if t[0] == 'call' and (ir.callee_name(t) or '').endswith('_Probe'):
                pv = ('local', d['name'], d['id'])
                probe_name = ir.callee_name(t)
    for i in loop_nodes:
        n = g.nodes[i]
        if n['kind'] != 'cond':
            continue
        c = ir.nocast(n['expr'])
        if c[0] == 'bin' and c[1] in ('<', '>', '<=', '>='):
            for a, b in ((c[2], c[3]), (c[3], c[2])):
                if a[0] == 'local' and ((b[0] == 'call' and (ir.callee_name(b) or '').endswith('_Probe')) or (pv is not None and b == pv)):
                    if a != hv and a != iv:
                        jv = a
                        if b[0] == 'call':
                            probe_name = ir.callee_name(b)
    if jv is None:
        raise AnalysisBroken('%s: no probe-distance counter compared with the resident\'s probe distance' % fname)
    F.j, F.p, F.probe_name = jv, pv, probe_name
    roles = {iv: ('local', 'I'), jv: ('local', 'J'), hv: ('local', 'H')}
    if pv is not None:
        roles[pv] = ('local', 'P')

    def rc(e):
        e2 = ir.subst(ir.nocast(e), roles)
        return N.canon(e2)
    F.rc = rc
    # start values: writes to i / j dominating the loop, outside it
    F.start = {}
    for var, nm in ((iv, 'i'), (jv, 'j')):
        ws = []
        for n in g.live():
            if n['id'] in loop_nodes or n['expr'] is None:
                continue
            for ev in util.expr_events(n['expr'], n):
                if ev['t'] == 'write' and ir.top_nocast(ev['lhs']) == var and ev['op'] == '=' and g.must_pass(hn['id'], [n['id']]):
                    ws.append((n, rc(ev['rhs'])))
        # the last dominating write wins (GC_Rem_Ptr reuses `i` for the pending-list loop first)
        ws.sort(key=lambda x: x[0]['id'])
        F.start[nm] = ws[-1][1] if ws else None
    # in-loop conditions and writes
    F.conds = []
    F.writes = []
    for i in sorted(loop_nodes):
        n = g.nodes[i]
        if n['kind'] == 'cond':
            F.conds.append((n, rc(n['expr'])))
        if n['expr'] is not None and n['kind'] in ('stmt',):
            for ev in util.expr_events(n['expr'], n):
                if ev['t'] == 'write' and ir.top_nocast(ev['lhs']) in (iv, jv):
                    F.writes.append((n, 'i' if ir.top_nocast(ev['lhs']) == iv else 'j', ev['op'], rc(ev['rhs']) if ev['rhs'] is not None else None))
    return F


def stop_set(F):
    """canonical stop conditions of a lookup: conditions over H / J whose true branch leaves the loop"""
    out = set()
    g = F.g
    for n, c in F.conds:
        if not util.mentions(c, lambda y: y in (('local', 'H'), ('local', 'J'))):
            continue
        for (v, l) in n['succ']:
            # a branch leaves the loop if the loop head is not reachable from it without ... (simple: target outside loop_nodes or is exit/ret/term)
            tgt = g.nodes[v]
            if v not in F.loop_nodes or tgt['kind'] in ('ret', 'term'):
                out.add((ir.fmt(c), l))
    return out


def advance_set(F, exclude_lines=()):
    out = set()
    for n, var, op, rhs in F.writes:
        out.add((var, op, ir.fmt(rhs) if rhs is not None else None))
    return out


def probe_function_form(P, name):
    """canonical body of X_Probe(self, i, h): returns string of the value computed"""
    fn = P.fn(name)
    g = P.cfg(fn)
    N = util.Norm(P, fn, inline=False)
    # v = i - (h-1); if (v < 0) v = self->nslots + v; return v
    rets = [n for n in g.live() if n['kind'] == 'ret']
    conds = [n for n in g.live() if n['kind'] == 'cond']
    decl = [n for n in g.live() if n.get('decl') and n['decl']['init'] is not None]
    adj = [n for n in g.live() if n['kind'] == 'stmt' and not n.get('decl') and n['expr'] is not None]
    if len(rets) != 1 or len(conds) != 1 or len(decl) != 1 or len(adj) != 1:
        return None
    v = ('local', decl[0]['decl']['name'])
    return (ir.fmt(N.canon(decl[0]['decl']['init'])), decl[0]['decl']['type'], ir.fmt(N.canon(conds[0]['expr'])),
            ir.fmt(N.canon(adj[0]['expr'])), ir.fmt(N.canon(rets[0]['expr'])))


def probe_function_eval(P, name):
    """The probe distance X_Probe(self, i, h) of the resident of slot i whose stored hash is h (home slot + 1) must be
    (i - (h-1)) modulo the slot count, as a non-negative number — also when the entry wrapped past the end of the table.
    Evaluated with exact C conversions (the subtraction may be unsigned) for every table size 1..7, slot and home.
    Returns None when it agrees, else a sentence."""
    from . import cint
    fn = P.fn(name)
    for ns in range(1, 8):
        for i in range(ns):
            for home in range(ns):
                it = cint.CInt(P, fn, atoms={('arrow', ('param', 0), 'nslots'): ns})
                r = it.run([7001, i, home + 1])
                want = (i - home) % ns
                if r[0] != 'ret' or r[1] != want:
                    got = r[1] if r[0] == 'ret' else '%s (%s)' % (r[0], r[1])
                    return 'table of %d slots, slot %d, resident whose home is slot %d (stored hash %d): distance %s, it is %d' % (ns, i, home, home + 1, got, want)
    return None
