"""Extraction of the open-addressing probe-loop fragments (start slot, stop
conditions, hit test, advance, displacement, back-shift) from a function, in a
role-normalised canonical form so that sibling implementations can be compared.
Used for the Table (C02) and the collector registry (C17)."""
from . import ir, util
from .front import AnalysisBroken


def _slot_hash_read(e):
    """is e a read of the stored hash of slot <idx>?  -> idx expr or None
    forms: X->entries[i].hash   |   Table_Key_Hash(t, i)"""
    e = ir.top_nocast(e)
    if e[0] in ('dot', 'arrow') and e[2] == 'hash':
        b = ir.top_nocast(e[1])
        if b[0] == 'idx':
            return ir.top_nocast(b[2])
    if e[0] == 'call' and ir.callee_name(e) in ('Table_Key_Hash',) and len(e[2]) == 2:
        return ir.top_nocast(e[2][1])
    return None


class Frag:
    pass


def lookup_fragments(P, fname):
    """fragments of the (first) probe loop of fname.  Everything is read off canonical forms with single-definition locals
    expanded and `(&a[i])->f` folded to `a[i].f`, so it does not matter whether the stored hash, the probed slot or the probe
    distance are held in locals (h, slot, p) or spelled out at each use."""
    fn = P.fn(fname)
    g = P.cfg(fn)
    NX = util.Norm(P, fn, expand_locals=True, inline=False)
    F = Frag()
    F.fn, F.g = fn, g
    # the first read of a slot's stored hash inside a loop: fixes the probed index variable and the hash expression
    found = None
    for n in sorted(g.live(), key=lambda x: x['id']):
        if n['expr'] is None or not g.innermost_loop_of(n['id']):
            continue
        c = NX.canon(n['expr'])
        for x in ir.walk(c):
            ix = _slot_hash_read(x)
            if ix is not None and ix[0] == 'local':
                found = (n, x, ix)
                break
        if found:
            break
    if not found:
        raise AnalysisBroken('%s: no probe loop (read of a slot hash inside a loop) found' % fname)
    hn, HX, iv = found
    F.hnode, F.h, F.i = hn, ('local', 'H'), iv
    loop_nodes = g.innermost_loop_of(hn['id']) or set()
    F.loop_nodes = loop_nodes
    # is the probe distance of the resident held in a local (p)?  then its uses are shown as P
    has_p = False
    probe_name = None
    for i in loop_nodes:
        n = g.nodes[i]
        d = n.get('decl')
        if d and d['init'] is not None:
            t = ir.top_nocast(d['init'])
            if t[0] == 'call' and (ir.callee_name(t) or '').endswith('_Probe'):
                has_p = True
                probe_name = ir.callee_name(t)

    def is_probe(x):
        return x[0] == 'call' and (ir.callee_name(x) or '').endswith('_Probe')
    jv = None
    for i in sorted(loop_nodes):
        n = g.nodes[i]
        if n['kind'] != 'cond':
            continue
        c = NX.canon(n['expr'])
        if c[0] == 'bin' and c[1] in ('<', '<='):
            for a, b in ((c[2], c[3]), (c[3], c[2])):
                if a[0] == 'local' and a != iv and is_probe(b):
                    jv = a
                    probe_name = probe_name or ir.callee_name(b)
        if jv is not None:
            break
    if jv is None:
        raise AnalysisBroken('%s: no probe-distance counter compared with the resident\'s probe distance' % fname)
    F.j, F.p, F.probe_name = jv, (('local', 'P') if has_p else None), probe_name

    def rc(e):
        c = NX.canon(e)

        c = ir.rebuild(c, lambda x: ('local', 'H') if x == HX else x)

        def f(x):
            if x == iv:
                return ('local', 'I')
            if x == jv:
                return ('local', 'J')
            return x
        c = ir.rebuild(c, f)
        if has_p:
            c = ir.rebuild(c, lambda x: ('local', 'P') if is_probe(x) else x)
        return ir.canon(c)
    F.rc = rc

    def is_var(lhs, v):
        t = ir.top_nocast(lhs)
        return t[0] == 'local' and t[1] == v[1]
    # start values: writes to i / j dominating the loop, outside it
    F.start = {}
    for var, nm in ((iv, 'i'), (jv, 'j')):
        ws = []
        for n in g.live():
            if n['id'] in loop_nodes or n['expr'] is None:
                continue
            for ev in util.expr_events(n['expr'], n):
                if ev['t'] == 'write' and is_var(ev['lhs'], var) and ev['op'] == '=' and g.must_pass(hn['id'], [n['id']]):
                    ws.append((n, rc(ev['rhs'])))
        # the last dominating write wins (GC_Rem_Ptr reuses `i` for the pending-list loop first)
        ws.sort(key=lambda x: x[0]['id'])
        F.start[nm] = ws[-1][1] if ws else None
    # in-loop conditions and writes
    F.conds = []
    F.writes = []
    for i in sorted(loop_nodes):
        n = g.nodes[i]
        if n['kind'] == 'cond':
            F.conds.append((n, rc(n['expr'])))
        if n['expr'] is not None and n['kind'] in ('stmt',):
            for ev in util.expr_events(n['expr'], n):
                if ev['t'] == 'write' and (is_var(ev['lhs'], iv) or is_var(ev['lhs'], jv)):
                    F.writes.append((n, 'i' if is_var(ev['lhs'], iv) else 'j', ev['op'], rc(ev['rhs']) if ev['rhs'] is not None else None))
    return F


def stop_set(F):
    """canonical stop conditions of a lookup: conditions over H / J whose true branch leaves the loop"""
    out = set()
    g = F.g
    for n, c in F.conds:
        if not util.mentions(c, lambda y: y in (('local', 'H'), ('local', 'J'))):
            continue
        for (v, l) in n['succ']:
            # a branch leaves the loop if the loop head is not reachable from it without ... (simple: target outside loop_nodes or is exit/ret/term)
            tgt = g.nodes[v]
            if v not in F.loop_nodes or tgt['kind'] in ('ret', 'term'):
                out.add((ir.fmt(c), l))
    return out


def advance_set(F, exclude_lines=()):
    out = set()
    for n, var, op, rhs in F.writes:
        out.add((var, op, ir.fmt(rhs) if rhs is not None else None))
    return out


def probe_function_form(P, name):
    """canonical body of X_Probe(self, i, h): returns string of the value computed"""
    fn = P.fn(name)
    g = P.cfg(fn)
    N = util.Norm(P, fn, inline=False)
    # v = i - (h-1); if (v < 0) v = self->nslots + v; return v
    rets = [n for n in g.live() if n['kind'] == 'ret']
    conds = [n for n in g.live() if n['kind'] == 'cond']
    decl = [n for n in g.live() if n.get('decl') and n['decl']['init'] is not None]
    adj = [n for n in g.live() if n['kind'] == 'stmt' and not n.get('decl') and n['expr'] is not None]
    if len(rets) != 1 or len(conds) != 1 or len(decl) != 1 or len(adj) != 1:
        return None
    v = ('local', decl[0]['decl']['name'])
    return (ir.fmt(N.canon(decl[0]['decl']['init'])), decl[0]['decl']['type'], ir.fmt(N.canon(conds[0]['expr'])),
            ir.fmt(N.canon(adj[0]['expr'])), ir.fmt(N.canon(rets[0]['expr'])))


def probe_function_eval(P, name):
    """The probe distance X_Probe(self, i, h) of the resident of slot i whose stored hash is h (home slot + 1) must be
    (i - (h-1)) modulo the slot count, as a non-negative number — also when the entry wrapped past the end of the table.
    Evaluated with exact C conversions (the subtraction may be unsigned) for every table size 1..7, slot and home.
    Returns None when it agrees, else a sentence."""
    from . import cint
    fn = P.fn(name)
    for ns in range(1, 8):
        for i in range(ns):
            for home in range(ns):
                it = cint.CInt(P, fn, atoms={('arrow', ('param', 0), 'nslots'): ns})
                r = it.run([7001, i, home + 1])
                want = (i - home) % ns
                if r[0] != 'ret' or r[1] != want:
                    got = r[1] if r[0] == 'ret' else '%s (%s)' % (r[0], r[1])
                    return 'table of %d slots, slot %d, resident whose home is slot %d (stored hash %d): distance %s, it is %d' % (ns, i, home, home + 1, got, want)
    return None
