"""C14 — print formatting equals C formatting (structural necessary conditions) and
C15 shares the scanner analysis (see rules_c15)."""
from . import ir, util, absmodel, poly
from .report import site
from .front import AnalysisBroken
from .rules_c12 import guards_of, dominated_by_guard, throw_only, succ_of

UNITS = ['src/Show.c', 'src/String.c', 'src/File.c', 'src/Num.c', 'src/Exception.c']


def current_char_names(g, fmtp):
    """canonical expressions that denote the current format character: `*fmt` itself and every local whose only definitions are `*fmt`
    (a local that holds the character read once, e.g. `char spec = *fmt;`)"""
    cur = ir.canon(('un', '*', fmtp))
    defs = {}
    for n in g.live():
        if n['expr'] is None:
            continue
        for ev in util.expr_events(n['expr'], n):
            if ev['t'] == 'write':
                l = ir.top_nocast(ev['lhs'])
                if l[0] == 'local':
                    defs.setdefault(ir.canon(l), []).append(ir.canon(ev['rhs']) if ev.get('rhs') is not None and ev.get('op') in ('=', None) else None)
    return {cur} | {l for l, rs in defs.items() if rs and all(r == cur for r in rs)}


def letter_tests(g, fmtp):
    """cond nodes that test the current format character: -> [(node, set(letters), polarity_when_match)]"""
    out = []
    cur0 = ir.canon(('un', '*', fmtp))
    curs = current_char_names(g, fmtp)
    for n in g.live():
        if n['kind'] != 'cond':
            continue
        c = ir.canon(n['expr'])
        if c[0] == 'bin' and c[1] in ('==', '!=') and (c[2] in curs or c[3] in curs):
            other = c[3] if c[2] in curs else c[2]
            if other[0] == 'int':
                out.append((n, {chr(other[1])}, c[1] == '=='))
        elif c[0] == 'call' and ir.callee_name(c) == 'strchr' and len(c[2]) == 2 and c[2][1] in curs and c[2][0][0] == 'str':
            out.append((n, set(c[2][0][1]), True))
    # the same skip written with the library idiom: fmt += strcspn(fmt, "set")
    for n in g.live():
        if n['kind'] == 'cond' or n['expr'] is None:
            continue
        for c in ir.calls(n['expr']):
            if ir.callee_name(c) == 'strcspn' and len(c[2]) == 2 and ir.canon(c[2][0]) == ir.canon(fmtp) and ir.top_nocast(c[2][1])[0] == 'str':
                out.append((n, set(ir.top_nocast(c[2][1])[1]), True))
    return out


def branch_nodes(g, cond, pol):
    """nodes of the arm taken when cond has polarity pol: reachable from that successor without
    passing the other successor or leaving through the enclosing loop header"""
    t = succ_of(cond, pol)
    f = succ_of(cond, not pol)
    cut = [f] if f is not None else []
    for n in g.live():
        if n['kind'] == 'join' and n.get('loop') and cond['id'] in g.natural_loop(n['id']):
            cut.append(n['id'])
    return [g.nodes[i] for i in sorted(g.reach_from(t, cut_nodes=cut))]


KIND_ACCESSOR = {'s': 'c_str', 'int': 'c_int', 'float': 'c_float', 'c': 'c_int', 'p': None}


def check_print(P, ctx):
    """print_to_with, decided by evaluating it on concrete format strings (cv/printmodel.py): literal runs, %%, every conversion letter
    with flags / width / precision / length modifiers, specifications at the very start and end and adjacent ones, with exactly enough
    arguments and with one too few"""
    from . import printmodel
    fn = P.fn('print_to_with')
    ctx.fn(fn)
    s = site(fn)
    bad, unsup, ncase = printmodel.eval_print(P)
    ctx.stats['paths'] += ncase

    def emit(rule, key, aspects, text):
        msgs = [bad[a] for a in aspects if a in bad]
        if unsup and not msgs:
            ctx.undecided(rule, key, s, 'print_to_with leaves the evaluated fragment: ' + unsup)
        else:
            ctx.check(not msgs, rule, key, s, text + ' (%d format/argument combinations evaluated)' % ncase, msgs[:1] or None)
    rule = 'C14.specifier-table'
    emit(rule, 'letters', [a for a in bad if a.startswith('spec:')], 'the conversion letters that end a specification (%s) are exactly the letters some branch formats, each by one branch' % ''.join(sorted(printmodel.LETTERS)))
    for key, asp, what in (('branch:$', 'spec:$', '%$ shows the next argument with show_to'), ('branch:s', 'spec:s', '%s writes c_str of the next argument with the copied specification'),
                           ('branch:int', 'spec:int', 'd i u o x X write c_int of the next argument (64-bit, unchanged) with the copied specification'),
                           ('branch:float', 'spec:float', 'f F e E g G a A write c_float of the next argument with the copied specification'),
                           ('branch:c', 'spec:c', '%c writes c_int of the next argument with the copied specification'), ('branch:p', 'spec:p', '%p writes the object pointer itself')):
        emit(rule, key, [asp], what)
    emit(rule, 'literals', ['literal', 'percent'], 'literal text is copied to the scratch buffer and written with the sink; %% is written as the two-character format "%%"')
    for key in ('literal', 'percent', 'spec', 'show', 'returned'):
        emit('C14.position', key, ['position'], 'every piece is written at the position the previous one left (the count the sink returns is added exactly once, %$ takes show_to\'s position) and the last position is returned')
    emit('C14.too-few-arguments', 'print_to_with', ['too-few'], 'each specification consumes the next argument and one argument too few raises FormatError at that specification, after the earlier pieces')
    emit('C14.scratch-bound', 'print_to_with', ['scratch'], 'the scratch buffer holds what the function requested from malloc; every store into it lies inside, and the caller\'s format string is never written')
    ctx.floor('C14.specifier-table', 8)
    ctx.floor('C14.position', 5)


def check_show_to(P, ctx):
    rule = 'C14.show'
    fn = P.fn('show_to')
    ctx.fn(fn)
    # evaluated (cint): object NULL / not, type with / without a Show instance, instance with / without a show member
    from . import cint
    SELF_, OUT, POS0, FN, SHOWN = 5000, 2, 40, 4242, 9000
    bad, unsup, ncase = None, None, 0
    for selfv in (0, SELF_):
        for has_inst in (0, 1):
            for has_show in (0, 1):
                events = []

                def call(nm, e, it, selfv=selfv, has_inst=has_inst, has_show=has_show, events=events):
                    if nm is None:
                        f_ = it.ev(e[1])
                        if f_ != FN:
                            raise ShowMismatch('calls through an empty member')
                        events.append(('dispatch', [it.ev(a_) for a_ in e[2]]))
                        return SHOWN
                    if nm in ('instance', 'type_instance', 'type_of', 'implements', 'implements_method_at_offset', 'type_implements'):
                        if selfv == 0:
                            raise ShowMismatch('looks up the type of a NULL object (%s)' % nm)
                        if nm == 'instance':
                            return ('ep', 'show', 0) if has_inst else 0
                        if nm == 'type_of':
                            return 8500
                        return has_inst
                    if nm == 'print_to_with':
                        events.append(('sink', [it.ev(e[2][0]), it.ev(e[2][1])], ir.top_nocast(e[2][2])))
                        return POS0 + 7
                    raise cint.NoEval('call %s' % nm)
                atoms = {('global', 'NULL'): 0, ('global', 'Terminal'): 7777, ('global', 'Show'): 8600, ('elem', 'show', 0, 'show'): FN if has_show else 0,
                         ('elem', 'show', 0, 'look'): 0}
                it = cint.CInt(P, fn, atoms=atoms, call=call, recurse=False, N=util.Norm(P, fn, expand_locals=False, inline=False))
                label = 'object %s' % ('NULL' if selfv == 0 else 'of a type %s' % ('without Show' if not has_inst else ('whose Show has no show member' if not has_show else 'with a show function')))
                try:
                    r = it.run([selfv, OUT, POS0])
                except ShowMismatch as x:
                    bad = bad or '%s: %s' % (label, x)
                    continue
                ncase += 1
                if r[0] == 'stuck':
                    unsup = '%s: %s at %s' % (label, r[1], P.cfg(fn).describe(r[2]))
                    continue
                dispatch = selfv != 0 and has_inst and has_show
                if dispatch:
                    good = r[0] == 'ret' and events == [('dispatch', [selfv, OUT, POS0])] and r[1] == SHOWN
                else:
                    good = r[0] == 'ret' and len(events) == 1 and events[0][0] == 'sink' and events[0][1] == [OUT, POS0] and events[0][2][0] == 'str' and \
                        '$' not in _fmt_items(events[0][2][1]) and r[1] == POS0 + 7
                if not good:
                    bad = bad or '%s: %s, returns %s' % (label, ', '.join('%s%s' % (e_[0], e_[1]) for e_ in events) or 'writes nothing', r[1] if r[0] == 'ret' else r[0])
    ctx.stats['paths'] += ncase
    if unsup and not bad:
        ctx.undecided(rule, 'show_to', site(fn), 'show_to leaves the evaluated fragment: ' + unsup)
    else:
        ctx.check(bad is None, rule, 'show_to', site(fn), 'show_to returns what the type\'s own Show.show writes for (self, out, pos); a NULL object, and an object '
                  'whose type has no show function, is written as literal text at the given position without dispatch (%d cases evaluated)' % ncase, [bad] if bad else None)
    # show functions write through literal formats only (an object\'s contents are never used as a format string)
    rule = 'C14.literal-formats'
    nsites = 0
    for T, fname in P.slots_of_class('Show', 'show'):
        if not P.types[T]['unit'].startswith('src/'):
            continue
        f = P.functions.get(fname)
        if f is None:
            continue
        ctx.fn(f)
        bad = None
        okf = util.format_sources(f)
        for c, ln in ir.all_calls(f['body']):
            nm = ir.callee_name(c)
            if nm in ('print_to_with', 'format_to', 'format_to_va') and len(c[2]) >= 3:
                nsites += 1
                fm = ir.top_nocast(c[2][2])
                if not okf(fm) or fm[0] == 'param':
                    bad = bad or (ln, ir.fmt(c)[:120])
        ctx.check(bad is None, rule, '%s.Show.show' % T, site(f, bad[0] if bad else None),
                  'text is written through constant format strings; data of the shown object reaches the sink only as an argument (data used as a format would be '
                  're-interpreted: %% collapses, a lone % reads a missing argument)', ['call: %s' % bad[1]] if bad else None)
    ctx.stats['call_sites'] += nsites
    ctx.floor(rule, 6)


def check_position_threaded(P, ctx):
    """a show function returns the position after what it wrote: the position each sink call returns is taken over (assigned to the
    running position or returned), never dropped, and the value finally returned is that running position or a sink call's result"""
    rule = 'C14.position-threaded'
    SINKS = {'print_to', 'print_to_with', 'show_to', 'format_to', 'format_to_va'}
    n_fn = 0
    for T, fname in sorted(P.slots_of_class('Show', 'show')):
        if not P.types[T]['unit'].startswith('src/'):
            continue
        fn = P.fn(fname)
        g = P.cfg(fn, lower_ternary=True)
        ctx.fn(fn)
        n_fn += 1
        bad = None
        posvars = set()
        for n in g.live():
            if n['expr'] is None:
                continue
            e = ir.top_nocast(n['expr'])
            calls = [c for c in ir.calls(n['expr']) if ir.callee_name(c) in SINKS]
            for c in calls:
                taken = False
                if e[0] == 'assign' and e[1] == '=' and ir.top_nocast(e[3]) == c:
                    taken = True
                    t = ir.top_nocast(e[2])
                    if t[0] in ('local', 'param'):
                        posvars.add(t[:3] if t[0] == 'local' else ('param', t[2]))
                elif n['kind'] == 'ret' and e == c:
                    taken = True
                elif e[0] == 'assign' and e[1] == '+=' and ir.top_nocast(e[3]) == c:
                    taken = True
                # a sink call used as the position argument of another sink call is threaded too
                elif any(c2 is not c and ir.callee_name(c2) in SINKS and len(c2[2]) > 1 and ir.top_nocast(c2[2][1]) == c for c2 in ir.calls(n['expr'])):
                    taken = True
                if not taken:
                    bad = bad or 'the position returned by %s at %s is dropped: what it wrote is not counted' % (ir.callee_name(c), g.describe(n))
        posvars.add(('param', 2))
        for n in g.live():
            if n['kind'] == 'ret' and n['expr'] is not None:
                e = ir.top_nocast(n['expr'])
                okr = (e[0] == 'call' and ir.callee_name(e) in SINKS) or (e[0] == 'param' and ('param', e[2]) in posvars) or (e[0] == 'local' and e[:3] in posvars)
                if e[0] == 'param' and e[2] == 2:
                    # returning the incoming position unchanged is right only if nothing was written on the way
                    wrote = any(m['expr'] is not None and any(ir.callee_name(c) in SINKS for c in ir.calls(m['expr'])) and g.must_pass(n['id'], [m['id']]) is False and
                                n['id'] in g.reach_from(m['id']) for m in g.live())
                if not okr:
                    bad = bad or 'returns `%s`, which is not the running position' % ir.fmt(ir.canon(e))[:40]
        ctx.check(bad is None, rule, '%s.Show.show' % T, site(fn), 'every position a sink hands back is carried on, and the final one is returned', [bad] if bad else None)
    ctx.floor(rule, 8)


class ShowMismatch(Exception):
    pass


class ShowUnsupported(Exception):
    pass


def _fmt_items(fmt):
    """the conversion letters of a format string, in order ('$' for %$); %% is literal text"""
    out, i = [], 0
    while i < len(fmt):
        if fmt[i] != '%':
            i += 1
            continue
        if fmt[i + 1:i + 2] == '%':
            i += 2
            continue
        j = i + 1
        while j < len(fmt) and fmt[j] not in 'diuoxXcsfFeEgGaAp$':
            j += 1
        if j >= len(fmt):
            break
        out.append(fmt[j])
        i = j + 1
    return out


def _initlist_items(e):
    """the elements of the `(var[]){...}` literal that the tuple(...) macro builds, or None"""
    found = []

    def rec(x):
        if isinstance(x, tuple):
            if len(x) == 3 and x[0] == 'compound' and isinstance(x[1], str) and x[1].startswith('var[') and isinstance(x[2], tuple) and x[2][0] == 'initlist':
                found.append(x[2][1])
                return
            for y in x:
                rec(y)
    rec(e)
    return found[0] if len(found) == 1 else None


def eval_container_show(P, T, is_map):
    """Evaluate T's show function (cint, exact C conditions; the type's own accessors and cursor functions evaluated from their
    source over the small instances of absmodel).  Every write goes through a sink call (print_to_with / show_to / format_to)
    that is given a position and returns the next one.  Required: the objects shown with %$ are exactly the container's
    elements (key then value for maps), each once, in iteration order; every sink call is given the position the previous one
    returned (the caller's for the first); the function returns the last position.
    Returns (scenarios, mismatch or None, unsupported or None)."""
    from . import cint, absmodel
    from .absmodel import TERM, SELF
    fname = P.slot(T, 'Show', 'show')
    fn = P.fn(fname)
    POS0, OUT = 40, 2
    n_eval = 0
    scen = [(sc, False) for sc in absmodel.scenarios(T)] + ([(3, 2), (3, 1)] if T == 'Tuple' else [])
    for sc, dup in scen:
        M = absmodel.build(P, T, sc)
        label = M.label
        if dup:                                     # the first object is stored again, at the third / the second position
            M.atoms[('elem', 'items', dup, None)] = M.elems[0]
            M.elems[dup] = M.elems[0]
            label += ', the first object stored again at position %d' % (dup + 1)
        n = M.n
        elems = [x for kv in zip(M.elems, M.vals) for x in kv] if is_map else list(M.elems)
        shown, state = [], {'pos': POS0}

        def sink(pos_in, what, it):
            if pos_in != state['pos']:
                raise ShowMismatch('%s is given position %s, the previous write returned %s' % (what, pos_in, state['pos']))
            state['pos'] += 7
            return state['pos']

        def call(nm, e, it):
            if nm == 'print_to_with':
                if len(e[2]) != 4 or ir.top_nocast(e[2][2])[0] != 'str':
                    raise ShowUnsupported('print_to with a format that is not a literal')
                items = _initlist_items(e[2][3])
                if items is None:
                    raise ShowUnsupported('print_to whose argument tuple is not the tuple(...) literal')
                vals_ = []
                for x in items:
                    v = it.ev(x)
                    if v == TERM:
                        break
                    vals_.append(v)
                convs = _fmt_items(ir.top_nocast(e[2][2])[1])
                if len(convs) > len(vals_):
                    raise ShowMismatch('format %r has %d conversions, %d arguments are passed' % (ir.top_nocast(e[2][2])[1], len(convs), len(vals_)))
                if it.ev(e[2][0]) != OUT:
                    raise ShowMismatch('writes to something that is not the output it was given')
                for c, v in zip(convs, vals_):
                    if c == '$':
                        shown.append(v)
                return sink(it.ev(e[2][1]), 'print_to(%r)' % ir.top_nocast(e[2][2])[1], it)
            if nm == 'show_to':
                shown.append(it.ev(e[2][0]))
                if it.ev(e[2][1]) != OUT:
                    raise ShowMismatch('writes to something that is not the output it was given')
                return sink(it.ev(e[2][2]), 'show_to', it)
            if nm in ('format_to', 'format_to_va'):
                if it.ev(e[2][0]) != OUT:
                    raise ShowMismatch('writes to something that is not the output it was given')
                # (format_to returns the number of characters written, not a position)
                return sink(it.ev(e[2][1]), nm, it) - it.ev(e[2][1])
            if nm == 'len' and it.ev(e[2][0]) == SELF:
                return n
            raise cint.NoEval('call %s' % nm)
        it = cint.CInt(P, fn, atoms=M.atoms, call=call, recurse=True, mem=M.mem, N=util.Norm(P, fn, expand_locals=False, inline=False), max_steps=4000)
        try:
            r = it.run([SELF, OUT, POS0])
        except absmodel.Mismatch as mm:
            return n_eval, '%s: %s' % (label, mm), None
        except ShowMismatch as mm:
            return n_eval, '%s: %s' % (label, mm), None
        n_eval += 1
        if r[0] == 'stuck' and r[1] == 'step bound':
            return n_eval, '%s: the walk does not end (4000 steps)' % label, None
        if r[0] == 'stuck':
            return n_eval, None, '%s: %s at %s' % (label, r[1], P.cfg(fn).describe(r[2]))
        if r[0] != 'ret':
            return n_eval, '%s: the function does not return (%s)' % (label, r[1]), None
        if shown != elems:
            def nm_(v):
                return ('element %s' % '/'.join(str(i + 1) for i, x in enumerate(elems) if x == v)) if v in elems else 'something that is no element (%s)' % (v,)
            return n_eval, '%s: shows [%s], the elements in order are %d' % (label, ', '.join(nm_(v) for v in shown), len(elems)), None
        if r[1] != state['pos']:
            return n_eval, '%s: returns %s, the last write returned position %s' % (label, r[1], state['pos']), None
    return n_eval, None, None


def check_show_positions(P, ctx):
    """every Show.show instance threads the position: each sink call is given the position the previous one left (the caller's for the
    first) and the function returns the position after its last write.  print_to / show_to return a position; format_to returns the
    number of characters it wrote — a show function that returns that count is right only when it is called at position 0.  Evaluated
    (cint) from a non-zero start position; a function that leaves the evaluated fragment is left to the other rules (counted)."""
    from . import cint
    rule = 'C14.show-returns-position'
    POS0, OUT, L = 40, 2, 7
    nev, skipped = 0, []
    for T, fname in sorted(P.slots_of_class('Show', 'show')):
        if not P.types[T]['unit'].startswith('src/'):
            continue
        fn = P.functions.get(fname)
        if fn is None:
            continue
        state = {'pos': POS0, 'writes': 0}
        bad = [None]

        def sink(pos_in, what, returns_count):
            if pos_in != state['pos']:
                raise ShowMismatch('%s is given position %s, the previous write left the position at %s' % (what, pos_in, state['pos']))
            state['pos'] += L
            state['writes'] += 1
            return L if returns_count else state['pos']

        def call(nm, e, it):
            if nm in ('print_to_with', 'show_to', 'format_to', 'format_to_va'):
                o, p_ = (e[2][1], e[2][2]) if nm == 'show_to' else (e[2][0], e[2][1])
                if it.ev(o) != OUT:
                    raise cint.NoEval('a sink call on something that is not the output')
                return sink(it.ev(p_), nm, nm.startswith('format_to'))
            raise cint.NoEval('call %s' % nm)
        it = cint.CInt(P, fn, atoms={('global', 'NULL'): 0, ('global', 'Terminal'): 7777}, call=call, recurse=False, strict=True, max_steps=300)
        try:
            r = it.run([('ep', 'self', 0), OUT, POS0])
        except ShowMismatch as x:
            ctx.fn(fn)
            ctx.refuted(rule, '%s.Show.show' % T, site(fn), 'every write of a show function starts where the previous one ended: %s' % x)
            nev += 1
            continue
        if r[0] != 'ret' or state['writes'] == 0:
            skipped.append(T)
            continue
        nev += 1
        ctx.fn(fn)
        ctx.check(r[1] == state['pos'], rule, '%s.Show.show' % T, site(fn), 'shown at position %d, the function returns the position after its last write' % POS0,
                  ['returns %s after writing %d characters from position %d (format_to returns a count, print_to / show_to a position)' % (r[1], state['pos'] - POS0, POS0)] if r[1] != state['pos'] else None)
    ctx.note('C14.show-returns-position: %d show functions evaluated; left to the other rules (loops over the value, several cases): %s' % (nev, ', '.join(skipped)))
    ctx.floor(rule, 5)


SINK_CALLS = {'print_to_with', 'show_to', 'format_to', 'format_to_va'}


def check_sink_independent(P, ctx):
    """a show function writes the same text whatever the sink is: it hands its output parameter on to the sink routines (print_to, show_to,
    format_to — or a helper of its own unit that does the same) and never asks what kind of object it is or writes to it any other way."""
    rule = 'C14.show-is-sink-independent'
    nsites, nfun = 0, 0

    def uses(fn, pidx, depth=0):
        bad = []
        for c, ln in ir.all_calls(fn['body']):
            nm = ir.callee_name(c)
            hit = [i for i, a in enumerate(c[2]) if ir.top_nocast(a)[0] == 'param' and ir.top_nocast(a)[2] == pidx]
            if not hit:
                continue
            if nm in SINK_CALLS:
                continue
            h = P.functions.get(nm) if nm else None
            if h is not None and h['unit'] == fn['unit'] and h.get('body') is not None and depth < 3:
                bad += uses(h, hit[0], depth + 1)
                continue
            bad.append((fn, ln, nm or 'an indirect call'))
        return bad
    for T, fname in sorted(P.slots_of_class('Show', 'show')):
        if not P.types[T]['unit'].startswith('src/'):
            continue
        fn = P.functions.get(fname)
        if fn is None or len(fn['params']) < 2:
            continue
        nfun += 1
        ctx.fn(fn)
        bad = uses(fn, 1)
        nsites += sum(1 for c, _ in ir.all_calls(fn['body']) if any(ir.top_nocast(a)[0] == 'param' and ir.top_nocast(a)[2] == 1 for a in c[2]))
        ctx.check(not bad, rule, '%s.Show.show' % T, site(bad[0][0], bad[0][1]) if bad else site(fn),
                  'the output is only handed on to the sink routines', ['the output is passed to %s' % bad[0][2]] if bad else None)
    ctx.stats['call_sites'] += nsites
    ctx.floor(rule, 10)


def check_container_show_walk(P, ctx):
    """%$ of a container shows each element once, in order, and the position is threaded through every write: the show
    function of each container type is evaluated on abstract containers (eval_container_show)."""
    rule = 'C14.container-show-walk'
    for T, is_map in (('Array', False), ('List', False), ('Tuple', False), ('Table', True), ('Tree', True)):
        fn = P.fn(P.slot(T, 'Show', 'show'))
        ctx.fn(fn)
        key = '%s.Show.show' % T
        try:
            n, bad, unsup = eval_container_show(P, T, is_map)
        except (ShowUnsupported, absmodel.Unsupported) as x:
            n, bad, unsup = 0, None, str(x)
        ctx.stats['paths'] += n
        if unsup:
            ctx.undecided(rule, key, site(fn), 'the show function leaves the evaluated fragment: ' + unsup)
            continue
        ctx.check(bad is None, rule, key, site(fn),
                  'on small containers (0..3 elements; Table: every occupancy of up to 4 slots; Tree: every shape of up to 4 nodes) the objects shown with %%$ are the elements, each once, in order; every write is given the '
                  'position the previous one returned and the last position is returned (%d scenarios evaluated)' % n, [bad] if bad else None)
    ctx.floor(rule, 5)


def check_string_sink(P, ctx):
    from .rules_c16 import check_sizes
    before = len(ctx.obs)
    check_sizes(P, ctx)
    keep = []
    for o in ctx.obs[before:]:
        if o['key'] == 'String_Format_To':
            o['rule'] = 'C14.string-sink-bound'
            keep.append(o)
    ctx.obs[before:] = keep
    ctx.floors.pop(('C16.size-covers-write', ctx.config), None)
    ctx.floor('C14.string-sink-bound', 1)
    # the File sink delegates to vfprintf with the same format and list
    rule = 'C14.file-sink'
    fn = P.fn(P.slot('File', 'Format', 'format_to'))
    g = P.cfg(fn)
    N = util.Norm(P, fn)
    cs = [(n, c) for n in g.live() if n['expr'] is not None for c in ir.calls(n['expr']) if ir.callee_name(c) == 'vfprintf']
    ok = len(cs) == 1 and cs[0][0]['kind'] == 'ret' and [N.canon(a) for a in cs[0][1][2]] == [('arrow', ('param', 0), 'file'), ('param', 2), ('param', 3)] and g.must_pass(g.exit, [cs[0][0]['id']])
    ctx.check(ok, rule, 'File_Format_To', site(fn), 'the File sink is vfprintf(handle, fmt, va) and returns its count')
    # format_to / format_to_va forward unchanged
    fn = P.fn('format_to')
    g = P.cfg(fn)
    cs = [(n, c) for n in g.live() if n['expr'] is not None for c in ir.calls(n['expr']) if ir.callee_name(c) == 'format_to_va']
    ok = len(cs) == 1 and [ir.canon(a) for a in cs[0][1][2]][:3] == [('param', 0), ('param', 1), ('param', 2)]
    rets = [n for n in g.live() if n['kind'] == 'ret']
    ok = ok and len(rets) == 1 and cs[0][0].get('decl') and ir.canon(rets[0]['expr']) == ('local', cs[0][0]['decl']['name'])
    ctx.check(ok, rule, 'format_to', site(fn), 'format_to forwards (sink, pos, fmt, va_list) and returns the sink\'s count')
    ctx.floor(rule, 2)


def run(ctx, load):
    P = load(None, 'default')
    ctx.stats['units'] = set(P.units)
    ctx.stats['configs'] = ['default']
    check_print(P, ctx)
    check_show_to(P, ctx)
    check_position_threaded(P, ctx)
    check_container_show_walk(P, ctx)
    check_show_positions(P, ctx)
    check_sink_independent(P, ctx)
    check_string_sink(P, ctx)
    # too few arguments raise FormatError — also when the format is the message of a throw: the FormatError raised from inside the throw
    # is what the handlers see, and later throws are unaffected (the try/throw/catch protocol of C07 with malformed throws, explored on
    # the machine derived from the exception_* functions)
    from . import rules_c07
    Px = load(rules_c07.UNITS, 'default', [rules_c07.WITNESS])
    ctx.config = 'default'
    rule = 'C14.format-error-from-a-throw'
    try:
        summ = {nm: rules_c07.summarise(Px, nm, ctx) for nm in ('exception_try', 'exception_try_end', 'exception_try_fail', 'exception_throw', 'exception_catch')}
        rules_c07.check_protocol(Px, ctx, summ, 2, 2, kinds=('A', 'A!'), filters=(frozenset(), frozenset({'A'}), frozenset({'FormatError'})), key='malformed-throw', rule=rule)
    except rules_c07.Undecided as u:
        ctx.undecided(rule, 'malformed-throw', 'src/Exception.c', str(u))
    ctx.floor(rule, 1)


EXPLANATION = (
    'Decided: (a) specifier-table — the set of conversion letters that ends a specification equals the disjoint union of the letters the '
    'branches of print_to_with format; each branch fetches the argument with the accessor of its kind (c_str / c_int / c_float / raw '
    'pointer / show_to) and passes it unchanged (no narrowing) together with the copied specification; literal text and %% go through '
    'the sink; (b) position — every branch adds the sink\'s count once, a negative count raises FormatError, %$ takes show_to\'s position; '
    '(c) too-few-arguments — the argument-count test dominates the fetch and the index advances once per specification; (d) bounds — '
    'the scratch copy stays inside strlen(fmt)+1 bytes; the String sink measures with vsnprintf(NULL,0) on a copy of the list, requests '
    'pos+len+1 and writes at pos with the original list; the File sink is vfprintf; (e) show functions use constant format strings only. '
    'Not decided: character-for-character equality with printf (the C library\'s own behaviour), malformed format strings.')
